(* C10_py_proof.v — the (repaired) pure-Python readers always terminate and end in SDone or an
   ordinary exception.  (They contain no instrumented read: memory safety is the interpreter's.) *)
From Coq Require Import ZArith List Bool Lia ZifyBool.
From Verif Require Import C10_Base C10_DecodeSafePy C10_wp.
Import ListNotations.
Open Scope Z_scope.
Ltac Zify.zify_post_hook ::= Z.to_euclidean_division_equations.

Local Notation fx := fx_repaired.

Ltac step lem :=
  eapply wp_bind_mono; [apply lem; try assumption; try lia | cbv beta].
Ltac mono lem :=
  eapply wp_mono; [apply lem; try assumption; try lia | cbv beta].
Ltac pairstep lem v p H :=
  step lem; intros [v p] H; cbn [snd fst] in H; cbv beta iota zeta.

(* ------------------------------------------------------------------ varint *)
Lemma py_varint_loop_wp buf : forall n pos shift result,
  0 <= pos -> shift <= 63 -> 63 - shift < 7 * Z.of_nat n ->
  wp (py_varint_loop n buf pos shift result) (fun r => pos < snd r <= zlen buf).
Proof.
  induction n; intros pos shift result Hp Hs Hf.
  - lia.
  - cbn [py_varint_loop].
    step py_getitem_wp. intros b Hb. cbv zeta.
    destruct (b <? 128); [cbn [wp snd]; lia|].
    destruct (64 <=? shift + 7) eqn:E; [exact I|].
    mono IHn. intros r Hr. lia.
Qed.

Lemma py_varint_wp buf pos :
  0 <= pos -> wp (py_varint buf pos) (fun r => pos < snd r <= zlen buf).
Proof.
  intros. unfold py_varint. step py_getitem_wp. intros r Hr.
  destruct ((r <? 128) && Z.even r); [cbn [wp snd]; lia|].
  destruct (r <? 128); [cbn [wp snd]; lia|].
  mono py_varint_loop_wp. intros x Hx. lia.
Qed.

Lemma py_opt_bytes_snd buf p n : p <= snd (py_opt_bytes buf p n).
Proof. unfold py_opt_bytes. destruct (0 <=? n) eqn:E; cbn [snd]; lia. Qed.

(* ------------------------------------------------------------------ v2 records *)
Lemma py_headers_wp buf : forall fuel p hc acc,
  0 <= p -> (0 < fuel)%nat -> zlen buf - p < Z.of_nat fuel ->
  wp (py_headers fuel buf p hc acc) (fun r => p <= snd r).
Proof.
  induction fuel; intros p hc acc Hp H0 Hf.
  - lia.
  - cbn [py_headers]. destruct (hc =? 0); [cbn [wp snd]; lia|].
    pairstep py_varint_wp klen p1 H1.
    destruct (klen <? 0) eqn:Ek; [exact I|].
    destruct (negb (utf8_ok (py_slice buf p1 (p1 + klen)))); [exact I|].
    pairstep py_varint_wp vlen p2 H2.
    pose proof (py_opt_bytes_snd buf p2 vlen) as H3.
    destruct (py_opt_bytes buf p2 vlen) as [hval p3]. cbn [snd] in H3.
    mono IHfuel. intros r Hr. lia.
Qed.

Lemma py_read_msg_wp h buf pos :
  0 <= pos -> wp (py_read_msg h buf pos) (fun r => pos < zlen buf /\ pos < snd r).
Proof.
  intros Hp. unfold py_read_msg.
  pairstep py_varint_wp rlen p1 H1.
  pairstep py_varint_wp attrs p2 H2.
  pairstep py_varint_wp tsd p3 H3.
  pairstep py_varint_wp offd p4 H4.
  pairstep py_varint_wp klen p5 H5.
  pose proof (py_opt_bytes_snd buf p5 klen) as H6.
  destruct (py_opt_bytes buf p5 klen) as [rkey p6]. cbn [snd] in H6.
  pairstep py_varint_wp vlen p7 H7.
  pose proof (py_opt_bytes_snd buf p7 vlen) as H8.
  destruct (py_opt_bytes buf p7 vlen) as [rval p8]. cbn [snd] in H8.
  pairstep py_varint_wp hc p9 H9.
  destruct (hc <? 0); [exact I|].
  step py_headers_wp. { unfold zlen in *; lia. }
  intros [hs p10] H10; cbn [snd] in H10; cbv beta iota zeta.
  destruct (negb (p10 - p1 =? rlen)); [exact I|]. cbn [wp snd]. lia.
Qed.

Lemma py_catch_ok e : okf e -> okf (py_catch e).
Proof.
  destruct e; cbn; auto. intros _.
  destruct (_ || _)%bool; exact I.
Qed.

Lemma py_v2_iter_ok h buf : forall fuel pos idx acc,
  0 <= pos -> (0 < fuel)%nat -> zlen buf - pos < Z.of_nat fuel ->
  ok_status (snd (py_v2_iter fuel h buf pos idx acc)).
Proof.
  induction fuel; intros pos idx acc Hp H0 Hf.
  - lia.
  - cbn [py_v2_iter]. destruct (ph_num_records h <=? idx).
    + destruct (pos =? zlen buf); exact I.
    + pose proof (py_read_msg_wp h buf pos Hp) as W.
      destruct (py_read_msg h buf pos) as [[r p]|e]; cbn [wp snd] in W.
      * apply IHfuel; lia.
      * cbn [snd ok_status]. apply py_catch_ok. exact W.
Qed.


Lemma py_v2_uncompress_wp dec h buf :
  wp (py_v2_uncompress dec h buf) (fun r => 0 <= snd r).
Proof.
  unfold py_v2_uncompress.
  destruct (ph_attrs h mod 8 =? 0); [cbn [wp snd]; lia|].
  destruct (4 <? ph_attrs h mod 8); [exact I|].
  destruct (dec _ _); [cbn [wp snd]; lia|exact I].
Qed.

Theorem py_v2_run_ok crc32c dec validate buf : ok_status (snd (py_v2_run crc32c dec validate buf)).
Proof.
  unfold py_v2_run.
  assert (W : wp (py_v2_new buf) (fun _ => True)).
  { unfold py_v2_new. step py_unpack_from_wp. intros l _. exact I. }
  destruct (py_v2_new buf) as [h|e]; cbn [wp] in W; [|exact W].
  destruct (validate && negb (py_v2_validate crc32c h buf)); [exact I|].
  pose proof (py_v2_uncompress_wp dec h buf) as U.
  destruct (py_v2_uncompress dec h buf) as [[b pos]|e]; cbn [wp snd] in U; [|exact U].
  apply py_v2_iter_ok; [lia|lia|unfold zlen; lia].
Qed.

(* ------------------------------------------------------------------ legacy *)
Lemma py_i32_wp buf pos : wp (py_i32 buf pos) (fun _ => True).
Proof. unfold py_i32. step py_unpack_from_wp. intros l _. exact I. Qed.

Lemma py_l_read_header_wp magic buf pos :
  0 <= pos -> wp (py_l_read_header magic buf pos) (fun _ => pos + 18 <= zlen buf).
Proof.
  intros. unfold py_l_read_header. step py_unpack_from_pos. intros l Hl. cbn [wp].
  destruct (magic =? 0); lia.
Qed.

Lemma py_l_read_header_any magic buf pos : wp (py_l_read_header magic buf pos) (fun _ => True).
Proof. unfold py_l_read_header. step py_unpack_from_wp. intros l _. exact I. Qed.

Lemma py_l_key_value_wp buf pos : wp (py_l_key_value buf pos) (fun _ => True).
Proof.
  unfold py_l_key_value. step py_i32_wp. intros ksz _. cbv zeta.
  destruct (if ksz =? -1 then _ else _) as [key p].
  step py_i32_wp. intros vsz _. exact I.
Qed.

Lemma py_l_payload_wp buf ko : wp (py_l_payload buf ko) (fun _ => True).
Proof.
  unfold py_l_payload. cbv zeta. step py_i32_wp. intros ksz _.
  step py_i32_wp. intros vsz _. destruct (vsz =? -1); exact I.
Qed.

Lemma py_all_headers_wp magic buf : forall fuel pos acc,
  0 <= pos -> Z.max 0 (zlen buf - pos) < Z.of_nat fuel ->
  wp (py_all_headers fx fuel magic buf pos acc) (fun _ => True).
Proof.
  induction fuel; intros pos acc Hp Hf.
  - lia.
  - cbn [py_all_headers fx_pyhdrs fx_repaired andb].
    destruct (pos <? zlen buf) eqn:E; [|exact I].
    step py_l_read_header_wp. intros h Hh.
    destruct (l_length h <? 0) eqn:El; [exact I|].
    apply IHfuel; lia.
Qed.

Lemma py_l_inner_ok main tstype abs ko buf : forall hs acc,
  ok_status (snd (py_l_inner main tstype abs ko buf hs acc)).
Proof.
  induction hs as [|[h mp] hs IH]; intros acc; cbn [py_l_inner]; [exact I|].
  destruct (negb (l_attrs h mod 8 =? 0)); [exact I|]. cbv zeta.
  pose proof (py_l_key_value_wp buf (mp + ko)) as W.
  destruct (py_l_key_value buf (mp + ko)) as [[key value]|e]; cbn [wp] in W; [apply IH|exact W].
Qed.

Lemma py_l_iter_ok dec magic main buf : ok_status (snd (py_l_iter dec fx magic main buf)).
Proof.
  unfold py_l_iter. cbv zeta.
  destruct (l_attrs main mod 8 =? 0).
  - pose proof (py_l_key_value_wp buf (if magic =? 1 then 26 else 18)) as W.
    destruct (py_l_key_value buf _) as [[key value]|e]; cbn [wp] in W; [exact I|exact W].
  - pose proof (py_l_payload_wp buf (if magic =? 1 then 26 else 18)) as W.
    destruct (py_l_payload buf _) as [data|e]; cbn [wp] in W; [|exact W].
    destruct (3 <? l_attrs main mod 8); [exact I|].
    destruct ((l_attrs main mod 8 =? 3) && (magic =? 0)); [exact I|].
    destruct (dec _ data) as [out|e]; [|exact I].
    pose proof (py_all_headers_wp magic out (S (S (2 * length out))) 0 [] ltac:(lia)
                  ltac:(unfold zlen; lia)) as A.
    destruct (py_all_headers fx _ magic out 0 []) as [hs|e]; cbn [wp] in A; [|exact A].
    destruct (0 <? magic).
    + destruct (rev hs) as [|[last lp] t]; [exact I|]. apply py_l_inner_ok.
    + apply py_l_inner_ok.
Qed.

Theorem py_l_run_ok crc32 dec validate magic buf : ok_status (snd (py_l_run crc32 dec fx validate magic buf)).
Proof.
  unfold py_l_run.
  assert (W : wp (py_l_new magic buf) (fun _ => True)).
  { unfold py_l_new. step py_l_read_header_any. intros h _.
    destruct (negb _); [exact I|]. destruct (negb _); exact I. }
  destruct (py_l_new magic buf) as [h|e]; cbn [wp] in W; [|exact W].
  destruct (validate && negb (py_l_validate crc32 h buf)); [exact I|].
  apply py_l_iter_ok.
Qed.

(* ------------------------------------------------------------------ _MemoryRecordsPy driver *)
Lemma py_cache_next_wp buf pos :
  wp (py_cache_next buf pos)
     (fun r => match snd r with
               | None => True
               | Some s => s = py_slice buf pos (fst r) /\ fst r <= zlen buf
               end).
Proof.
  unfold py_cache_next. cbv zeta.
  destruct (zlen buf - pos <? 12); [exact I|].
  step py_i32_wp. intros length _.
  destruct (zlen buf <? pos + 12 + length) eqn:E; [exact I|].
  cbn [wp fst snd]. split; [reflexivity|lia].
Qed.

(* the slice handed out last was buf[q:pos]; the measure is the distance of norm(q) to the end *)
Theorem py_mr_loop_ok crc32c crc32 dec validate buf : forall fuel pos next acc,
  (0 < fuel)%nat ->
  (next = None \/
   exists q, next = Some (py_slice buf q pos) /\ pos <= zlen buf /\
             zlen buf - py_norm (zlen buf) q < Z.of_nat fuel) ->
  ok_status (snd (py_mr_loop crc32c crc32 dec fx fuel validate buf pos next acc)).
Proof.
  pose proof (zlen_nonneg buf) as Hn.
  induction fuel; intros pos next acc H0 Hinv.
  - lia.
  - cbn [py_mr_loop]. destruct Hinv as [->|[q [-> [Hpos Hf]]]]; [exact I|].
    destruct (zlen (py_slice buf q pos) <? 26) eqn:E; [exact I|].
    rewrite zlen_py_slice in E.
    pose proof (py_cache_next_wp buf pos) as W.
    destruct (py_cache_next buf pos) as [[pos' next']|e]; cbn [wp fst snd] in W; [|exact W].
    set (slice := py_slice buf q pos) in *.
    assert (R : ok_status (snd (if 2 <=? nth 16 slice 0
                                then py_v2_run crc32c dec validate slice
                                else py_l_run crc32 dec fx validate (nth 16 slice 0) slice))).
    { destruct (2 <=? nth 16 slice 0); [apply py_v2_run_ok|apply py_l_run_ok]. }
    cbv zeta.
    destruct (if 2 <=? nth 16 slice 0 then _ else _) as [recs st]. cbn [snd] in R.
    destruct st as [|f]; [|exact R].
    pose proof (py_norm_range (zlen buf) q Hn). pose proof (py_norm_range (zlen buf) pos Hn).
    apply IHfuel; [lia|].
    destruct next' as [s|]; [right|left; reflexivity].
    destruct W as [-> Hle]. exists pos. split; [reflexivity|]. split; [assumption|]. lia.
Qed.

Theorem py_decode_ok crc32c crc32 dec validate buf : ok_status (snd (py_decode crc32c crc32 dec fx validate buf)).
Proof.
  unfold py_decode.
  pose proof (py_cache_next_wp buf 0) as W.
  destruct (py_cache_next buf 0) as [[pos next]|e]; cbn [wp fst snd] in W; [|exact W].
  apply py_mr_loop_ok; [lia|].
  destruct next as [s|]; [right|left; reflexivity].
  destruct W as [-> Hle]. exists 0. split; [reflexivity|]. split; [assumption|].
  pose proof (zlen_nonneg buf). unfold py_norm. change (0 <? 0) with false. cbv iota.
  unfold zlen in *. lia.
Qed.

