(* Actions of a broker-error dispatch chain (target of translator/dispatch2gallina.py). *)
From Coq Require Import ZArith List Bool.
Import ListNotations.
Open Scope Z_scope.

Inductive retv := RNone | RTrue | RFalse | RValue.

Inductive act :=
| ASuccess                 (* the NoError branch (not part of the dispatch) *)
| ACoordinatorDead         (* self.coordinator_dead(): rediscover the coordinator *)
| ARequestRejoin           (* self.request_rejoin() *)
| AResetGeneration         (* self.reset_generation(): forget member id / generation, rejoin *)
| AMetadataUpdate
| ABackoff                 (* await asyncio.sleep(retry backoff) *)
| ASetMemberId             (* adopt the member id carried by the reply *)
| ARetryJoin               (* try_join = True *)
| ANoRetry
| AErrored                 (* the error is stored and raised to the caller of this request *)
| ADone                    (* batch.done(...): the batch's futures resolve successfully *)
| AFail                    (* batch.failure(...): the batch's futures fail *)
| AReenqueue               (* the batch goes back to the accumulator for a retry *)
| AAbortable               (* sender._abortable_error(...): the transaction becomes ABORTABLE_ERROR *)
| ARetryAfterBackoff       (* return a backoff: the sender runs the handler again later *)
| ARaiseFenced             (* raise ProducerFenced(): fatal *)
| AAwaitReset              (* the consumer gives up its position: reset by the auto_offset_reset policy *)
| ASetError                (* an error is buffered for the application (raised by the next getone/getmany) *)
| ARaiseSame               (* raise error_type(...) : the broker's own error class *)
| ARaiseCode (c : Z)
| ARaiseUnexpected         (* raise Errors.KafkaError(...) : "unexpected error", fatal *)
| ARaiseOther
| AReturn (v : retv)
| AFallThrough.            (* end of the translated statement list *)

Definition is_raise (a : act) : bool :=
  match a with ARaiseSame | ARaiseCode _ | ARaiseUnexpected | ARaiseOther | ARaiseFenced => true | _ => false end.

Definition is_recovery (a : act) : bool :=
  match a with
  | ACoordinatorDead | ARequestRejoin | AResetGeneration | ABackoff | ARetryJoin => true
  | _ => false
  end.

Definition act_eqb (a b : act) : bool :=
  match a, b with
  | ASuccess, ASuccess | ACoordinatorDead, ACoordinatorDead | ARequestRejoin, ARequestRejoin
  | AResetGeneration, AResetGeneration | AMetadataUpdate, AMetadataUpdate | ABackoff, ABackoff
  | ASetMemberId, ASetMemberId | ARetryJoin, ARetryJoin | ANoRetry, ANoRetry | AErrored, AErrored
  | ADone, ADone | AFail, AFail | AReenqueue, AReenqueue
  | AAbortable, AAbortable | ARetryAfterBackoff, ARetryAfterBackoff | ARaiseFenced, ARaiseFenced
  | AAwaitReset, AAwaitReset | ASetError, ASetError
  | ARaiseSame, ARaiseSame | ARaiseUnexpected, ARaiseUnexpected | ARaiseOther, ARaiseOther
  | AFallThrough, AFallThrough => true
  | ARaiseCode x, ARaiseCode y => x =? y
  | AReturn x, AReturn y =>
      match x, y with RNone, RNone | RTrue, RTrue | RFalse, RFalse | RValue, RValue => true | _, _ => false end
  | _, _ => false
  end.

Definition has (a : act) (l : list act) : bool := existsb (act_eqb a) l.

(* a chain handles a code without giving up: no raise, and at least one recovery action *)
Definition recovers (l : list act) : bool := negb (existsb is_raise l) && existsb is_recovery l.
Definition fatal (l : list act) : bool := existsb is_raise l.
