(* ImpLemmas.v — reasoning principles for the combinators of Imp.v *)
From Coq Require Import ZArith List String Bool Lia ZifyBool.
From Verif Require Import Imp.
Import ListNotations.
Open Scope Z_scope.

Lemma py_index_ok_true {A} (l : list A) i : 0 <= i < zlen l -> py_index_ok l i = true.
Proof. unfold py_index_ok, zlen. intros. apply andb_true_intro; split; lia. Qed.

Lemma py_index_nonneg {A} (d : A) l i : 0 <= i -> py_index d l i = nth (Z.to_nat i) l d.
Proof. unfold py_index. intros H. destruct (0 <=? i) eqn:E; [reflexivity|lia]. Qed.

Lemma zlen_nonneg {A} (l : list A) : 0 <= zlen l.
Proof. unfold zlen. lia. Qed.

Lemma zlen_app {A} (l1 l2 : list A) : zlen (l1 ++ l2) = zlen l1 + zlen l2.
Proof. unfold zlen. rewrite app_length. lia. Qed.

Lemma zlen_cons {A} (x : A) l : zlen (x :: l) = 1 + zlen l.
Proof. unfold zlen. cbn [List.length]. lia. Qed.

(* Loop invariant rule: the body always falls through and preserves P *)
Lemma for_range_inv {S R} (P : nat -> S -> Prop) (body : Z -> S -> S * flow R) n i0 s0 :
  P O s0 ->
  (forall k s, (k < n)%nat -> P k s ->
     exists s', body (i0 + Z.of_nat k) s = (s', FNext) /\ P (Datatypes.S k) s') ->
  exists s', for_range n i0 body s0 = (s', FNext) /\ P n s'.
Proof.
  revert P i0 s0. induction n as [|n IH]; intros P i0 s0 H0 Hstep.
  - exists s0. split; [reflexivity|exact H0].
  - destruct (Hstep O s0 ltac:(lia) H0) as (s1 & E1 & P1).
    rewrite Z.add_0_r in E1.
    destruct (IH (fun k s => P (Datatypes.S k) s) (i0 + 1) s1 P1) as (s' & E & Pn).
    + intros k s Hk Pk. destruct (Hstep (Datatypes.S k) s ltac:(lia) Pk) as (s2 & E2 & P2).
      exists s2. split; [|exact P2]. rewrite <- E2. f_equal. lia.
    + exists s'. split; [|exact Pn]. cbn [for_range]. rewrite E1. cbn [snd fst]. exact E.
Qed.

Lemma for_each_inv {A S R} (P : list A -> S -> Prop) (body : A -> S -> S * flow R) xs s0 :
  P [] s0 ->
  (forall pre x s, P pre s -> exists s', body x s = (s', FNext) /\ P (pre ++ [x]) s') ->
  exists s', for_each xs body s0 = (s', FNext) /\ P xs s'.
Proof.
  intros H0 Hstep.
  assert (G : forall pre s, P pre s -> exists s', for_each xs body s = (s', FNext) /\ P (pre ++ xs) s').
  { induction xs as [|x xs IH]; intros pre s Hp.
    - exists s. rewrite app_nil_r. split; [reflexivity|exact Hp].
    - destruct (Hstep pre x s Hp) as (s1 & E1 & P1).
      destruct (IH (pre ++ [x]) s1 P1) as (s' & E & Pn).
      exists s'. split.
      + cbn [for_each]. rewrite E1. cbn [snd fst]. exact E.
      + rewrite <- app_assoc in Pn. exact Pn. }
  exact (G [] s0 H0).
Qed.

Lemma seq_flow_next {S R} (s : S) (k : S -> S * flow R) : seq_flow (s, FNext) k = k s.
Proof. reflexivity. Qed.
