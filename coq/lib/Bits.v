(* Bits.v — modular-arithmetic and bitwise lemmas shared by the proofs. *)
From Coq Require Import ZArith List Bool Lia ZifyBool.
Import ListNotations.
Open Scope Z_scope.
Ltac Zify.zify_post_hook ::= Z.to_euclidean_division_equations.

Lemma land_ones32 x : Z.land x 4294967295 = x mod 4294967296.
Proof. change 4294967295 with (Z.ones 32). rewrite Z.land_ones by lia. reflexivity. Qed.

Lemma land_ones31 x : Z.land x 2147483647 = x mod 2147483648.
Proof. change 2147483647 with (Z.ones 31). rewrite Z.land_ones by lia. reflexivity. Qed.

Lemma land_255 x : Z.land x 255 = x mod 256.
Proof. change 255 with (Z.ones 8). rewrite Z.land_ones by lia. reflexivity. Qed.

Lemma land_127 x : Z.land x 127 = x mod 128.
Proof. change 127 with (Z.ones 7). rewrite Z.land_ones by lia. reflexivity. Qed.

Lemma lxor_mod_pow2 a b n : 0 <= n -> (Z.lxor a b) mod 2 ^ n = Z.lxor (a mod 2 ^ n) (b mod 2 ^ n).
Proof.
  intros Hn. rewrite <- !Z.land_ones by exact Hn.
  apply Z.bits_inj'. intros k Hk.
  rewrite Z.lxor_spec, !Z.land_spec, Z.lxor_spec.
  destruct (Z.testbit (Z.ones n) k); rewrite ?andb_true_r, ?andb_false_r; reflexivity.
Qed.

Lemma lor_mod_pow2 a b n : 0 <= n -> (Z.lor a b) mod 2 ^ n = Z.lor (a mod 2 ^ n) (b mod 2 ^ n).
Proof.
  intros Hn. rewrite <- !Z.land_ones by exact Hn.
  apply Z.bits_inj'. intros k Hk.
  rewrite Z.lor_spec, !Z.land_spec, Z.lor_spec.
  destruct (Z.testbit (Z.ones n) k); rewrite ?andb_true_r, ?andb_false_r; reflexivity.
Qed.

Lemma lxor_mod32 a b : (Z.lxor a b) mod 4294967296 = Z.lxor (a mod 4294967296) (b mod 4294967296).
Proof. exact (lxor_mod_pow2 a b 32 ltac:(lia)). Qed.

Lemma lxor_nonneg_lt a b n : 0 <= n -> 0 <= a < 2 ^ n -> 0 <= b < 2 ^ n -> 0 <= Z.lxor a b < 2 ^ n.
Proof.
  intros Hn Ha Hb.
  assert (H := lxor_mod_pow2 a b n Hn).
  rewrite (Z.mod_small a), (Z.mod_small b) in H by lia.
  rewrite <- H. apply Z.mod_pos_bound. apply Z.pow_pos_nonneg; lia.
Qed.

Lemma lor_nonneg_lt a b n : 0 <= n -> 0 <= a < 2 ^ n -> 0 <= b < 2 ^ n -> 0 <= Z.lor a b < 2 ^ n.
Proof.
  intros Hn Ha Hb.
  assert (H := lor_mod_pow2 a b n Hn).
  rewrite (Z.mod_small a), (Z.mod_small b) in H by lia.
  rewrite <- H. apply Z.mod_pos_bound. apply Z.pow_pos_nonneg; lia.
Qed.

Lemma shiftl_mul a n : 0 <= n -> Z.shiftl a n = a * 2 ^ n.
Proof. intros. apply Z.shiftl_mul_pow2; assumption. Qed.

Lemma shiftr_div a n : 0 <= n -> Z.shiftr a n = a / 2 ^ n.
Proof. intros. apply Z.shiftr_div_pow2; assumption. Qed.

Lemma add_nocarry_lor a b : Z.land a b = 0 -> a + b = Z.lor a b.
Proof. intros H. rewrite <- Z.lxor_lor by exact H. apply Z.add_nocarry_lxor. exact H. Qed.

Lemma land_low_high a b n : 0 <= n -> 0 <= a < 2 ^ n -> Z.land a (b * 2 ^ n) = 0.
Proof.
  intros Hn Ha. apply Z.bits_inj'. intros k Hk.
  rewrite Z.land_spec, Z.bits_0.
  destruct (Z.lt_ge_cases k n) as [Hlt|Hge].
  - rewrite Z.mul_pow2_bits_low by lia. apply andb_false_r.
  - replace (Z.testbit a k) with false; [reflexivity|].
    symmetry. destruct (Z.eq_dec a 0) as [->|Hne]; [apply Z.bits_0|].
    apply Z.bits_above_log2; [lia|].
    apply Z.lt_le_trans with n; [|exact Hge].
    apply Z.log2_lt_pow2; lia.
Qed.

Lemma lor_low_high a b n : 0 <= n -> 0 <= a < 2 ^ n -> Z.lor a (b * 2 ^ n) = a + b * 2 ^ n.
Proof. intros Hn Ha. symmetry. apply add_nocarry_lor. apply land_low_high; assumption. Qed.
