(* C09Bytes.v — byte strings as [list Z], fixed-width big-endian integers, slicing,
   hex conversion (for the case files written by harness/c09.py).  Definitions first,
   lemmas after; everything executable by vm_compute. *)
From Coq Require Import ZArith List Bool Lia ZifyBool Ascii String.
Import ListNotations.
Open Scope Z_scope.
Ltac Zify.zify_post_hook ::= Z.to_euclidean_division_equations.

Definition bytes := list Z.
Definition wfbyte (b : Z) : Prop := 0 <= b < 256.
Definition wfb (l : bytes) : Prop := Forall wfbyte l.
Definition blen (l : bytes) : Z := Z.of_nat (List.length l).

(* ---- big-endian fixed width ------------------------------------------------------- *)
(* [be n v] : the n low-order bytes of v (two's complement for negative v), most
   significant first — struct.pack(">q"/">i"/">h"/">b") and the C hton.pack_* helpers *)
Fixpoint be (n : nat) (v : Z) : bytes :=
  match n with
  | O => []
  | S k => ((v / 256 ^ Z.of_nat k) mod 256) :: be k v
  end.

Fixpoint be_acc (l : bytes) (acc : Z) : Z :=
  match l with
  | [] => acc
  | b :: r => be_acc r (acc * 256 + b)
  end.
Definition unsigned_be (l : bytes) : Z := be_acc l 0.
Definition signed_be (l : bytes) : Z :=
  let u := unsigned_be l in
  let w := 256 ^ blen l in
  if u <? w / 2 then u else u - w.

(* [take n l] : the first n bytes and the rest, None when fewer than n are available
   (struct.error / bounds check in the code) *)
Definition take (n : Z) (l : bytes) : option (bytes * bytes) :=
  if (n <? 0) || (blen l <? n) then None
  else Some (firstn (Z.to_nat n) l, skipn (Z.to_nat n) l).

Definition slice (a b : Z) (l : bytes) : bytes :=
  firstn (Z.to_nat (b - a)) (skipn (Z.to_nat a) l).

Definition zeros (n : nat) : bytes := repeat 0 n.

Fixpoint bytes_eqb (a b : bytes) : bool :=
  match a, b with
  | [], [] => true
  | x :: a', y :: b' => (x =? y) && bytes_eqb a' b'
  | _, _ => false
  end.

(* ---- hex ------------------------------------------------------------------------- *)
Definition hexval (c : ascii) : Z :=
  let n := Z.of_N (N_of_ascii c) in
  if (48 <=? n) && (n <=? 57) then n - 48
  else if (97 <=? n) && (n <=? 102) then n - 87
  else if (65 <=? n) && (n <=? 70) then n - 55
  else 0.
Fixpoint of_hex (s : string) : bytes :=
  match s with
  | String a (String b r) => (16 * hexval a + hexval b) :: of_hex r
  | _ => []
  end.
Definition hexdigit (n : Z) : ascii :=
  ascii_of_N (Z.to_N (if n <? 10 then 48 + n else 87 + n)).
Fixpoint to_hex (l : bytes) : string :=
  match l with
  | [] => EmptyString
  | b :: r => String (hexdigit (b / 16)) (String (hexdigit (b mod 16)) (to_hex r))
  end.

(* ================================================================================== *)
(* Lemmas *)

Lemma blen_nonneg l : 0 <= blen l.
Proof. unfold blen. lia. Qed.
Lemma blen_app a b : blen (a ++ b) = blen a + blen b.
Proof. unfold blen. rewrite app_length. lia. Qed.
Lemma blen_cons x l : blen (x :: l) = 1 + blen l.
Proof. unfold blen. cbn [List.length]. lia. Qed.
Lemma blen_nil : blen [] = 0.
Proof. reflexivity. Qed.

Lemma wfb_app a b : wfb (a ++ b) <-> wfb a /\ wfb b.
Proof. unfold wfb. apply Forall_app. Qed.
Lemma wfb_nil : wfb [].
Proof. constructor. Qed.
Lemma wfb_cons x l : wfb (x :: l) <-> wfbyte x /\ wfb l.
Proof. unfold wfb. split; intros H; [inversion H; tauto | constructor; tauto]. Qed.

Lemma be_length n v : List.length (be n v) = n.
Proof. induction n; cbn [be List.length]; congruence. Qed.
Lemma be_blen n v : blen (be n v) = Z.of_nat n.
Proof. unfold blen. rewrite be_length. reflexivity. Qed.

Lemma be_wfb n v : wfb (be n v).
Proof.
  induction n; cbn [be]; [constructor|]. constructor; [|exact IHn].
  unfold wfbyte. apply Z.mod_pos_bound. lia.
Qed.

Lemma pow256_pos k : 0 < 256 ^ Z.of_nat k.
Proof. apply Z.pow_pos_nonneg; lia. Qed.

Lemma pow256_succ k : 256 ^ Z.of_nat (S k) = 256 * 256 ^ Z.of_nat k.
Proof. rewrite Nat2Z.inj_succ, Z.pow_succ_r by lia. reflexivity. Qed.

Lemma be_acc_be n : forall v acc,
  be_acc (be n v) acc = acc * 256 ^ Z.of_nat n + v mod 256 ^ Z.of_nat n.
Proof.
  induction n as [|k IH]; intros v acc.
  - cbn [be be_acc]. change (256 ^ Z.of_nat 0) with 1. rewrite Z.mod_1_r. lia.
  - cbn [be be_acc]. rewrite IH. rewrite pow256_succ.
    pose proof (pow256_pos k) as Hp.
    set (P := 256 ^ Z.of_nat k) in *.
    rewrite (Z.mul_comm 256 P).
    rewrite Z.rem_mul_r by lia. lia.
Qed.

Lemma be_acc_app a : forall b acc, be_acc (a ++ b) acc = be_acc b (be_acc a acc).
Proof. induction a as [|x a IH]; intros; cbn [app be_acc]; [reflexivity|apply IH]. Qed.

Lemma unsigned_be_be n v : unsigned_be (be n v) = v mod 256 ^ Z.of_nat n.
Proof. unfold unsigned_be. rewrite be_acc_be. lia. Qed.

Lemma unsigned_be_small n v : 0 <= v < 256 ^ Z.of_nat n -> unsigned_be (be n v) = v.
Proof. intros H. rewrite unsigned_be_be. apply Z.mod_small. exact H. Qed.

Lemma signed_be_be n v : (0 < n)%nat ->
  - (256 ^ Z.of_nat n / 2) <= v < 256 ^ Z.of_nat n / 2 -> signed_be (be n v) = v.
Proof.
  intros Hn Hv. unfold signed_be. rewrite unsigned_be_be, be_blen.
  pose proof (pow256_pos n) as Hp.
  assert (He : (256 ^ Z.of_nat n) mod 2 = 0).
  { destruct n as [|k]; [lia|]. rewrite pow256_succ. lia. }
  set (W := 256 ^ Z.of_nat n) in *.
  destruct (Z.lt_ge_cases v 0) as [Hneg|Hpos].
  - assert (Hm : v mod W = v + W).
    { rewrite <- (Z.mod_add v 1 W) by lia. rewrite Z.mul_1_l. apply Z.mod_small. lia. }
    rewrite Hm. destruct (v + W <? W / 2) eqn:E; lia.
  - rewrite Z.mod_small by lia. destruct (v <? W / 2) eqn:E; lia.
Qed.

Lemma be_acc_bound l : wfb l -> forall acc, 0 <= acc ->
  acc * 256 ^ blen l <= be_acc l acc < (acc + 1) * 256 ^ blen l.
Proof.
  induction 1 as [|x l Hx Hl IH]; intros acc Ha.
  - cbn [be_acc]. change (blen []) with 0. lia.
  - cbn [be_acc]. rewrite blen_cons.
    pose proof (blen_nonneg l) as Hn.
    rewrite Z.pow_add_r by lia. change (256 ^ 1) with 256.
    unfold wfbyte in Hx. specialize (IH (acc * 256 + x) ltac:(lia)).
    assert (0 < 256 ^ blen l) by (apply Z.pow_pos_nonneg; lia).
    nia.
Qed.

Lemma unsigned_be_bound l : wfb l -> 0 <= unsigned_be l < 256 ^ blen l.
Proof. intros H. pose proof (be_acc_bound l H 0 ltac:(lia)). unfold unsigned_be. lia. Qed.

(* take / app *)
Lemma take_app a r n : blen a = n -> take n (a ++ r) = Some (a, r).
Proof.
  intros H. unfold take. pose proof (blen_nonneg a). rewrite blen_app.
  pose proof (blen_nonneg r).
  replace ((n <? 0) || (blen a + blen r <? n)) with false by lia.
  unfold blen in H. replace (Z.to_nat n) with (List.length a) by lia.
  rewrite firstn_app, Nat.sub_diag, firstn_all, skipn_app, Nat.sub_diag, skipn_all.
  cbn. rewrite app_nil_r. reflexivity.
Qed.

Lemma take_be n v r : take (Z.of_nat n) (be n v ++ r) = Some (be n v, r).
Proof. apply take_app. apply be_blen. Qed.

Lemma take_some n l a r : take n l = Some (a, r) -> l = a ++ r /\ blen a = n.
Proof.
  unfold take. destruct ((n <? 0) || (blen l <? n)) eqn:E; [discriminate|].
  intros H. inversion H; subst. split; [symmetry; apply firstn_skipn|].
  unfold blen in *. rewrite firstn_length. lia.
Qed.

Lemma slice_app_mid a m r : slice (blen a) (blen a + blen m) (a ++ m ++ r) = m.
Proof.
  unfold slice, blen.
  replace (Z.to_nat (Z.of_nat (List.length a))) with (List.length a) by lia.
  replace (Z.to_nat (Z.of_nat (List.length a) + Z.of_nat (List.length m) - Z.of_nat (List.length a)))
    with (List.length m) by lia.
  rewrite skipn_app, Nat.sub_diag, skipn_all. cbn [app skipn].
  rewrite firstn_app, Nat.sub_diag, firstn_all. cbn. apply app_nil_r.
Qed.

Lemma skipn_app_exact {A} (a r : list A) : skipn (List.length a) (a ++ r) = r.
Proof. rewrite skipn_app, Nat.sub_diag, skipn_all. reflexivity. Qed.

Lemma firstn_app_exact {A} (a r : list A) : firstn (List.length a) (a ++ r) = a.
Proof. rewrite firstn_app, Nat.sub_diag, firstn_all. cbn. apply app_nil_r. Qed.

Lemma bytes_eqb_refl a : bytes_eqb a a = true.
Proof. induction a; cbn; [reflexivity|]. rewrite Z.eqb_refl. exact IHa. Qed.

Lemma bytes_eqb_eq a : forall b, bytes_eqb a b = true <-> a = b.
Proof.
  induction a as [|x a IH]; intros [|y b]; cbn; split; intros H; try reflexivity; try discriminate.
  - apply andb_prop in H. destruct H as [H1 H2]. apply Z.eqb_eq in H1. apply IH in H2. congruence.
  - inversion H; subst. rewrite Z.eqb_refl. cbn. apply IH. reflexivity.
Qed.
