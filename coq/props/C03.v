(* C03 — Consumer yields each visible record once, in offset order, from its position.
   Public statements only.  Model: model/C03_Fetcher.v
     - the log as a consumer may see it: batches (base, last, offsets of the visible records —
       none for control / aborted / emptied batches; exactness of that filter is C08);
     - the per-partition fetcher LTS (Fetcher + TopicPartitionState + FetchResult /
       PartitionRecords, composed with the leader's answers): [step]/[run];
     - the API-level specification automaton [sstep]/[srun], and [astep]/[arun] for what the
       application itself records;
     - the scans of next_record / fetched_records over the buffered partitions.
   Traces recorded from the real AIOKafkaConsumer under the simulator must be accepted by
   [run] and [arun] (correspondence, harness/c03.py).  Proofs: proof/C03_lists.v, C03_main.v. *)
From Coq Require Import ZArith List Bool Lia.
From Verif Require Import DispatchActs FetchDispatch C03_dispatch.
From Verif Require Import C03_Fetcher C03_lists C03_main.
Import ListNotations.
Open Scope Z_scope.

(* c03_exact.  In EVERY accepted trace (any interleaving of fetches, replies in any order,
   stale replies, failed fetches, getone/getmany hand-outs, seeks, resets, pause/resume), every
   run of deliveries between two repositionings — started at a (the seek target or the reset
   result), position e when it ended or now — consists of exactly the visible records of the log
   with offsets in [a, e). *)
Theorem c03_exact : forall L none tr s,
  wf_log L = true -> run none L init tr = Some s ->
  Forall (fun x => let '(a, e, ds) := x in a <= e /\ ds = vis_between L a e) (segments s).
Proof. intros L none tr s WF. exact (exact_runs L WF none tr s). Qed.
Print Assumptions c03_exact.

(* ... and such a slice is strictly increasing, free of repetitions and a contiguous block of
   the visible records: nothing visible at or after a and below e is missing *)
Theorem c03_exact_shape : forall L a e,
  wf_log L = true -> a <= e ->
  ssorted a (vis_between L a e) /\ NoDup (vis_between L a e) /\
  visible L = filter (fun r => r <? a) (visible L) ++ vis_between L a e ++
              filter (fun r => e <=? r) (visible L) /\
  (forall r, In r (vis_between L a e) <-> In r (visible L) /\ a <= r < e).
Proof.
  intros L a e WF Hae. pose proof (Vsorted L WF) as VS.
  assert (ssorted a (vis_between L a e)) as S1.
  { eapply ssorted_weaken; [|apply (between_sorted a e _ 0 VS)]. lia. }
  split; [exact S1|]. split; [eapply ssorted_NoDup; exact S1|].
  split; [apply (between_block _ 0 a e VS Hae)|]. intros r. apply between_In.
Qed.
Print Assumptions c03_exact_shape.

(* Refinement: every accepted trace of the fetcher model, seen through [abs_trace], is a run of
   the specification automaton ending in the abstraction of the state reached. *)
Theorem c03_refines_spec : forall L none tr s,
  wf_log L = true -> run none L init tr = Some s ->
  srun L sinit (abs_trace none L init tr) = Some (abs_st s).
Proof. intros L none tr s WF H. exact (run_refines L WF none tr init s I H). Qed.
Print Assumptions c03_refines_spec.

(* The specification automaton is exact, and so is the application-level automaton against
   which the recorded API calls/returns are replayed. *)
Theorem c03_spec_exact : forall L tr s,
  wf_log L = true -> srun L sinit tr = Some s ->
  Forall (fun x => let '(a, e, ds) := x in a <= e /\ ds = vis_between L a e) (sclose s).
Proof. intros L tr s WF. exact (spec_exact_runs L WF tr s). Qed.
Print Assumptions c03_spec_exact.

Theorem c03_application_trace_exact : forall L tr s,
  wf_log L = true -> arun L sinit tr = Some s ->
  Forall (fun x => let '(a, e, ds) := x in a <= e /\ ds = vis_between L a e) (sclose s).
Proof. intros L tr s WF. exact (app_exact_runs L WF tr s). Qed.
Print Assumptions c03_application_trace_exact.

(* c03_position.  (1) right after getone() handed out r the position is r + 1; *)
Theorem c03_position_after_getone : forall none L s r s',
  step none L s (HandOne (Some r)) = Some s' -> pos s' = Some (r + 1) /\ paused s = false.
Proof. exact hand_one_position. Qed.
Print Assumptions c03_position_after_getone.

(* (2) after getmany handed out a non-empty list the position is past its last record; *)
Theorem c03_position_after_getmany : forall L none tr s mx res s',
  wf_log L = true -> run none L init tr = Some s ->
  step none L s (HandMany mx res) = Some s' -> res <> [] ->
  exists p, pos s' = Some p /\ last_or 0 res + 1 <= p.
Proof. intros L none tr s mx res s' WF. exact (hand_many_position L WF none tr s mx res s'). Qed.
Print Assumptions c03_position_after_getmany.

(* (3) the position is never beyond a visible record of the current run that was not delivered; *)
Theorem c03_position_not_ahead : forall L none tr s p,
  wf_log L = true -> run none L init tr = Some s -> pos s = Some p ->
  exists a, start s = Some a /\ a <= p /\
    forall r, In r (visible L) -> a <= r < p -> In r (seg s).
Proof. intros L none tr s p WF. exact (position_not_ahead L WF none tr s p). Qed.
Print Assumptions c03_position_not_ahead.

(* (4) right after seek(o), position() = o. *)
Theorem c03_seek_then_position : forall none L s o s1 p s2,
  step none L s (Seek o) = Some s1 -> step none L s1 (Position p) = Some s2 -> p = o.
Proof. exact seek_then_position. Qed.
Print Assumptions c03_seek_then_position.

(* c03_seek_wins.  seek drops what was buffered; a reply to a fetch for any other offset than the
   current position — in particular the fetch that was in flight when seek(o) was called —
   changes neither the buffer nor the position (nor anything but the in-flight bookkeeping);
   likewise while a reset is pending. *)
Theorem c03_seek_drops_buffer : forall none L s o s1,
  step none L s (Seek o) = Some s1 ->
  pos s1 = Some o /\ buf s1 = NoBuf /\ start s1 = Some o /\ seg s1 = [].
Proof. exact seek_drops_buffer. Qed.
Print Assumptions c03_seek_drops_buffer.

Theorem c03_seek_wins : forall none L s o o' code bs s',
  pos s = Some o -> o' <> o -> step none L s (FetchResp o' code bs) = Some s' ->
  pos s' = pos s /\ buf s' = buf s /\ paused s' = paused s /\ start s' = start s /\
  seg s' = seg s /\ hist s' = hist s.
Proof. exact seek_wins. Qed.
Print Assumptions c03_seek_wins.

Theorem c03_reset_pending_wins : forall none L s o' code bs s',
  pos s = None -> step none L s (FetchResp o' code bs) = Some s' ->
  pos s' = None /\ buf s' = buf s /\ seg s' = seg s /\ hist s' = hist s.
Proof. exact reset_pending_wins. Qed.
Print Assumptions c03_reset_pending_wins.

(* ... so the seek takes effect for the very next record: whatever happens after Seek o (stale
   replies, failures, new fetches, hand-outs, pauses), as long as no other seek / reset
   completes, what has been delivered since is exactly the visible records in [o, position). *)
Theorem c03_seek_next_records : forall L none tr o tr2 s p,
  wf_log L = true ->
  run none L init (tr ++ Seek o :: tr2) = Some s -> forallb no_reposition tr2 = true ->
  pos s = Some p -> o <= p /\ seg s = vis_between L o p.
Proof. intros L none tr o tr2 s p WF. exact (seek_next_records L WF none tr o tr2 s p). Qed.
Print Assumptions c03_seek_next_records.

(* c03_paused_silent.  While paused nothing is handed out (the buffered data is dropped, the
   position does not move), no fetch is issued for the partition, and the specification never
   delivers. *)
Theorem c03_paused_silent_getone : forall none L s res s',
  paused s = true -> step none L s (HandOne res) = Some s' ->
  res = None /\ pos s' = pos s /\ seg s' = seg s /\ buf s' = NoBuf.
Proof. exact paused_silent_one. Qed.
Print Assumptions c03_paused_silent_getone.

Theorem c03_paused_silent_getmany : forall none L s mx res s',
  paused s = true -> step none L s (HandMany mx res) = Some s' ->
  res = [] /\ pos s' = pos s /\ seg s' = seg s /\ buf s' = NoBuf.
Proof. exact paused_silent_many. Qed.
Print Assumptions c03_paused_silent_getmany.

Theorem c03_paused_not_fetched : forall none L s o,
  paused s = true -> step none L s (FetchSent o) = None.
Proof. exact paused_not_fetched. Qed.
Print Assumptions c03_paused_not_fetched.

Theorem c03_spec_paused_silent : forall L s r, s_paused s = true -> sstep L s (SDeliver r) = None.
Proof. exact spec_paused_silent. Qed.
Print Assumptions c03_spec_paused_silent.

(* c03_filter_arg.  One pass of next_record / fetched_records over the buffered partitions
   touches (hands out from, raises the error of, returns a record of) only partitions inside
   the `partitions` argument. *)
Theorem c03_filter_arg_getone : forall filt order results visits err ret,
  scan_one filt order results = (visits, err, ret) ->
  (forall p r, In (p, r) visits -> in_filter filt p = true) /\
  (forall p, err = Some p -> in_filter filt p = true) /\
  (forall p r, ret = Some (p, r) -> in_filter filt p = true /\ In (p, Some r) visits).
Proof. exact scan_one_filter. Qed.
Print Assumptions c03_filter_arg_getone.

Theorem c03_filter_arg_getmany : forall filt order mx results drained visits err,
  scan_many filt order mx results drained = (visits, err) ->
  (forall p m rs, In (p, m, rs) visits -> in_filter filt p = true) /\
  (forall p, err = Some p -> in_filter filt p = true).
Proof. exact scan_many_filter. Qed.
Print Assumptions c03_filter_arg_getmany.

(* c03_progress (model-level liveness, hence _partial).  A fault-free round at position p —
   fetch at p, the leader answers with k >= 1 batches, the application drains — strictly
   advances the position to the end of the last batch returned whenever a batch at or after p
   exists, also when every returned batch is control / aborted / emptied by compaction; the
   delivered run grows by exactly the visible records passed; the number of batches ahead
   strictly decreases ... *)
Theorem c03_progress_partial : forall L none k s p,
  wf_log L = true ->
  pos s = Some p -> buf s = NoBuf -> paused s = false -> (1 <= k)%nat ->
  (exists b, In b L /\ p <= b_last b) ->
  exists s' p', round none L k s = Some s' /\ pos s' = Some p' /\ p < p' /\ buf s' = NoBuf /\
                paused s' = false /\ seg s' = seg s ++ vis_between L p p' /\ start s' = start s /\
                (exists b, In b L /\ p' = b_next b) /\
                (length (from_off p' L) < length (from_off p L))%nat.
Proof. intros L none k s p WF. exact (round_progress L WF none k s p). Qed.
Print Assumptions c03_progress_partial.

(* ... so at most (number of batches ahead) rounds reach the end of the log, having delivered
   every visible record at or after p. *)
Theorem c03_progress_reaches_end_partial : forall L none k m s p,
  wf_log L = true -> (1 <= k)%nat ->
  length (from_off p L) = m -> pos s = Some p -> buf s = NoBuf -> paused s = false ->
  exists n s' p', (n <= m)%nat /\ rounds none L k n s = Some s' /\ pos s' = Some p' /\ p <= p' /\
    from_off p' L = [] /\ buf s' = NoBuf /\ start s' = start s /\
    seg s' = seg s ++ filter (fun r => p <=? r) (visible L).
Proof. intros L none k m s p WF Hk. exact (rounds_reach_end L WF none k Hk m s p). Qed.
Print Assumptions c03_progress_reaches_end_partial.

(* The full liveness clause of the property — "once faults cease delivery continues to the end
   of the log" — is about the real scheduler: that the fetch loop does issue the next fetch and
   that the application keeps calling getone/getmany.  In the model this is the assumption that
   rounds happen; it is checked on the real code by the quiet period of every simulated run
   (monitor "delivery stopped before the end of the log"), not proved. *)
Definition C03_progress_full : Prop :=
  forall L none tr s p, wf_log L = true -> run none L init tr = Some s -> pos s = Some p ->
  exists tr' s' p', run none L s tr' = Some s' /\ pos s' = Some p' /\ from_off p' L = [].

(* ------------------------------------------------------------------------------------------ *)
(* Non-vacuity: a log with an aborted transaction (offsets 3-4), a marker (5), a batch whose
   last record was compacted away (6-8, record 8 gone) and a trace recorded in the shape the
   simulator produces: reset to 0, fetch, two records by getone, a seek to 7 while the fetch for
   2 is in flight, the stale reply, the new fetch, getmany, the end of the log. *)
Definition ex_log : list batch :=
  [mkB 0 2 [0; 1; 2]; mkB 3 4 []; mkB 5 5 []; mkB 6 8 [6; 7]; mkB 9 10 [9; 10]].

Definition ex_trace : list ev :=
  [ResetTo 0; FetchSent 0; FetchResp 0 0 [mkB 0 2 [0; 1; 2]]; HandOne (Some 0); HandOne (Some 1);
   Position 2; HandMany (Some 1) [2]; HandOne None; FetchSent 3; Seek 7; Position 7;
   FetchResp 3 0 [mkB 3 4 []; mkB 5 5 []]; FetchSent 7; FetchResp 7 0 [mkB 6 8 [6; 7]];
   Pause; HandMany None []; Resume; FetchSent 7; FetchResp 7 0 [mkB 6 8 [6; 7]; mkB 9 10 [9; 10]];
   HandMany (Some 2) [7; 9]; Position 10; HandOne (Some 10); HandOne None; Position 11].

Example c03_ex_wf : wf_log ex_log = true.
Proof. reflexivity. Qed.

Example c03_ex_accepted :
  replay false ex_log ex_trace = inl (Some 11, false, [(0, 3, [0; 1; 2]); (7, 11, [7; 9; 10])]).
Proof. vm_compute. reflexivity. Qed.

Example c03_ex_app_accepted :
  areplay ex_log [ALose; AReset 0; ADeliver 0; ADeliver 1; APosition 2; ADeliver 2; ASeek 7; APosition 7;
                  APause; AResume; ADeliver 7; ADeliver 9; APosition 10; ADeliver 10; APosition 11]
  = inl (Some 11, [(0, 3, [0; 1; 2]); (7, 11, [7; 9; 10])]).
Proof. vm_compute. reflexivity. Qed.

(* ---- the per-partition error dispatch of a Fetch response, regenerated from Fetcher._proc_fetch_request
   on every run (translator/dispatch2gallina.py) and validated against the real method for every code
   -1..100 with and without a reset policy ------------------------------------------------------------ *)

(* for every integer error code: only OFFSET_OUT_OF_RANGE (with a reset policy) makes the consumer give
   up its position - no other error reply can skip or repeat records *)
Theorem c03_only_out_of_range_moves_position : forall c p,
  has AAwaitReset (fetchDispatch c p) = true -> c = OFFSET_OUT_OF_RANGE /\ p = true.
Proof. exact only_out_of_range_moves_position. Qed.
Print Assumptions c03_only_out_of_range_moves_position.

Theorem c03_errors_surfaced_only_for : forall c p,
  has ASetError (fetchDispatch c p) = true ->
  (c = OFFSET_OUT_OF_RANGE /\ p = false) \/ c = TOPIC_AUTHORIZATION_FAILED.
Proof. exact errors_surfaced_only_for. Qed.
Print Assumptions c03_errors_surfaced_only_for.

Theorem c03_out_of_range_follows_policy :
  fetchDispatch OFFSET_OUT_OF_RANGE true = [AAwaitReset] /\ fetchDispatch OFFSET_OUT_OF_RANGE false = [ASetError].
Proof. exact out_of_range_follows_policy. Qed.
Print Assumptions c03_out_of_range_follows_policy.

Theorem c03_leader_errors_refresh_metadata : forall c p, In c [3; 6]%Z -> fetchDispatch c p = [AMetadataUpdate].
Proof. exact leader_errors_refresh_metadata. Qed.
Print Assumptions c03_leader_errors_refresh_metadata.

Theorem c03_other_errors_change_nothing : forall c p,
  ~ In c fetchDispatch_named_codes -> fetchDispatch c p = [].
Proof. exact other_errors_change_nothing. Qed.
Print Assumptions c03_other_errors_change_nothing.

(* the model rejects what the property forbids: a repeated record, a skipped record, a record
   of a paused partition, data from a stale reply *)
Example c03_ex_rejects :
  run false ex_log init [ResetTo 0; FetchSent 0; FetchResp 0 0 [mkB 0 2 [0; 1; 2]]; HandOne (Some 0); HandOne (Some 0)] = None /\
  run false ex_log init [ResetTo 0; FetchSent 0; FetchResp 0 0 [mkB 0 2 [0; 1; 2]]; HandOne (Some 1)] = None /\
  run false ex_log init [ResetTo 0; FetchSent 0; FetchResp 0 0 [mkB 0 2 [0; 1; 2]]; Pause; HandOne (Some 0)] = None /\
  run false ex_log init [ResetTo 0; FetchSent 0; Seek 7; FetchResp 0 0 [mkB 0 2 [0; 1; 2]]; HandOne (Some 0)] = None /\
  arun ex_log sinit [AReset 0; ADeliver 0; ADeliver 2] = None /\
  arun ex_log sinit [AReset 0; ADeliver 0; ASeek 6; ADeliver 7] = None.
Proof. vm_compute. repeat split. Qed.

Example c03_ex_rounds :
  exists s, rounds false ex_log 1 5 (mkSt (Some 1) NoBuf false [] (Some 1) [] []) = Some s /\
            pos s = Some 11 /\ seg s = [1; 2; 6; 7; 9; 10].
Proof. eexists. vm_compute. repeat split. Qed.

(* ---- TopicPartitionState's position-keeping methods, translated from aiokafka/consumer/subscription_state.py on
   every run (gen/TpStateGen.v: await_reset, consumed_to, reset_to, seek, pause, resume) ------------------------- *)
From Verif Require Import C03_TpState TpStateGen C03_tpstate.

(* the invariant "AWAITING_RESET <-> no position; CONSUMING <-> a position and no pending reset strategy" holds
   initially and is kept by every translated method *)
Theorem c03_tpstate_invariant :
  tps_inv tps_init /\
  (forall t k t', TpStateGen.await_reset_py t k = Some t' -> tps_inv t') /\
  (forall t o t', TpStateGen.seek_py t o = Some t' -> tps_inv t') /\
  (forall t o t', TpStateGen.reset_to_py t o = Some t' -> tps_inv t') /\
  (forall t o t', tps_inv t -> TpStateGen.consumed_to_py t o = Some t' -> tps_inv t') /\
  (forall t t', tps_inv t -> TpStateGen.pause_py t = Some t' -> tps_inv t') /\
  (forall t t', tps_inv t -> TpStateGen.resume_py t = Some t' -> tps_inv t').
Proof.
  exact (conj tps_init_inv (conj await_reset_inv (conj seek_inv (conj reset_to_inv
        (conj consumed_to_inv (conj pause_inv resume_inv)))))).
Qed.
Print Assumptions c03_tpstate_invariant.

(* the assertions of the source: reset_to() is legal exactly without a position, consumed_to() exactly with one *)
Theorem c03_tpstate_assertions : forall t o, tps_inv t ->
  (TpStateGen.reset_to_py t o <> None <-> t_position t = None) /\
  (TpStateGen.consumed_to_py t o <> None <-> t_position t <> None).
Proof. intros t o I. exact (conj (reset_to_defined t o I) (consumed_to_defined t o I)). Qed.
Print Assumptions c03_tpstate_assertions.

(* whenever the consumer model allows a repositioning / pause event, the translated method it stands for does not
   hit its assertion, and the model's pos / paused components are the method's _position / _paused afterwards *)
Theorem c03_model_moves_position_as_source : forall none L strategy s e s' t r,
  tps_inv t -> tp_rel s t -> step none L s e = Some s' -> tp_method strategy e t = Some r ->
  exists t', r = Some t' /\ tps_inv t' /\ tp_rel s' t'.
Proof. exact tp_methods_simulated. Qed.
Print Assumptions c03_model_moves_position_as_source.

Theorem c03_out_of_range_reply_is_await_reset : forall L s o bs s' t strategy,
  tp_rel s t -> opt_eqb (pos s) o = true -> has_buf (buf s) = false ->
  step false L s (FetchResp o OFFSET_OUT_OF_RANGE bs) = Some s' ->
  exists t', TpStateGen.await_reset_py t strategy = Some t' /\ tps_inv t' /\ tp_rel s' t'.
Proof. exact oor_reply_is_await_reset. Qed.
Print Assumptions c03_out_of_range_reply_is_await_reset.
