(* C07 — Transactions are atomic and follow the transactional protocol order.
   Public statements only.  Model: model/C07_Txn.v — producer instances (TransactionManager state
   through the TRANSLATED transition table, pending / registered partitions, pending offsets, the
   sender's single transactional task with its priority, muting, flush_for_commit, batches) composed
   with the environment (transaction coordinator, partition logs with markers, the group's
   transactional offsets as the log of the pseudo partition GROUPP) and the read-committed reader.
   [run s tr = Some s']: the model accepts the event trace tr.  Traces recorded from the real
   producer under the simulator (faults, coordinator moves, kills, replacement instances) are
   replayed by [replay] inside Coq on every run and must be accepted with equal logs, coordinator
   state, read-committed views and outcomes (harness/c07.py).
   [run_ob]: accepted AND every event satisfies the client obligations [ob]
     1 add_before_produce  2 end_after_acks (no failed batch at commit)
     3 no_write_outside_txn  4 end_reaches_coordinator. *)
From Coq Require Import ZArith List Bool Arith.
From Verif Require Import Imp TxnTable C16_TxnApi C07_Txn C07_client C07_env C07_atomic C07_misc C07_order.
From Verif Require DispatchActs TxnInitPidDispatch TxnAddPartitionsDispatch TxnAddOffsetsDispatch
  TxnOffsetCommitDispatch TxnEndDispatch C16_dispatch.
Import ListNotations.
Local Open Scope nat_scope.

(* ===== atomicity, for every environment behaviour of the coordinator model and every fault
   sequence, IF the client obligations hold ===================================================== *)
Theorem c07_atomic : forall n tr s, run_ob (g0 n) tr = Some s ->
  (* (a) what a read-committed reader sees of any partition (the group's offsets included) was
         written by a transaction whose commit returned, or whose EndTxn(commit) was applied by the
         coordinator (outcome still unknown to the application) *)
  (forall i k x p, In ((i, k), x) (rc_view_t (log_of p (glog (genv s)))) -> commit_known s i k) /\
  (* (b) nothing of a transaction whose abort returned is visible *)
  (forall i k acc, In ((i, k), OAborted, acc) (ended s) ->
     forall x p, ~ In ((i, k), x) (rc_view_t (log_of p (glog (genv s))))) /\
  (* (c) nothing of a transaction for which no EndTxn(commit) was applied is visible — open, failed,
         fenced and killed ones included *)
  (forall i c, cl s i = Some c -> csent c = false -> ~ ended_committed s (i, kcur c) ->
     forall x p, ~ In ((i, kcur c), x) (rc_view_t (log_of p (glog (genv s))))) /\
  (* (d) every record and every offset commit of a transaction whose commit returned is visible, or
         becomes visible with the commit markers the coordinator is writing *)
  (forall i k acc, In ((i, k), OCommitted, acc) (ended s) ->
     forall x p, In (x, p) acc -> vop s (i, k) x p) /\
  (* (e) all or nothing while in doubt: once EndTxn(commit) was applied, everything accepted *)
  (forall i c, cl s i = Some c -> csent c = true ->
     forall x p, In (x, p) (accepted c) -> vop s (i, kcur c) x p).
Proof.
  intros n tr s H. split; [|split; [|split; [|split]]].
  - exact (visible_only_if_committed n tr s H).
  - exact (aborted_invisible n tr s H).
  - exact (uncommitted_invisible n tr s H).
  - exact (committed_visible n tr s H).
  - exact (in_doubt_all n tr s H).
Qed.
Print Assumptions c07_atomic.

(* "pending" in (d)/(e) means: the coordinator's marker write is the only thing missing *)
Theorem c07_pending_becomes_visible : forall s tg x p s',
  vop s tg x p -> step s EMarkers = Some s' -> In (tg, x) (rc_view_t (log_of p (glog (genv s')))).
Proof. exact vop_after_markers. Qed.
Print Assumptions c07_pending_becomes_visible.

(* ===== client obligations that hold on EVERY accepted trace ====================================== *)
(* EndTxn is sent only when no batch of the transaction is queued, pending or in flight, no
   partition and no offset entry is waiting; and unless a batch failed, everything the transaction
   accepted has been appended by the brokers by then *)
Theorem c07_end_after_acks : forall n tr s i commit v s',
  run (g0 n) tr = Some s -> step s (REndTxn i commit v) = Some s' ->
  exists c, get s i = Some c /\ queue c = [] /\ inflight c = [] /\ pend_parts c = [] /\ pend_offs c = [] /\
            (lostb c = false -> incl (accepted c) (capp c)).
Proof.
  intros n tr s i commit v s' H S. eapply endtxn_after_acks; eauto.
  eapply run_gcinv; eauto. apply gcinv_g0.
Qed.
Print Assumptions c07_end_after_acks.

(* a batch that a leader appends belongs to the application transaction that is open in its
   producer (state neither READY nor UNINITIALIZED, same transaction index) and carries records
   accepted in that transaction *)
Theorem c07_no_write_outside_txn : forall n tr s i b s',
  run (g0 n) tr = Some s -> step s (RProduce i b VApplied) = Some s' ->
  exists c x, nth_error (clients s) i = Some c /\ bid x = b /\ In x (bq c) /\
              btag x = kcur c /\ cst c <> READY /\ cst c <> UNINIT /\
              (forall y, In y (bitems x) -> In (y, bpart x) (accepted c)) /\
              glog (genv s') = glog (genv s) ++ [(bpart x, Data (cep c) (i, kcur c) (bitems x))].
Proof.
  intros n tr s i b s' H S. eapply produce_in_txn; eauto. eapply run_gcinv; eauto. apply gcinv_g0.
Qed.
Print Assumptions c07_no_write_outside_txn.

(* add_before_produce, at full strength: on EVERY accepted trace, whenever a leader appends a
   transactional batch — or the group coordinator applies a transactional offset commit — the
   transaction coordinator is in Ongoing and has that partition (that group) registered; i.e.
   obligation 1 of [ob] is never broken.  (Proof: muting + the priority rule + the repaired
   error_transaction keep "registered at the client => registered at the coordinator" for the one
   instance that holds the coordinator's epoch; proof/C07_order.v.) *)
Theorem c07_add_before_produce : forall n tr s e s',
  run (g0 n) tr = Some s -> step s e = Some s' -> ob s e <> Some 1.
Proof. exact add_before_produce. Qed.
Print Assumptions c07_add_before_produce.

(* spelled out for a Produce request *)
Corollary c07_add_before_produce_batch : forall n tr s i b s',
  run (g0 n) tr = Some s -> step s (RProduce i b VApplied) = Some s' ->
  exists c x r, nth_error (clients s) i = Some c /\
    take_bid b (inflight c ++ match cst c with FATAL => deadb c | _ => [] end) = Some (x, r) /\
    est (genv s) = EOngoing /\ In (bpart x) (eparts (genv s)).
Proof.
  intros n tr s i b s' R S. pose proof (add_before_produce n tr s _ s' R S) as O.
  unfold step in S. unfold ob in O.
  destruct (nth_error (clients s) i) as [c|]; [|discriminate].
  destruct (take_bid b _) as [[x r]|] eqn:T; [|discriminate].
  exists c, x, r. split; [reflexivity|]. split; [exact T|].
  destruct (is_ongoing (genv s) && memn (bpart x) (eparts (genv s))) eqn:G; [|exfalso; apply O; reflexivity].
  apply andb_prop in G. destruct G as (G1 & G2). split; [apply is_ongoing_true; exact G1 | apply memn_In; exact G2].
Qed.
Print Assumptions c07_add_before_produce_batch.

(* client side of add_before_produce: a batch is handed to a Produce request only for a partition
   that is not waiting for AddPartitionsToTxn (muting) and whose AddPartitionsToTxn was acknowledged
   in this transaction (it is in _txn_partitions) — fatal_error, after which the sender is gone,
   being the only thing that clears the sets *)
Theorem c07_drain_only_registered : forall n tr s i b s',
  run (g0 n) tr = Some s -> step s (SDrain i b) = Some s' ->
  exists c x, get s i = Some c /\ In x (queue c) /\ bid x = b /\
              ~ In (bpart x) (pend_parts c) /\ (cerr c = false -> In (bpart x) (txn_parts c)).
Proof.
  intros n tr s i b s' H S. eapply drain_registered; eauto.
  eapply (run_gpinv tr (g0 n) s); eauto. apply gcinv_g0. apply gpinv_g0.
Qed.
Print Assumptions c07_drain_only_registered.

(* ===== the one obligation the code as it is does NOT guarantee ==================================== *)
(* "the client never breaks an obligation": *)
Definition C07_client_obligations_full : Prop :=
  forall n tr s, run (g0 n) tr = Some s -> first_ob (g0 n) tr 0 = None.
(* "every record of a transaction whose commit returned is visible" on every accepted trace (no
   hypothesis on the client): *)
Definition C07_committed_complete_full : Prop :=
  forall n tr s, run (g0 n) tr = Some s -> est (genv s) <> EPrep true ->
  forall i k acc, In ((i, k), OCommitted, acc) (ended s) ->
  forall x p, In (x, p) acc -> In ((i, k), x) (rc_view_t (log_of p (glog (genv s)))).

(* Both are false of the faithful model.  The witness is a trace of the REAL producer (re-recorded on
   the real code by harness/c07.py on every run; known_findings.d/C07.json): a batch fails
   non-retriably in the Produce response, flush_for_commit() is satisfied by the failed future,
   EndTxn(COMMIT) is sent and commit_transaction() returns — obligation 2 (end_after_acks: "no batch
   of the transaction failed") is broken at event 12 and the committed transaction lacks record 1. *)
Theorem c07_client_obligations_refuted :
  ~ C07_client_obligations_full /\
  first_ob (g0 1) w_commit_without_batch 0 = Some (12, 2).
Proof.
  destruct witness_commit_without_batch as (s & R & _ & _ & F).
  split; [|exact F]. intros H. specialize (H 1 _ s R). rewrite F in H. discriminate.
Qed.
Print Assumptions c07_client_obligations_refuted.

Theorem c07_committed_complete_refuted :
  ~ C07_committed_complete_full /\
  exists s, run (g0 1) w_commit_without_batch = Some s /\
            ended s = [((0, 1), OCommitted, [(1, 0)])] /\
            rc_view_t (log_of 0 (glog (genv s))) = [].
Proof.
  destruct witness_commit_without_batch as (s & R & E & V & _).
  split; [|exists s; auto].
  intros H.
  assert (P : est (genv s) <> EPrep true).
  { intros K. revert K. pattern s. generalize R. vm_compute. intros Q. inversion Q. vm_compute. discriminate. }
  specialize (H 1 _ s R P 0 1 [(1, 0)]). rewrite E in H.
  specialize (H (or_introl eq_refl) 1 0 (or_introl eq_refl)). rewrite V in H. destruct H.
Qed.
Print Assumptions c07_committed_complete_refuted.

(* The paths repaired in the code (an abortable error keeps what is registered, abort ends it at the
   coordinator, the waiting batch is failed instead of produced): the real producer's traces of
   these scenarios now satisfy every obligation, the aborted record stays invisible. *)
Example c07_repaired_traces :
  (exists s, run_ob (g0 1) t_abort_after_abortable_error = Some s /\
             ended_tags s = [((0, 1), OAborted); ((0, 2), OCommitted)] /\
             rc_view_t (log_of 0 (glog (genv s))) = [((0, 2), 2)]) /\
  (exists s, run_ob (g0 1) t_unauthorized_partition = Some s /\
             ended_tags s = [((0, 1), OAborted)] /\ glog (genv s) = []).
Proof. exact repaired_traces_satisfy_obligations. Qed.

(* ===== fencing ==================================================================================== *)
(* a new instance's InitProducerId bumps the epoch; from then on no request of an instance that
   holds an older epoch is ever applied by the coordinator, the group coordinator or a leader *)
Theorem c07_fenced_writes_rejected :
  (forall s s', einit (genv s) = true -> step s EInitOk = Some s' -> eep (genv s') = S (eep (genv s))) /\
  (forall tr s s' i ep, run s tr = Some s' -> started_with s i ep -> ep < eep (genv s) ->
     Forall (fun e => applied_by e <> Some i) tr).
Proof. split; [exact initok_bumps | exact fenced_never_applied]. Qed.
Print Assumptions c07_fenced_writes_rejected.

(* ===== ending under retriable faults (model-level variant) ======================================== *)
(* Full statement: with only retriable faults followed by quiet, every transaction ends the way the
   application requested.  It needs fairness of the event loop and of the environment ("after the
   faults cease each request is eventually applied and answered"), which the trace model does not
   express; the harness checks it on every simulated run with retriable faults only. *)
Definition C07_retriable_eventually_ends_full : Prop :=
  forall n tr s i c, run (g0 n) tr = Some s -> get s i = Some c ->
  cst c = COMMITTING \/ cst c = ABORTING -> cep c = eep (genv s) ->
  exists tr' s' c', run s tr' = Some s' /\ nth_error (clients s') i = Some c' /\ cst c' = READY.

(* Proved: [mu] (partitions and offsets still to register / commit, batches still to acknowledge)
   strictly decreases with every acknowledgement the client receives, a refused or lost request
   (coordinator moved, loading, CONCURRENT_TRANSACTIONS, connection lost, timeout) changes nothing
   but the slot — the same request is picked again —, at measure zero the sender picks EndTxn, and
   its acknowledgement completes the transaction with the requested outcome. *)
Theorem c07_retriable_eventually_ends_partial :
  (forall s i p s' c, step s (CPartAdded i p) = Some s' -> get s i = Some c ->
     exists c', nth_error (clients s') i = Some c' /\ mu c' < mu c) /\
  (forall s i s' c, step s (CGroupAdded i) = Some s' -> get s i = Some c -> grp c = false -> pend_offs c <> [] ->
     exists c', nth_error (clients s') i = Some c' /\ mu c' < mu c) /\
  (forall s i x s' c, step s (COffCommitted i x) = Some s' -> get s i = Some c ->
     exists c', nth_error (clients s') i = Some c' /\ mu c' < mu c) /\
  (forall s i b s' c, step s (SOk i b) = Some s' -> get s i = Some c -> cst c <> FATAL ->
     exists c', nth_error (clients s') i = Some c' /\ mu c' < mu c) /\
  (forall s e s' i c, step s e = Some s' -> get s i = Some c ->
     (exists ps, e = RAddParts i ps VNot) \/ e = RAddOffs i VNot \/ (exists it, e = RToc i it VNot) \/
     (exists cm, e = REndTxn i cm VNot) \/ e = TDone i ->
     exists c', nth_error (clients s') i = Some c' /\ mu c' = mu c /\ cst c' = cst c /\ next_kind c' = next_kind c) /\
  (forall c, cst c = COMMITTING \/ cst c = ABORTING -> pend_parts c = [] -> pend_offs c = [] ->
     next_kind c = Some KEnd) /\
  (forall s i c, get s i = Some c -> cst c = COMMITTING \/ cst c = ABORTING ->
     pend_parts c = [] -> pend_offs c = [] -> queue c = [] -> inflight c = [] ->
     slot c = Some (KEnd, SApplied) ->
     exists s' c', step s (AComplete i) = Some s' /\ nth_error (clients s') i = Some c' /\ cst c' = READY /\
       ended s' = ended s ++ [(tagof i c, match cst c with COMMITTING => OCommitted | _ => OAborted end, accepted c)]).
Proof.
  repeat split.
  - exact mu_part_added.
  - exact mu_group_added.
  - exact mu_off_committed.
  - exact mu_ok.
  - exact mu_not_applied.
  - exact mu_zero_picks_end.
  - exact end_acknowledged_completes.
Qed.
Print Assumptions c07_retriable_eventually_ends_partial.

(* the retriable coordinator conditions of the property's quantifier (coordinator moved or not available,
   COORDINATOR_LOAD_IN_PROGRESS, CONCURRENT_TRANSACTIONS, unknown topic, request timed out) are retried
   after a backoff by every transactional handler - never fatal, never abortable - and a moved coordinator
   is rediscovered.  The chains are regenerated from sender.py on every run (gen/Txn*Dispatch.v). *)
Theorem c07_source_retriable_are_retried :
  (forall c, In c C16_dispatch.retriable_coord ->
     C16_dispatch.tclass_eqb (C16_dispatch.classify (TxnInitPidDispatch.txnInitPidDispatch c)) C16_dispatch.TRetry = true) /\
  (forall c b, In c C16_dispatch.retriable_add_partitions ->
     C16_dispatch.tclass_eqb (C16_dispatch.classify (TxnAddPartitionsDispatch.txnAddPartitionsDispatch c b)) C16_dispatch.TRetry = true) /\
  (forall c, In c C16_dispatch.retriable_coord ->
     C16_dispatch.tclass_eqb (C16_dispatch.classify (TxnAddOffsetsDispatch.txnAddOffsetsDispatch c)) C16_dispatch.TRetry = true) /\
  (forall c, In c C16_dispatch.retriable_offset_commit ->
     C16_dispatch.tclass_eqb (C16_dispatch.classify (TxnOffsetCommitDispatch.txnOffsetCommitDispatch c)) C16_dispatch.TRetry = true) /\
  (forall c, In c C16_dispatch.retriable_coord ->
     C16_dispatch.tclass_eqb (C16_dispatch.classify (TxnEndDispatch.txnEndDispatch c)) C16_dispatch.TRetry = true).
Proof. exact C16_dispatch.retriable_are_retried. Qed.
Print Assumptions c07_source_retriable_are_retried.

Theorem c07_source_moved_coordinator_is_rediscovered : forall c, In c [15; 16]%Z ->
  DispatchActs.has DispatchActs.ACoordinatorDead (TxnInitPidDispatch.txnInitPidDispatch c) = true /\
  (forall b, DispatchActs.has DispatchActs.ACoordinatorDead (TxnAddPartitionsDispatch.txnAddPartitionsDispatch c b) = true) /\
  DispatchActs.has DispatchActs.ACoordinatorDead (TxnAddOffsetsDispatch.txnAddOffsetsDispatch c) = true /\
  DispatchActs.has DispatchActs.ACoordinatorDead (TxnOffsetCommitDispatch.txnOffsetCommitDispatch c) = true /\
  DispatchActs.has DispatchActs.ACoordinatorDead (TxnEndDispatch.txnEndDispatch c) = true.
Proof. exact C16_dispatch.coordinator_errors_rediscover. Qed.
Print Assumptions c07_source_moved_coordinator_is_rediscovered.

(* ===== non-vacuity: a healthy run satisfies the obligations ====================================== *)
(* begin; send(p0); send_offsets; commit — with a lost AddPartitionsToTxn reply and a retried batch *)
Example c07_healthy_run :
  exists s, run_ob (g0 1)
    [EInitOk; AStart 0 0; ABegin 0; AAccept 0 1 0 0 true; TPick 0 (Some KParts); AOffsets 0 [7];
     RAddParts 0 [0] VNot; TDone 0; TPick 0 (Some KParts); RAddParts 0 [0] VApplied; CPartAdded 0 0; TDone 0;
     TPick 0 (Some KOffs); SDrain 0 0; RAddOffs 0 VApplied; CGroupAdded 0; TDone 0; RProduce 0 0 VApplied;
     SRetry 0 0; SDrain 0 0; RProduce 0 0 VNot; SOk 0 0; TPick 0 (Some KToc); RToc 0 [7] VApplied;
     COffCommitted 0 7; TDone 0; ACommitting 0; TPick 0 (Some KEnd); REndTxn 0 true VApplied; AComplete 0;
     TDone 0; EMarkers] = Some s /\
    rc_view (log_of 0 (glog (genv s))) = [1] /\ rc_view (log_of GROUPP (glog (genv s))) = [7] /\
    ended_tags s = [((0, 1), OCommitted)].
Proof. eexists. split; [vm_compute; reflexivity|]. repeat split. Qed.
