(* C07 — placeholder while the model is being tied to the code *)
From Coq Require Import List.
From Verif Require Import C07_Txn.
Theorem c07_placeholder : True. Proof. exact I. Qed.
Print Assumptions c07_placeholder.
