(* C01 — Per-partition produce order; no loss, no duplication under retries.
   Public statements only.  Model: model/Producer.v (per-partition LTS of accumulator +
   sender + sequence stamping, composed with the leader's idempotence rule); the sequence
   increment is the function TRANSLATED from TransactionManager.increment_sequence_number.
   Traces recorded from the real producer under the simulator must be accepted by this model
   (correspondence, harness/c01.py). *)
From Coq Require Import ZArith List Bool.
From Verif Require Import Imp IncrSeq Producer C01_proof C01_nonidem.
Import ListNotations.
Open Scope Z_scope.

(* Idempotent producer, every accepted event sequence (any interleaving of accepts, drains,
   arrivals, lost/failed replies and retries), as long as the sequence counter does not wrap
   within the run: no gap and no reused sequence at the leader; the log is a prefix of the
   accepted records in acceptance order; nothing is appended twice; acknowledged => in log. *)
Theorem c01_idem_log_partial : forall tr s' vs,
  count_accepts tr < 2147483648 ->
  run init0 tr = Some (s', vs) ->
  Forall (fun v => v = Appended \/ v = Duplicate) vs /\
  (exists rest, accepted s' = log_records s' ++ rest) /\
  (NoDup (accepted s') -> NoDup (log_records s')) /\
  incl (acked s') (log_records s').
Proof. exact idem_run_correct. Qed.
Print Assumptions c01_idem_log_partial.

(* same from any established sequence state (ls, lc) of the partition *)
Theorem c01_idem_log_at_partial : forall ls lc tr s' vs,
  0 <= ls -> 0 <= lc ->
  (ls + lc) mod 2147483648 + count_accepts tr < 2147483648 ->
  run (init_at ls lc) tr = Some (s', vs) ->
  Forall (fun v => v = Appended \/ v = Duplicate) vs /\
  (exists rest, accepted s' = log_records s' ++ rest) /\
  incl (acked s') (log_records s').
Proof. exact idem_run_correct_at. Qed.
Print Assumptions c01_idem_log_at_partial.

(* at most one batch of a partition in flight *)
Theorem c01_one_in_flight : forall s s' ov, step s Drain = Some (s', ov) ->
  pend s = None \/ exists p, pend s = Some p /\ ploc p = InQueue.
Proof. exact one_in_flight. Qed.
Print Assumptions c01_one_in_flight.

Theorem c01_retry_keeps_sequence : forall s p s1 s2 o1 o2,
  pend s = Some p -> step s ReplyRetry = Some (s1, o1) -> step s1 Drain = Some (s2, o2) ->
  exists p2, pend s2 = Some p2 /\ pseq p2 = pseq p /\ precs p2 = precs p /\ nseq s2 = nseq s.
Proof. exact retry_keeps_sequence. Qed.
Print Assumptions c01_retry_keeps_sequence.

(* without idempotence: duplicates only as whole re-sent batches, first occurrences in order *)
Theorem c01_nonidem_dups : forall tr s',
  nrun ninit tr = Some s' ->
  (exists ks, length ks = length (ndr s') /\ nlog s' = stut (ndr s') ks) /\
  (exists rest, naccepted s' = concat (ndr s') ++ rest).
Proof. exact nonidem_log. Qed.
Print Assumptions c01_nonidem_dups.

(* the translated increment agrees with Kafka's rule exactly when it does not wrap *)
Theorem c01_incr_matches_kafka_nowrap : forall s n,
  0 <= s -> 0 <= n -> s + n <= 2147483647 -> incr s n = incr_kafka s n.
Proof. exact incr_matches_kafka_nowrap. Qed.
Print Assumptions c01_incr_matches_kafka_nowrap.

Theorem c01_seq_in_range_iff_nowrap : forall s n,
  0 <= s <= 2147483647 -> 0 < n <= 2147483647 ->
  (0 <= incr s n <= 2147483647 <-> s + n <= 2147483647).
Proof. exact incr_in_range_iff_nowrap. Qed.
Print Assumptions c01_seq_in_range_iff_nowrap.

(* The full statement of the wrap-around clause ... *)
Definition C01_seq_wrap_full : Prop :=
  forall s n, 0 <= s <= 2147483647 -> 0 < n <= 2147483647 ->
              0 <= incr s n <= 2147483647 /\ incr s n = incr_kafka s n.
(* ... is false for the code as it is (the function subtracts 2^32 and goes negative, where
   Kafka wraps to 0).  Pinned by tests/test_transaction_manager.py; recorded as a known
   finding (known_findings.json), replayed on the real code by harness/c01.py. *)
Theorem c01_seq_wrap_refuted : ~ C01_seq_wrap_full.
Proof.
  intros H. destruct (H 2147483647 1 ltac:(split; discriminate) ltac:(split; [reflexivity|discriminate])) as ((Hlo & _) & _).
  destruct incr_wrap_negative as (E & _). rewrite E in Hlo. apply Hlo. reflexivity.
Qed.
Print Assumptions c01_seq_wrap_refuted.

(* non-vacuity: a 3-batch trace with a lost reply, a retry and a duplicate is accepted *)
Example c01_trace_accepted :
  exists s' , run init0 [Accept 0 true; Accept 1 false; Drain; Accept 2 true; Arrive; ReplyRetry;
                         Drain; Arrive; ReplyOk; Drain; Arrive; ReplyOk]
              = Some (s', [Appended; Duplicate; Appended]) /\
              log_records s' = [0; 1; 2]%nat /\ acked s' = [0; 1; 2]%nat.
Proof. eexists. vm_compute. repeat split. Qed.
