(* C18 — SCRAM login proves the password and authenticates the server.
   Public statements only; the executable model of aiokafka.conn.ScramAuthenticator is
   model/C18_Scram.v, the proofs are in proof/C18_proof.v.

   Every theorem is universally quantified over the hash primitives
     H (SHA-256/512), HMAC, Hi (PBKDF2-HMAC), b64 / unb64 (base64)
   and uses of them only the hypotheses named in its statement:
     hyp_unb64_b64     forall x, wfb x -> unb64 (b64 x) = Some x
     hyp_b64_alphabet  forall x, every byte of b64 x is in [0-9A-Za-z+/=]
     hyp_hmac_len      all HMAC outputs have one length
     hyp_hmac_wfb      HMAC outputs are bytes (0..255)
   NOT claimed: that a party ignorant of the password cannot produce the expected server
   signature — that is the cryptographic strength of HMAC/PBKDF2, outside this model. *)
From Coq Require Import ZArith String List Bool.
From Verif Require Import Imp C18_Scram C18_proof.
Import ListNotations.
Open Scope Z_scope.

(* 1. client-first is a valid RFC 5802 message for (user, nonce): the RFC parser recovers
   exactly the user name and the nonce; un-escaping inverts the escaping; the escaped name
   contains no raw ',' and every '=' in it begins "=2C" or "=3D".  No hash primitive occurs. *)
Theorem c18_first_wellformed : forall user cnonce,
  user <> [] -> cnonce <> [] -> forallb printable cnonce = true ->
  rfc_parse_client_first (client_first user cnonce)
    = Some (client_first_bare user cnonce, user, cnonce)
  /\ unescape (escape_user user) = Some user
  /\ ~ In 44 (escape_user user)
  /\ eq_escaped (escape_user user).
Proof.
  intros user cnonce Hu Hn Hp.
  exact (conj (first_wellformed user cnonce Hu Hn Hp)
        (conj (unescape_escape user) (conj (escape_no_comma user) (escape_eq_escaped user)))).
Qed.
Print Assumptions c18_first_wellformed.

(* 2. against an honest RFC 5802 server that stores StoredKey for the same password
   (server-first = "r=" cnonce snonce ",s=" b64(salt) ",i=" decimal(i)):
   the client answers with  c=biws,r=<cnonce snonce>,p=<b64 proof>  — the combined nonce and
   the channel-binding of "n,," are repeated —, the server's check
   H(proof xor HMAC(StoredKey, AuthMessage)) = StoredKey  succeeds on the AuthMessage the
   server itself assembles from the three messages it saw, and the client then accepts the
   server's  v=b64(HMAC(ServerKey, AuthMessage))  and completes. *)
Theorem c18_honest_server_accepts :
  forall (H : bytes -> bytes) (HMAC : bytes -> bytes -> bytes) (Hi : bytes -> bytes -> Z -> bytes)
         (b64 : bytes -> bytes) (unb64 : bytes -> option bytes)
         user pw cnonce snonce salt i,
  hyp_unb64_b64 b64 unb64 -> hyp_b64_alphabet b64 -> hyp_hmac_len HMAC -> hyp_hmac_wfb HMAC ->
  forallb printable cnonce = true -> forallb printable snonce = true ->
  wfb salt -> 1 <= i <= 2147483647 ->
  let sf := srv_first b64 cnonce snonce salt i in
  let rn := cnonce ++ snonce in
  let bare := client_first_bare user cnonce in
  let auth := auth_message user cnonce sf rn in
  let cfin := client_final rn (b64 (client_proof H HMAC (Hi pw salt i) auth)) in
  strip_prefix s_gs2 (client_first user cnonce) = Some bare /\
  step2 H HMAC Hi b64 unb64 user pw cnonce sf
    = Ok (cfin, expected_server_sig HMAC Hi pw salt i auth) /\
  srv_verify H HMAC unb64 (srv_stored_key H HMAC Hi pw salt i) bare sf rn cfin = true /\
  session H HMAC Hi b64 unb64 user pw cnonce sf (srv_final HMAC Hi b64 pw salt i auth)
    = [Emit (client_first user cnonce); Emit cfin; Complete].
Proof. exact honest_server_accepts. Qed.
Print Assumptions c18_honest_server_accepts.

(* 3. nonce check.  If the server-first message carries no readable nonce, or one that does
   not start with the client's nonce, the generator raises after client-first and emits no
   client-final message.  (No hypothesis on the primitives.) *)
Theorem c18_nonce_check :
  forall H HMAC Hi b64 unb64 user pw cnonce sf sfinal,
  match server_nonce_of sf with
  | Some rn => is_prefix cnonce rn = false
  | None => True
  end ->
  exists e, session H HMAC Hi b64 unb64 user pw cnonce sf sfinal
            = [Emit (client_first user cnonce); Raised e].
Proof. exact nonce_check. Qed.
Print Assumptions c18_nonce_check.

(* … and conversely a client-final is emitted only when the server nonce is cnonce ++ t *)
Theorem c18_nonce_check_converse :
  forall H HMAC Hi b64 unb64 user pw cnonce sf sfinal m rest,
  session H HMAC Hi b64 unb64 user pw cnonce sf sfinal
    = Emit (client_first user cnonce) :: Emit m :: rest ->
  exists rn t, server_nonce_of sf = Some rn /\ rn = cnonce ++ t.
Proof. exact final_only_if_nonce_extends. Qed.
Print Assumptions c18_nonce_check_converse.

Theorem c18_is_prefix_spec : forall p s, is_prefix p s = true <-> exists t, s = p ++ t.
Proof. exact is_prefix_spec. Qed.
Print Assumptions c18_is_prefix_spec.

(* 4. server authentication.  Whenever the client got as far as sending client-final, the
   login completes IFF the v attribute of server-final decodes to exactly
   HMAC(ServerKey(password, salt, i), AuthMessage) for the salt, iteration count and
   transcript of this very exchange; in every other case the generator raises. *)
Theorem c18_server_auth :
  forall H HMAC Hi b64 unb64 user pw cnonce sf sfinal cfin rest,
  session H HMAC Hi b64 unb64 user pw cnonce sf sfinal
    = Emit (client_first user cnonce) :: Emit cfin :: rest ->
  exists rn stxt salt itxt i attrs,
    parse_attrs sf = Some attrs /\ lookup k_r attrs = Some rn /\
    lookup k_s attrs = Some stxt /\ unb64 stxt = Some salt /\
    lookup k_i attrs = Some itxt /\ py_int itxt = Some i /\
    let expected := expected_server_sig HMAC Hi pw salt i (auth_message user cnonce sf rn) in
    (rest = [Complete] <-> server_sig_of unb64 sfinal = Some expected) /\
    (rest = [Complete] \/ exists e, rest = [Raised e]).
Proof. exact server_auth. Qed.
Print Assumptions c18_server_auth.

(* for a server-final of the canonical form "v=" b64(x): accepted iff x is, bit for bit,
   the expected signature — any tampered bit aborts *)
Theorem c18_server_auth_bits :
  forall (b64 : bytes -> bytes) (unb64 : bytes -> option bytes) sig x,
  hyp_unb64_b64 b64 unb64 -> hyp_b64_alphabet b64 -> wfb x ->
  (step3 unb64 sig ([118; 61] ++ b64 x) = Ok tt <-> x = sig).
Proof. exact (server_final_bits (fun x => x) (fun _ m => m) (fun p _ _ => p)). Qed.
Print Assumptions c18_server_auth_bits.

(* the hypotheses are jointly satisfiable (toy instance in C18_proof.Sat) *)
Example c18_hyps_satisfiable :
  hyp_unb64_b64 Sat.b64 Sat.unb64 /\ hyp_b64_alphabet Sat.b64 /\
  hyp_hmac_len Sat.HMAC /\ hyp_hmac_wfb Sat.HMAC.
Proof. exact (conj Sat.sat_unb64_b64 (conj Sat.sat_b64_alphabet (conj Sat.sat_hmac_len Sat.sat_hmac_wfb))). Qed.

(* escaping order matters: the user "a,b=c" *)
Example c18_escape_example :
  escape_user [97; 44; 98; 61; 99] = [97; 61; 50; 67; 98; 61; 51; 68; 99].
Proof. reflexivity. Qed.
