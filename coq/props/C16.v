(* C16 — Transactional API is a strict state machine with recoverable and fatal errors.
   Public statements only.  Model: model/C16_TxnApi.v — [api : tstate -> call -> fault ->
   tstate * result * list req] written from TransactionManager / AIOKafkaProducer / the sender's
   handlers; every _transition_to goes through [table], the function TRANSLATED from
   TransactionState.is_transition_valid (gen/TxnTable.v), so a change of the table re-checks every
   proof below.  The real producer is run under the simulator on call programs with faults and
   must agree with [replay] call by call (harness/c16.py).
   [wfb s = true]: s is a state the producer can be in between two calls (READY, IN_TRANSACTION,
   ABORTABLE_ERROR carrying a topic/group authorization error, FATAL_ERROR).
   [SendNW p] is send() whose delivery future is not awaited: the next call starts at once with the
   batch still queued; [pending s] says such sends are outstanding.  The application awaits them
   when the next commit / abort / context exit has returned or raised, or right before any other
   call that is not a nowait send ([awaits_first s c]). *)
From Coq Require Import ZArith List Bool.
From Verif Require Import Imp TxnTable C16_TxnApi C16_proof.
From Verif Require DispatchActs TxnInitPidDispatch TxnAddPartitionsDispatch TxnAddOffsetsDispatch
  TxnOffsetCommitDispatch TxnEndDispatch C16_dispatch C16_agree.
Import ListNotations.

(* the table used by the model is the translated function *)
Theorem c16_table_is_translated : forall s t,
  table s t = match TxnTable.py (tcode s) (tcode t) with Ok b => b | Exn _ => false end.
Proof. exact table_is_translated. Qed.
Print Assumptions c16_table_is_translated.

(* ... and that function is pinned to a hand-written table of the transition relation the protocol
   needs (model: [spec_must] / [spec_may], from KIP-98, the Java client's isTransitionValid and the
   order in which aiokafka's sender issues requests): every required transition is allowed — in
   particular into ABORTABLE_ERROR from IN_TRANSACTION, COMMITTING_TRANSACTION and
   ABORTING_TRANSACTION and into FATAL_ERROR from every other state — and nothing is allowed beyond
   these and the catch-all into the two error states (7 x 7 entries). *)
Theorem c16_table_meets_specification : forall s t,
  (spec_must s t = true -> table s t = true) /\ (table s t = true -> spec_may s t = true).
Proof. exact table_meets_spec. Qed.
Print Assumptions c16_table_meets_specification.

(* A call the documented protocol does not allow in the current state raises, changes nothing in
   the producer and emits no request — whatever fault is pending.  (With nowait sends outstanding
   the application awaits them first; that case is part of c16_refines_spec.) *)
Theorem c16_illegal_no_effect : forall s c f,
  wfb s = true -> pallowed (abs (st s)) c = false -> pending s = false ->
  exists e, api s c f = (s, RRaise e, []).
Proof. exact illegal_no_effect. Qed.
Print Assumptions c16_illegal_no_effect.

(* ... and an allowed call never fails with the out-of-order errors (IllegalOperation /
   AssertionError of the transition table). *)
Theorem c16_legal_not_refused : forall s c f,
  wfb s = true -> pallowed (abs (st s)) c = true -> awaits_first s c = false ->
  is_order_error (api_res s c f) = false.
Proof. exact legal_not_order_error. Qed.
Print Assumptions c16_legal_not_refused.

(* From a started producer, with no fault or only faults every handler retries (connection drops,
   COORDINATOR_LOAD_IN_PROGRESS, COORDINATOR_NOT_AVAILABLE, NOT_COORDINATOR): all calls of a program
   return normally  iff  the program is a prefix of
   ( begin (send | nowait send | send_offsets)* (commit | abort | context exit) )*. *)
Theorem c16_accepts_protocol_order : forall cs s0,
  started = Some s0 ->
  forallb (fun cf => benign (snd cf)) cs = true ->
  all_accepted (fst (run s0 cs)) = in_protocol_order false (map fst cs).
Proof. exact accepts_protocol_order. Qed.
Print Assumptions c16_accepts_protocol_order.

(* ... and under the same faults, with no sequence gap at a partition leader, every delivery
   future of a nowait send that is awaited during such a call has succeeded. *)
Theorem c16_nowait_futures_succeed : forall s c f i,
  wfb s = true -> inside_of s = Some i -> benign f = true -> dfa_next i c <> None ->
  futs_ok (api_futs s c f) = true.
Proof. exact nowait_futures_ok. Qed.
Print Assumptions c16_nowait_futures_succeed.

(* Abortable errors.  ABORTABLE_ERROR is entered only by TOPIC_AUTHORIZATION_FAILED (on the
   AddPartitionsToTxn of a send, awaited or not), or GROUP_AUTHORIZATION_FAILED on AddOffsetsToTxn /
   TxnOffsetCommit of send_offsets_to_transaction ... *)
Theorem c16_abortable_cause : forall s c f,
  wfb s = true -> st s <> ABORTABLE -> st (api_st s c f) = ABORTABLE ->
  (exists i, f = Some (i, FErr E29) /\ (pending s = true \/ exists p, c = Send p)) \/
  (exists i, f = Some (i, FErr E30) /\ c = SendOffsets).
Proof. exact abortable_cause. Qed.
Print Assumptions c16_abortable_cause.

(* ... then commit (and a clean context exit) raise exactly that error and send nothing, under any
   pending fault; abort (and the context exit with an exception) succeed and lead to READY; and a
   following begin . send . commit succeeds and ends in READY (for a partition whose leader is not
   missing a sequence range, see [gap0]/[gap1] in the model). *)
Theorem c16_abortable_recovers : forall s c f,
  wfb s = true -> st s <> ABORTABLE -> st (api_st s c f) = ABORTABLE ->
  let s1 := api_st s c f in
  exists e, werr s1 = Some e /\ (e = XCode E29 \/ e = XCode E30) /\
    (forall f', api s1 Commit f' = (s1, RRaise e, [])) /\
    (forall f', api s1 CtxOk f' = (s1, RRaise e, [])) /\
    api_res s1 Abort None = ROk /\ st (api_st s1 Abort None) = READY /\
    api_res s1 CtxExc None = ROk /\ st (api_st s1 CtxExc None) = READY /\
    (gap0 s = false -> all_accepted (fst (run (api_st s1 Abort None) healthy_txn)) = true) /\
    (gap1 s = false -> all_accepted (fst (run (api_st s1 Abort None) healthy_txn1)) = true) /\
    st (snd (run (api_st s1 Abort None) healthy_txn)) = READY.
Proof. exact abortable_recovers. Qed.
Print Assumptions c16_abortable_recovers.

(* The call during which the abortable error arrives fails (for a send: its future, the batch that
   was waiting for the partition is failed and never produced), and the partitions and the group
   already registered with the coordinator are kept ... *)
Theorem c16_abortable_keeps_registered : forall s c f,
  wfb s = true -> st s <> ABORTABLE -> st (api_st s c f) = ABORTABLE ->
  (p0 s = true -> p0 (api_st s c f) = true) /\ (p1 s = true -> p1 (api_st s c f) = true) /\
  (grp s = true -> grp (api_st s c f) = true) /\
  is_error (api_res s c f) = true /\
  (pending s = false -> p0 (api_st s c f) = p0 s /\ p1 (api_st s c f) = p1 s).
Proof. exact abortable_keeps. Qed.
Print Assumptions c16_abortable_keeps_registered.

(* ... so that abort (and the context exit with an exception) sends EndTxn(ABORT) exactly when
   something is registered there. *)
Theorem c16_abort_ends_at_coordinator : forall s,
  wfb s = true -> st s = ABORTABLE ->
  api_req s Abort None = (if is_empty_txn s then [] else [REndTxn false]) /\
  api_req s CtxExc None = (if is_empty_txn s then [] else [REndTxn false]).
Proof. exact abort_sends_endtxn. Qed.
Print Assumptions c16_abort_ends_at_coordinator.

(* The abortable error can arrive while the transaction is being ended: nowait sends to a partition
   the transaction does not have yet ([unregistered s] non-empty), then commit / abort / context exit
   at once — the AddPartitionsToTxn is sent while the manager is COMMITTING / ABORTING.  When it is
   refused with TOPIC_AUTHORIZATION_FAILED the call raises that error, the producer is in
   ABORTABLE_ERROR (so c16_abortable_recovers applies: commit raises it, abort leads to READY and a
   new transaction succeeds), what was registered is kept, the batches waiting for the partition are
   failed with the error and never produced, and no EndTxn is sent. *)
Theorem c16_abortable_while_ending : forall s c,
  wfb s = true -> st s = IN_TXN -> is_end c = true -> is_none (unregistered s) = false ->
  let f29 := Some (I0, FErr E29) in
  st (api_st s c f29) = ABORTABLE /\ api_res s c f29 = RRaise (XCode E29) /\
  werr (api_st s c f29) = Some (XCode E29) /\
  api_req s c f29 = RAddPartitions (unregistered s)
                    :: (if is_none (registered_nw s) then [] else [RProduce (registered_nw s)]) /\
  fut_failed_for (unregistered s) (XCode E29) (api_futs s c f29) = true /\
  p0 (api_st s c f29) = p0 s /\ p1 (api_st s c f29) = p1 s /\ grp (api_st s c f29) = grp s.
Proof. exact ending_error. Qed.
Print Assumptions c16_abortable_while_ending.

(* Fatal errors are absorbing: from FATAL_ERROR every program leaves the state unchanged, emits
   no request, and every call fails — except the context exit with an exception, which lets the
   application's exception propagate. *)
Theorem c16_fatal_absorbing : forall cs s,
  st s = FATAL ->
  snd (run s cs) = s /\
  Forall (fun o => snd o = []) (fst (run s cs)) /\
  Forall2 (fun cf o => is_error (fst o) = true \/ fst cf = CtxExc) cs (fst (run s cs)).
Proof. exact fatal_absorbing_run. Qed.
Print Assumptions c16_fatal_absorbing.

(* The call during which the fatal error happens fails with the stored error (for a send this is
   the pending send future) — or, when the call first awaited outstanding nowait sends, one of those
   futures failed with it and the call itself is refused — and the transaction's partitions and
   group are dropped. *)
Theorem c16_fatal_entry : forall s c f,
  wfb s = true -> st s <> FATAL -> st (api_st s c f) = FATAL ->
  is_error (api_res s c f) = true /\
  (werr (api_st s c f) = exn_of (api_res s c f) \/
   (awaits_first s c = true /\ fut_is (werr (api_st s c f)) (api_futs s c f) = true)) /\
  is_empty_txn (api_st s c f) = true.
Proof. exact fatal_entry. Qed.
Print Assumptions c16_fatal_entry.

(* Refinement: every program run of [api] from a well-formed state is a run of the independent
   7-state automaton of the documented protocol (each allowed call follows one of its documented
   event paths through UNINITIALIZED/READY/IN_TRANSACTION/COMMITTING/ABORTING/ABORTABLE_ERROR/
   FATAL_ERROR with a fitting result — an abortable error may also arrive in COMMITTING / ABORTING;
   each call that is not allowed is refused without effect; with nowait sends outstanding, their
   abortable / fatal error may surface when they are awaited before a call). *)
Theorem c16_refines_spec : forall cs s,
  wfb s = true ->
  spec_run (abs (st s)) (pending s) (observe s cs) (abs (st (snd (run s cs)))) /\
  wfb (snd (run s cs)) = true.
Proof. exact refines_spec. Qed.
Print Assumptions c16_refines_spec.

(* Which errors are fatal.  On every coordinator request (AddPartitionsToTxn, AddOffsetsToTxn,
   TxnOffsetCommit, EndTxn) fencing (INVALID_PRODUCER_EPOCH), TRANSACTIONAL_ID_AUTHORIZATION_FAILED
   and OUT_OF_ORDER_SEQUENCE are fatal, and whenever an awaited API call raises one of these
   exception classes the producer is in FATAL_ERROR ... *)
Theorem c16_fatal_classes_partial :
  (forall k, coord_kind k = true ->
     classify k (FErr E47) = AFatal XProducerFenced /\
     classify k (FErr E53) = AFatal (XCode E53) /\
     classify k (FErr E45) = AFatal (XCode E45)) /\
  (forall s c f e, wfb s = true -> api_res s c f = RRaise e -> fatal_exn e = true ->
     st (api_st s c f) = FATAL).
Proof. split; [exact fatal_classes_coord | exact fatal_raise]. Qed.
Print Assumptions c16_fatal_classes_partial.

(* ... but the full clause of the property — "after a fatal error (fencing, sequence violation,
   transactional-id authorization) every later transactional call and every pending send fails" —
   also covers these errors arriving in a Produce response.  As a statement about the model:
   whenever a call fails with a fatal-class exception the producer is in FATAL_ERROR afterwards. *)
Definition C16_fatal_classes_full : Prop :=
  forall s c f, wfb s = true -> fatal_class_result (api_res s c f) = true ->
                st (api_st s c f) = FATAL.

(* It is false of the code as it is: SendProduceReqHandler.handle_response fails the batch and
   leaves the transaction manager alone.  Witness (replayed on the real producer by
   harness/c16.py, recorded in known_findings.d/C16.json): begin . send(p0) with
   OUT_OF_ORDER_SEQUENCE on the Produce -> the send future fails, the state stays IN_TRANSACTION,
   and the following commit sends EndTxn(commit) and succeeds. *)
Theorem c16_fatal_classes_refuted :
  ~ C16_fatal_classes_full /\
  wfb in_txn_p0 = true /\
  api in_txn_p0 (Send P0) (Some (I1, FErr E45)) =
    (mkT IN_TXN true false false false None true false false false, RFutFail (XCode E45),
     [RAddPartitions (one P0); RProduce (one P0)]) /\
  api (mkT IN_TXN true false false false None true false false false) Commit None =
    (mkT READY false false false false None true false false false, ROk, [REndTxn true]).
Proof. split; [exact fatal_full_refuted | exact fatal_full_witness]. Qed.
Print Assumptions c16_fatal_classes_refuted.

(* ---- the error dispatch of the five transactional response handlers, regenerated from sender.py on
   every run (translator/dispatch2gallina.py, gen/Txn*Dispatch.v) and validated against the real
   handlers for every code -1..100 -------------------------------------------------------------------- *)

(* the per-handler classification this model uses (cl_add_partitions, cl_add_offsets,
   cl_txn_offset_commit, cl_end_txn) is the one the source implements, for every error code of the model:
   same class (retry / abortable / fatal) and same coordinator rediscovery *)
Theorem c16_model_classification_agrees_with_source : forall c : code,
  (forall b, C16_agree.class_of_action (cl_add_partitions c) =
             C16_agree.of_chain (TxnAddPartitionsDispatch.txnAddPartitionsDispatch (code_num c) b)) /\
  C16_agree.class_of_action (cl_add_offsets c) =
    C16_agree.of_chain (TxnAddOffsetsDispatch.txnAddOffsetsDispatch (code_num c)) /\
  C16_agree.class_of_action (cl_txn_offset_commit c) =
    C16_agree.of_chain (TxnOffsetCommitDispatch.txnOffsetCommitDispatch (code_num c)) /\
  C16_agree.class_of_action (cl_end_txn c) =
    C16_agree.of_chain (TxnEndDispatch.txnEndDispatch (code_num c)).
Proof. exact C16_agree.model_agrees_with_source. Qed.
Print Assumptions c16_model_classification_agrees_with_source.

(* fencing and transactional-id authorization are fatal in every handler where they can arrive;
   topic / group authorization failures are abortable (recorded, not raised out of the sender) *)
Theorem c16_source_fatal_and_abortable_classes :
  ((forall b, C16_dispatch.classify (TxnAddPartitionsDispatch.txnAddPartitionsDispatch C16_dispatch.FENCED b) = C16_dispatch.TFatal) /\
   C16_dispatch.classify (TxnAddOffsetsDispatch.txnAddOffsetsDispatch C16_dispatch.FENCED) = C16_dispatch.TFatal /\
   C16_dispatch.classify (TxnOffsetCommitDispatch.txnOffsetCommitDispatch C16_dispatch.FENCED) = C16_dispatch.TFatal /\
   C16_dispatch.classify (TxnEndDispatch.txnEndDispatch C16_dispatch.FENCED) = C16_dispatch.TFatal /\
   C16_dispatch.classify (TxnInitPidDispatch.txnInitPidDispatch C16_dispatch.TXN_ID_AUTH) = C16_dispatch.TFatal /\
   (forall b, C16_dispatch.classify (TxnAddPartitionsDispatch.txnAddPartitionsDispatch C16_dispatch.TXN_ID_AUTH b) = C16_dispatch.TFatal) /\
   C16_dispatch.classify (TxnAddOffsetsDispatch.txnAddOffsetsDispatch C16_dispatch.TXN_ID_AUTH) = C16_dispatch.TFatal /\
   C16_dispatch.classify (TxnOffsetCommitDispatch.txnOffsetCommitDispatch C16_dispatch.TXN_ID_AUTH) = C16_dispatch.TFatal /\
   C16_dispatch.classify (TxnEndDispatch.txnEndDispatch C16_dispatch.TXN_ID_AUTH) = C16_dispatch.TFatal) /\
  ((forall b, C16_dispatch.classify (TxnAddPartitionsDispatch.txnAddPartitionsDispatch C16_dispatch.TOPIC_AUTH b) = C16_dispatch.TAbortable) /\
   C16_dispatch.classify (TxnAddOffsetsDispatch.txnAddOffsetsDispatch C16_dispatch.GROUP_AUTH) = C16_dispatch.TAbortable /\
   C16_dispatch.classify (TxnOffsetCommitDispatch.txnOffsetCommitDispatch C16_dispatch.GROUP_AUTH) = C16_dispatch.TAbortable).
Proof. split; [exact C16_dispatch.fatal_classes | exact C16_dispatch.abortable_classes]. Qed.
Print Assumptions c16_source_fatal_and_abortable_classes.

(* for EVERY integer code: an error code no branch names is fatal in the EndTxn, AddOffsetsToTxn,
   TxnOffsetCommit, AddPartitionsToTxn and InitProducerId handlers - never silently ignored or retried *)
Theorem c16_source_unnamed_codes_are_fatal : forall c,
  (~ In c TxnEndDispatch.txnEndDispatch_named_codes ->
     C16_dispatch.classify (TxnEndDispatch.txnEndDispatch c) = C16_dispatch.TFatal) /\
  (~ In c TxnAddOffsetsDispatch.txnAddOffsetsDispatch_named_codes ->
     C16_dispatch.classify (TxnAddOffsetsDispatch.txnAddOffsetsDispatch c) = C16_dispatch.TFatal) /\
  (~ In c TxnOffsetCommitDispatch.txnOffsetCommitDispatch_named_codes ->
     C16_dispatch.classify (TxnOffsetCommitDispatch.txnOffsetCommitDispatch c) = C16_dispatch.TFatal) /\
  (forall b, ~ In c TxnAddPartitionsDispatch.txnAddPartitionsDispatch_named_codes ->
     C16_dispatch.classify (TxnAddPartitionsDispatch.txnAddPartitionsDispatch c b) = C16_dispatch.TFatal) /\
  (~ In c TxnInitPidDispatch.txnInitPidDispatch_named_codes ->
     C16_dispatch.classify (TxnInitPidDispatch.txnInitPidDispatch c) = C16_dispatch.TFatal).
Proof.
  intros c. repeat split.
  - exact (C16_dispatch.unnamed_codes_fatal_end c).
  - exact (C16_dispatch.unnamed_codes_fatal_add_offsets c).
  - exact (C16_dispatch.unnamed_codes_fatal_offset_commit c).
  - intros b. exact (C16_dispatch.unnamed_codes_fatal_add_partitions c b).
  - exact (C16_dispatch.unnamed_codes_fatal_init c).
Qed.
Print Assumptions c16_source_unnamed_codes_are_fatal.

(* non-vacuity: the started state exists and is well-formed; a full protocol run with an abortable
   error, recovery and a second transaction *)
Example c16_started : exists s0, started = Some s0 /\ wfb s0 = true /\ st s0 = READY.
Proof. exact wf_started. Qed.

Example c16_run_example :
  exists s0, started = Some s0 /\
  map fst (fst (run s0 [(Begin, None); (Send P0, None); (SendOffsets, Some (I0, FErr E30));
                        (Commit, None); (Abort, None); (Begin, None); (Send P1, None); (Commit, None)]))
  = [ROk; ROk; RRaise (XCode E30); RRaise (XCode E30); ROk; ROk; ROk; ROk].
Proof. eexists. split; vm_compute; reflexivity. Qed.

(* the same error arriving while committing: begin . nowait send(p0) . commit with
   TOPIC_AUTHORIZATION_FAILED on the AddPartitionsToTxn . abort . begin . send(p0) . commit *)
Example c16_run_example_nowait :
  exists s0, started = Some s0 /\
  map fst (fst (run s0 [(Begin, None); (SendNW P0, None); (Commit, Some (I0, FErr E29));
                        (Commit, None); (Abort, None); (Begin, None); (Send P0, None); (Commit, None)]))
  = [ROk; ROk; RRaise (XCode E29); RRaise (XCode E29); ROk; ROk; ROk; ROk].
Proof. eexists. split; vm_compute; reflexivity. Qed.
