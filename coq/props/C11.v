(* C11 — API messages encode to the Kafka wire format and negotiate versions safely.
   Public statements only.  Proofs: proof/C11_roundtrip.v (generic codec), proof/C11_negotiate.v
   (Request.prepare, builder guards), proof/C11_tables.v (finite checks over gen/Schemas.v,
   which translator/schema2gallina.py regenerates from the imported aiokafka.protocol classes
   on every run).  Models: model/Wire.v (types.py primitive by primitive), model/KafkaSpec.v
   (independent hand-written Kafka layout table), model/C11Negotiate.v, model/C11Tables.v. *)
From Coq Require Import ZArith List Bool String.
From Verif Require Import PrepareGen C11_prepare_gen.
From Verif Require Import Wire WireTables KafkaSpec C11Negotiate C11Tables WireRun Schemas
                          C11_roundtrip C11_unordered C11_negotiate C11_flat C11_tables.
Import ListNotations.
Open Scope Z_scope.

(* ---------------------------------------------------------------------------------------
   1. Round trip.  For every wire type and every value inside the type's domain [wt]
   (integer extremes, null / empty / 32767-byte strings, null / empty / nested arrays, null
   bytes, varints of every length, tagged fields with contents), decoding the encoding —
   followed by arbitrary further bytes — returns the value and exactly those further bytes.
   [wt] is the set of canonical values; it restricts, and says so: VarInt32 to 0..2^31-1,
   VarInt64 to 0..63 (item 7; no struct uses them), TaggedFields to tags >= 0 listed in
   strictly increasing order (the form decode returns; other orders: c11_roundtrip_unordered). *)
Theorem c11_roundtrip : forall t v r, wt t v = true -> dec t (enc t v ++ r) = Some (v, r).
Proof. exact roundtrip. Qed.
Print Assumptions c11_roundtrip.

(* TaggedFields values are Python dicts; the model carries a dict as its item list in
   iteration order.  For every value whose dicts have distinct tags in 0..2^32-1 in ANY
   order ([wtu]), the encoding is that of the value with each dict sorted by tag ([vnorm],
   the same finite maps), and decoding returns exactly that sorted value. *)
Theorem c11_roundtrip_unordered : forall t v r,
  wtu t v = true -> dec t (enc t v ++ r) = Some (vnorm v, r).
Proof. exact roundtrip_unordered. Qed.
Print Assumptions c11_roundtrip_unordered.

Theorem c11_unordered_normal_form : forall t v,
  wtu t v = true -> enc t (vnorm v) = enc t v /\ wt t (vnorm v) = true.
Proof. exact norm_all. Qed.
Print Assumptions c11_unordered_normal_form.

(* every schema generated from the tree (103 request structs, 103 response structs, headers,
   consumer-protocol / sticky / legacy-message schemas) uses only types whose [wt] is the
   full Kafka range, i.e. neither VarInt32 nor VarInt64 *)
Theorem c11_all_structs_wellformed : forall n t, In (n, t) schemas -> covered t = true.
Proof. exact structs_wellformed. Qed.
Print Assumptions c11_all_structs_wellformed.

Theorem c11_all_structs_roundtrip : forall n t, In (n, t) schemas ->
  forall v r, wt t v = true -> dec t (enc t v ++ r) = Some (v, r).
Proof. exact structs_roundtrip. Qed.
Print Assumptions c11_all_structs_roundtrip.

(* ---------------------------------------------------------------------------------------
   2. Layout.  Full statement: every generated request / response schema puts the same
   bytes on the wire as the hand-written Kafka table entry of its (api key, version), and
   is flexible exactly when Kafka says so. *)
Definition C11_layout_conforms_full : Prop :=
  (forall r, In r requests -> req_layout_ok r = true) /\
  (forall r, In r responses -> resp_layout_ok r = true).

(* Proved: the full statement except for the structs named in
   [known_layout_deviations] (DescribeAclsRequest_v2 / DescribeAclsResponse_v2: v2 is a
   flexible version in Kafka, the tree declares the v1 layout and FLEXIBLE_VERSION = False;
   neither is in a builder's _CLASSES).  Entries of the table whose version KafkaSpec does
   not state count as conforming here; the check reports them as "not covered"
   (currently none). *)
Theorem c11_layout_conforms_partial :
  (forall r, In r requests -> req_layout_ok r = true \/ In (rq_name r) known_layout_deviations) /\
  (forall r, In r responses -> resp_layout_ok r = true \/ In (rs_name r) known_layout_deviations) /\
  (forall e, In e aux_structs -> aux_layout_ok e = true).
Proof. exact (conj layout_requests (conj layout_responses layout_aux)). Qed.
Print Assumptions c11_layout_conforms_partial.

(* [layout_eqb] compares schemas after inlining nested structures ([flat]); that is sound:
   a schema and its inlined form — hence any two schemas with equal inlined forms — produce
   the same bytes for every in-range value ([vflat] is the value seen through the inlining).
   So for every conforming struct the library's bytes are the bytes of the Kafka table
   entry, for all values, not only the sampled ones. *)
Theorem c11_same_layout_same_bytes : forall s t v,
  layout_eqb s t = true -> wt t v = true ->
  enc (TSchema (flat s)) (VTup (vflat t v)) = enc t v.
Proof. exact layout_eq_same_bytes. Qed.
Print Assumptions c11_same_layout_same_bytes.

(* the layout comparison on literal copies of deviating schemas: the recorded
   DescribeAcls v2 request, and ListOffsets v4 as it was before its fix *)
Example c11_layout_deviation_witnesses :
  option_map (layout_eqb witness_DescribeAclsRequest_v2) (spec_request 29 2) = Some false /\
  spec_flexible 29 2 = Some true /\
  option_map (layout_eqb witness_OffsetRequest_v4_before_fix) (spec_request 2 4) = Some false.
Proof. vm_compute. repeat split. Qed.

(* ---------------------------------------------------------------------------------------
   3. Version negotiation (model of Request.prepare). *)
(* for every class list sorted by version and every advertised (min,max): the class built
   has the greatest supported version inside [min,max]; NotImplementedError exactly when no
   supported version is inside; nothing else happens *)
(* tie T: Request.prepare as translated from aiokafka/protocol/api.py on this run (gen/PrepareGen.v: the class used when
   the broker's range is unknown, the iteration order over _CLASSES, the range condition) IS the model function
   `prepare` that the statements below are about, for every version list, flag and advertised range *)
Theorem c11_prepare_is_translated : forall vers allow adv,
  PrepareGen.prepare_py vers allow adv = prepare vers allow adv.
Proof. exact prepare_py_eq. Qed.
Print Assumptions c11_prepare_is_translated.

Theorem c11_prepare_highest : forall vers allow lo hi,
  sorted_lt vers = true ->
  match prepare vers allow (Some (lo, hi)) with
  | Chosen i v => nth_error vers i = Some v /\ lo <= v <= hi /\
                  (forall w, In w vers -> lo <= w <= hi -> w <= v)
  | ErrNotImplemented => forall w, In w vers -> ~ (lo <= w <= hi)
  | _ => False
  end.
Proof. exact prepare_highest. Qed.
Print Assumptions c11_prepare_highest.

(* never a version outside the advertised range, whatever the order of the list *)
Theorem c11_prepare_in_range : forall vers allow lo hi i v,
  prepare vers allow (Some (lo, hi)) = Chosen i v -> nth_error vers i = Some v /\ lo <= v <= hi.
Proof. exact prepare_in_range. Qed.
Print Assumptions c11_prepare_in_range.

(* every generated _CLASSES list is non-empty, strictly ascending in API_VERSION, and made
   of request structs of the builder's own API key *)
Theorem c11_class_lists_sorted : forall b, In b builders -> builder_ok requests b = true.
Proof. exact class_lists_sorted. Qed.
Print Assumptions c11_class_lists_sorted.

Theorem c11_builders_prepare_highest : forall b lo hi, In b builders ->
  match prepare (map snd (bd_classes b)) (bd_allow_unknown b) (Some (lo, hi)) with
  | Chosen i v => nth_error (map snd (bd_classes b)) i = Some v /\ lo <= v <= hi /\
                  (forall w, In w (map snd (bd_classes b)) -> lo <= w <= hi -> w <= v)
  | ErrNotImplemented => forall w, In w (map snd (bd_classes b)) -> ~ (lo <= w <= hi)
  | _ => False
  end.
Proof. exact builders_prepare_highest. Qed.
Print Assumptions c11_builders_prepare_highest.

(* the version a struct puts into the request header is the one its class name declares;
   no two request (response) structs share an (api key, version) *)
Theorem c11_struct_versions :
  (forall r, In r requests -> rq_name_ver r = rq_ver r /\ 0 <= rq_ver r) /\
  (forall r, In r responses -> rs_name_ver r = rs_ver r /\ 0 <= rs_ver r) /\
  nodup_zz (map (fun r => (rq_key r, rq_ver r)) requests) = true /\
  nodup_zz (map (fun r => (rs_key r, rs_ver r)) responses) = true.
Proof. exact (conj names_requests (conj names_responses versions_unique)). Qed.
Print Assumptions c11_struct_versions.

(* ---------------------------------------------------------------------------------------
   4. Reply pairing.  For every request struct: RESPONSE_TYPE has the same api key and a
   schema equal to the schema of the response struct of the request's own version (so a
   RESPONSE_TYPE of another version is allowed only when the two layouts are identical:
   ApiVersionRequest_v2 -> ApiVersionResponse_v1); build_request_header /
   parse_response_header use the flexible header classes exactly when FLEXIBLE_VERSION, and
   the request and response schemas are flexible (compact encodings, trailing tagged-field
   buffer) exactly then. *)
Theorem c11_reply_pairing : forall r, In r requests -> pairing_ok responses r = true.
Proof. exact pairing. Qed.
Print Assumptions c11_reply_pairing.

(* ---------------------------------------------------------------------------------------
   5. Meaning guards (model of the builders' build()). *)
(* a parameter named by the property that the negotiated version cannot express is
   rejected with IncompatibleBrokerVersion, for every version and every combination of
   the other parameters *)
Theorem c11_meaning_guard : forall key ver present p,
  0 <= ver -> listed p = true -> applies key p = true -> present p = true ->
  expressible key ver p = false ->
  guard key ver present = false.
Proof. exact meaning_guard. Qed.
Print Assumptions c11_meaning_guard.

(* conversely a guard never fires without such a parameter *)
Theorem c11_guard_not_spurious : forall key ver present,
  guard key ver present = false ->
  exists p, applies key p = true /\ present p = true /\ expressible key ver p = false.
Proof. exact guard_not_spurious. Qed.
Print Assumptions c11_guard_not_spurious.

(* prepare followed by build: whenever a struct comes out, every listed parameter that is
   present is expressible in the struct's version *)
Theorem c11_negotiate_guarded : forall key vers allow adv present i v p,
  negotiate key vers allow adv present = Chosen i v -> 0 <= v ->
  listed p = true -> applies key p = true -> present p = true ->
  expressible key v p = true.
Proof. exact negotiate_guarded. Qed.
Print Assumptions c11_negotiate_guarded.

(* Extended statement over *all* builder parameters (not only the ones the property lists):
   false of the model — allow_auto_topic_creation=False (Metadata < v4), group_instance_id
   (JoinGroup < v5, SyncGroup < v3), rack_id (Fetch < v11, documented in fetch.py) and the
   ACL pattern type (v0) are dropped without an error.  Reported as observations. *)
Definition C11_meaning_guard_all_params_full : Prop := forall key ver present p,
  0 <= ver -> applies key p = true -> present p = true -> expressible key ver p = false ->
  guard key ver present = false.

Theorem c11_meaning_guard_all_params_refuted : ~ C11_meaning_guard_all_params_full.
Proof.
  intros H. specialize (H 3 1 (only PNoAutoTopicCreation) PNoAutoTopicCreation).
  vm_compute in H. assert (true = false) by (apply H; congruence). discriminate.
Qed.
Print Assumptions c11_meaning_guard_all_params_refuted.

Theorem c11_unlisted_params_dropped :
  (applies 3 PNoAutoTopicCreation = true /\ expressible 3 1 PNoAutoTopicCreation = false /\
   guard 3 1 (only PNoAutoTopicCreation) = true) /\
  (applies 11 PGroupInstanceId = true /\ expressible 11 2 PGroupInstanceId = false /\
   guard 11 2 (only PGroupInstanceId) = true) /\
  (applies 14 PGroupInstanceId = true /\ expressible 14 1 PGroupInstanceId = false /\
   guard 14 1 (only PGroupInstanceId) = true) /\
  (applies 1 PRackId = true /\ expressible 1 10 PRackId = false /\ guard 1 10 (only PRackId) = true) /\
  (applies 29 PPatternType = true /\ expressible 29 0 PPatternType = false /\
   guard 29 0 (only PPatternType) = true).
Proof. exact unlisted_params_dropped. Qed.
Print Assumptions c11_unlisted_params_dropped.

(* the hand-written "expressible from version N" table agrees with KafkaSpec: the field
   that carries the parameter appears in the specified request layout exactly from N on *)
Example c11_expressible_agrees_with_spec : expressible_agrees_with_spec = true.
Proof. exact expressible_agrees. Qed.

(* ---------------------------------------------------------------------------------------
   7. Outside the quantifier: VarInt32 / VarInt64 (used by no struct, item 1) do not round
   trip on ordinary int32 / int64 values — the faithful model reproduces what the real
   encoders do (replayed on the real code by harness/c11.py). *)
Theorem c11_varint32_refuted :
  wt TInt32 (VInt (-1)) = true /\
  dec TVarInt32 (enc TVarInt32 (VInt (-1))) = Some (VInt (-2147483648), []).
Proof. exact varint32_refuted. Qed.
Print Assumptions c11_varint32_refuted.

Theorem c11_varint64_refuted :
  wt TInt64 (VInt 300) = true /\
  dec TVarInt64 (enc TVarInt64 (VInt 300)) = Some (VInt 278, []).
Proof. exact varint64_refuted. Qed.
Print Assumptions c11_varint64_refuted.

(* ---------------------------------------------------------------------------------------
   Non-vacuity. *)
Example c11_wt_satisfiable :
  wt s_ProduceRequest_v3
     (VTup [VStr (Some [116; 120]); VInt (-1); VInt 2147483647;
            VArr (Some [VTup [VStr (Some [195; 169]); VArr (Some [VTup [VInt 0; VBytes None]])]])]) = true /\
  wt s_DeleteRecordsRequest_v2
     (VTup [VArr (Some [VTup [VStr (Some [116]); VArr (Some [VTup [VInt 1; VInt (-1); VTagged [(1, [7; 7])]]]);
                              VTagged []]]);
            VInt 30000; VTagged [(2, []); (4294967295, [0])]]) = true.
Proof. vm_compute. split; reflexivity. Qed.

Example c11_wtu_satisfiable :
  wt TTagged (VTagged [(0, [120]); (7, [])]) = true /\
  wt TTagged (VTagged [(2, [97]); (1, [98])]) = false /\
  wtu TTagged (VTagged [(2, [97]); (1, [98])]) = true /\
  enc TTagged (VTagged [(2, [97]); (1, [98])]) = [2; 1; 1; 98; 2; 1; 97] /\
  vnorm (VTagged [(2, [97]); (1, [98])]) = VTagged [(1, [98]); (2, [97])].
Proof. vm_compute. repeat split. Qed.

Example c11_prepare_examples :
  prepare [0; 1; 2; 5] false (Some (3, 9)) = Chosen 3 5 /\
  prepare [0; 1; 2; 5] false (Some (3, 4)) = ErrNotImplemented /\
  prepare [0; 1; 2; 5] false (Some (0, 4)) = Chosen 2 2 /\
  prepare [0; 1; 2] true None = Chosen 0 0 /\
  prepare [0; 1; 2] false None = ErrIncompatible.
Proof. vm_compute. repeat split. Qed.

Example c11_guard_examples :
  guard 0 2 (only PTransactionalId) = false /\ guard 0 3 (only PTransactionalId) = true /\
  guard 2 0 (only PTimestampSearch) = false /\ guard 2 1 (only PTimestampSearch) = true /\
  guard 1 3 (only PIsolationLevel) = false /\ guard 1 4 (only PIsolationLevel) = true.
Proof. vm_compute. repeat split. Qed.
