(* C17 — Keyed records choose the same partition as the Java client.
   Public statements only; proofs are in proof/C17_proof.v, the Python side (Murmur2.py,
   Partitioner.py) is regenerated from /repo/aiokafka/partitioner.py on every run. *)
From Coq Require Import ZArith List Bool.
From Verif Require Import Imp Murmur2 Partitioner Murmur2Java C17_arith C17_proof.
Import ListNotations.
Open Scope Z_scope.

(* murmur2(key), bit for bit the (unsigned representative of the) Java value, for every
   byte string a Java array can hold *)
Theorem c17_murmur_eq_java : forall data,
  wfb data -> zlen data < 2147483648 ->
  Murmur2.py data = Ok (u32 (murmur2_java (map to_signed_byte data))).
Proof. exact murmur2_eq_java. Qed.
Print Assumptions c17_murmur_eq_java.

(* a keyed record goes to index toPositive(murmur2(key)) % numPartitions of the sorted
   partition list — the right-hand side mentions neither `avail` nor the random pick *)
Theorem c17_partition_index : forall key all avail pick,
  wfb key -> zlen key < 2147483648 -> all <> [] ->
  Partitioner.py (Some key) all avail pick =
  Ok (nth (Z.to_nat (java_partition (map to_signed_byte key) (zlen all))) all 0).
Proof. exact partition_keyed. Qed.
Print Assumptions c17_partition_index.

(* ... and when that list is sorted by partition id (0..n-1; checked end to end on the real
   producer with shuffled Metadata replies) the partition ID itself is Java's value *)
Theorem c17_partition_id : forall key n avail pick,
  wfb key -> zlen key < 2147483648 -> (0 < n)%nat ->
  Partitioner.py (Some key) (map Z.of_nat (seq 0 n)) avail pick =
  Ok (java_partition (map to_signed_byte key) (Z.of_nat n)).
Proof. exact partition_id_sorted. Qed.
Print Assumptions c17_partition_id.

(* an unkeyed record goes to an available partition whenever one is available, for every
   value of the random choice *)
Theorem c17_unkeyed_available : forall all avail pick,
  avail <> [] -> exists v, Partitioner.py None all avail pick = Ok v /\ In v avail.
Proof. exact partition_unkeyed_available. Qed.
Print Assumptions c17_unkeyed_available.

Theorem c17_unkeyed_fallback : forall all pick,
  all <> [] -> exists v, Partitioner.py None all [] pick = Ok v /\ In v all.
Proof. exact partition_unkeyed_fallback. Qed.
Print Assumptions c17_unkeyed_fallback.

(* The Java transcription reproduces the six outputs of the real Java client that the
   repository pins in tests/test_partitioner.py (1000 partitions). *)
Example c17_java_literals :
  map (fun k => java_partition (map to_signed_byte k) 1000)
      [ []; [97]; [97; 98]; [97; 98; 99]; [49; 50; 51; 52; 53; 54; 55; 56; 57]; [0; 32] ]
  = [681; 524; 434; 107; 566; 742].
Proof. vm_compute. reflexivity. Qed.

(* non-vacuity: a non-trivial key meets the hypotheses *)
Example c17_hyps_satisfiable : wfb [0; 255; 128; 7; 200] /\ zlen [0; 255; 128; 7; 200] < 2147483648.
Proof. split; [repeat constructor; unfold wfbyte; cbv; intuition congruence | reflexivity]. Qed.
