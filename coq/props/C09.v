(* C09 — Record batches round-trip and both codec implementations agree.
   Public statements only.  Models: coq/model/C09_*.v (hand-written from default_records.py/.pyx,
   legacy_records.py/.pyx, memory_records.py/.pyx, cutil.pyx; tied to both implementations by the
   correspondence of harness/c09.py on every run); VarintEnc / VarintSize / VarintDec are
   regenerated from aiokafka/record/util.py on every run (tie T).  Proofs: coq/proof/C09_*.v.
   [impl] = Py | Cy selects the pure-Python or the compiled behaviour where they differ. *)
From Coq Require Import ZArith List Bool Lia.
From Verif Require Import Imp C09Bytes C09_Crc C09_Varint C09_RecordV2 C09_Legacy C09_MemRecords
  C09_Valid VarintEnc VarintSize VarintDec C09_varint C09_split C09_v2 C09_legacy C09_varint_cy C09_legacy_wrapper C09_oversize.
Import ListNotations.
Open Scope Z_scope.

(* ---- varints (translated Python functions) ------------------------------------------------- *)
(* decode (prefix ++ encode v ++ rest) at the prefix's end = (v, position after the encoding),
   for every int64 v *)
Theorem c09_varint_roundtrip : forall v pre rest, int64 v ->
  VarintDec.py (pre ++ VarintEnc.post v ++ rest) (blen pre)
  = Ok (v, blen pre + blen (VarintEnc.post v)).
Proof. intros v pre rest H. rewrite enc_py_spec by exact H. apply dec_py_spec. exact H. Qed.
Print Assumptions c09_varint_roundtrip.

(* size_of_varint v = number of bytes encode_varint writes, between 1 and 10 *)
Theorem c09_varint_size : forall v, int64 v ->
  VarintSize.py v = Ok (blen (VarintEnc.post v)) /\ 1 <= blen (VarintEnc.post v) <= 10.
Proof.
  intros v H. rewrite enc_py_spec by exact H. split.
  - rewrite size_py_spec by exact H. f_equal. apply varint_size_len.
  - apply varint_enc_len_bounds. exact H.
Qed.
Print Assumptions c09_varint_size.

(* the translated encoder is the zig-zag / base-128 specification used by the record models *)
Theorem c09_varint_enc_is_spec : forall v, int64 v -> VarintEnc.post v = varint_enc v.
Proof. exact enc_py_spec. Qed.
Print Assumptions c09_varint_enc_is_spec.

(* the compiled versions (model of cutil.pyx, uint64 arithmetic) agree with the Python ones *)
Theorem c09_varint_impls_agree : forall v, int64 v ->
  cy_encode_varint64 v = VarintEnc.post v
  /\ Ok (cy_size_of_varint64 v) = VarintSize.py v
  /\ forall rest, cy_decode_varint64 (cy_encode_varint64 v ++ rest) = Some (v, rest).
Proof. exact cy_varint_agree. Qed.
Print Assumptions c09_varint_impls_agree.

(* Outside the property (the value is used nowhere): encode_varint_py RETURNS the number of
   bytes written only for encodings of up to 5 bytes; its general loop returns one less. *)
Theorem c09_note_encode_return_value : forall v, int64 v -> zigzag v <= 34359738367 ->
  VarintEnc.py v = Ok (blen (VarintEnc.post v)).
Proof. intros v H Hs. rewrite enc_py_spec by exact H. apply enc_py_returns; assumption. Qed.
Print Assumptions c09_note_encode_return_value.
Example c09_note_encode_return_value_long :
  VarintEnc.py 9223372036854775807 = Ok 9 /\ blen (VarintEnc.post 9223372036854775807) = 10.
Proof. split; vm_compute; reflexivity. Qed.

(* boundaries of the encoded length (63/64, 8191/8192, ...) *)
Example c09_varint_boundaries :
  map (fun v => blen (varint_enc v)) [63; 64; -64; -65; 8191; 8192; 1048575; 1048576; 2147483647;
       2147483648; 9223372036854775807; -9223372036854775808]
  = [1; 2; 1; 2; 2; 3; 3; 4; 5; 5; 10; 10].
Proof. vm_compute. reflexivity. Qed.

(* ---- v2 batches ------------------------------------------------------------------------------ *)
(* For every codec pair with decompress (compress x) = Some x, both implementations, every valid
   configuration, every sequence of append() calls with valid records (null/empty keys and values,
   any headers incl. null values, any non-negative timestamps in any order, any batch_size — the
   refused appends simply do not appear), and every broker stamping (base offset, leader epoch,
   optional LogAppendTime, control bit): reading the stamped batch yields exactly the accepted
   records with offset = base + offset, timestamp = own (CreateTime) or the log-append time. *)
Theorem c09_v2_roundtrip :
  forall (compress : Z -> bytes -> bytes) (decompress : Z -> bytes -> option bytes),
  (forall c x, decompress c (compress c x) = Some x) ->
  forall i c s rs,
    valid_cfg c -> valid_stamp s -> Forall valid_rec rs -> Z.of_nat (List.length rs) < TWO31 ->
    let st := fst (appends i c b_init rs) in
    let ms := snd (appends i c b_init rs) in
    blen (build compress i c st) < TWO31 ->
    exists h, read_batch decompress (stamp s (build compress i c st))
              = Some (h, map (expect s) (accepted rs ms)).
Proof. exact v2_roundtrip. Qed.
Print Assumptions c09_v2_roundtrip.

(* The produced bytes: at least the 61-byte header; Length field (bytes 8..12) = total - 12;
   base offset 0, leader epoch -1, magic 2; CRC field = CRC-32C of everything from the attributes
   field (byte 21) to the end; attributes as configured; last offset delta, first / max timestamp,
   producer id / epoch / base sequence, record count of the accepted records; payload = the framed
   records (or their compression). *)
Theorem c09_v2_wellformed :
  forall (compress : Z -> bytes -> bytes) i c rs,
    valid_cfg c -> Forall valid_rec rs -> Z.of_nat (List.length rs) < TWO31 ->
    let st := fst (appends i c b_init rs) in
    let acc := accepted rs (snd (appends i c b_init rs)) in
    let b := build compress i c st in
    blen b < TWO31 ->
    let use := uses_codec compress i c (region_of acc) in
    let payload := if use then compress (c_codec c) (region_of acc) else region_of acc in
    61 <= blen b /\ signed_be (slice 8 12 b) = blen b - 12 /\
    read_header b =
      Some (mkH 0 (blen b - 12) (-1) 2 (crc32c (skipn 21 b)) (attributes c use) (last_off acc)
                (hdr_first i acc) (hdr_max i acc) (c_pid c) (c_pepoch c) (c_bseq c)
                (Z.of_nat (List.length acc)), payload)
    /\ validate_crc b = true.
Proof. exact v2_wellformed. Qed.
Print Assumptions c09_v2_wellformed.

(* attribute bits: codec (0 when sent uncompressed), transactional as configured, timestamp-type
   and control bits clear *)
Theorem c09_v2_attribute_bits : forall c use, valid_cfg c ->
  let a := attributes c use in
  Z.land a CODEC_MASK = (if use then c_codec c else 0)
  /\ (Z.land a TXN_MASK =? 0) = negb (c_txn c)
  /\ Z.land a TS_TYPE_MASK = 0 /\ Z.land a CONTROL_MASK = 0 /\ 0 <= a < 32.
Proof. exact v2_attribute_bits. Qed.
Print Assumptions c09_v2_attribute_bits.

(* ---- legacy (v0 / v1) ------------------------------------------------------------------------- *)
(* uncompressed: the builder's output splits into one message per accepted record, each message
   reads back (either reader) as that record with its CRC-32 *)
Theorem c09_legacy_roundtrip : forall i c rs,
  valid_lcfg c -> lc_codec c = 0 -> Forall valid_lrec rs ->
  let buf := fst (lappends c [] rs) in
  let acc := laccepted rs (snd (lappends c [] rs)) in
  lbuild no_compress c buf = Some buf
  /\ split i buf = (map (fun r => (lc_magic c, lmsg_of c r)) acc, Some [])
  /\ Forall (fun r => lread no_decompress i (lc_magic c) (lmsg_of c r) = Some [lexpect c r]
                      /\ lvalidate_crc (lmsg_of c r) = true) acc.
Proof. exact legacy_roundtrip. Qed.
Print Assumptions c09_legacy_roundtrip.

(* compressed wrapper, after the broker assigned the wrapper's offset (that of the last inner
   message for magic 1) and optionally LogAppendTime: the inner records come back with absolute
   offsets / the wrapper's timestamp *)
Theorem c09_legacy_wrapper_roundtrip :
  forall (compress : Z -> bytes -> bytes) (decompress : Z -> bytes -> option bytes),
  (forall c x, decompress c (compress c x) = Some x) ->
  forall i c rs woff lat,
    valid_lcfg c -> 1 <= lc_codec c <= 3 -> ~ (lc_codec c = 3 /\ lc_magic c = 0) ->
    Forall valid_lrec rs ->
    let buf := fst (lappends c [] rs) in
    let acc := laccepted rs (snd (lappends c [] rs)) in
    acc <> [] -> blen buf < TWO31 -> blen (compress (lc_codec c) buf) < TWO31 - 64 ->
    valid_wstamp acc woff lat ->
    exists w, lbuild compress c buf = Some w
      /\ lread decompress i (lc_magic c) (lstamp woff lat w)
         = Some (map (lexpect_wrapped c acc woff lat) acc).
Proof. exact legacy_wrapper_roundtrip. Qed.
Print Assumptions c09_legacy_wrapper_roundtrip.

(* legacy builder: append() refused exactly when offset != 0 and bytes-so-far + message >=
   batch_size; an accepted append adds exactly the message; metadata = its CRC / size / timestamp *)
Theorem c09_legacy_size_accounting : forall c buf r, valid_lcfg c ->
  let after := blen buf + blen (lmsg_of c r) in
  let refuse := negb (r_offset r =? 0) && (lc_batch_size c <=? after) in
  lappend c buf r =
    (if refuse then buf else buf ++ lmsg_of c r,
     if refuse then None
     else Some (mkLMeta (r_offset r) (lmsg_crc c r) (blen (lmsg_of c r)) (lmsg_ts c r))).
Proof. exact legacy_size_accounting. Qed.
Print Assumptions c09_legacy_size_accounting.

(* ---- MemoryRecords ---------------------------------------------------------------------------- *)
(* any concatenation of well-formed batches (each with its own magic byte, any mix) followed by an
   admissible partial tail splits into exactly those batches, each tagged with ITS OWN magic, the
   tail left alone — for the Python and for the compiled splitter *)
Theorem c09_split_concat : forall i bs partial,
  Forall wf_batch bs -> partial_ok partial ->
  split i (concat bs ++ partial) = (map (tag i) bs, Some partial).
Proof. exact split_concat. Qed.
Print Assumptions c09_split_concat.

(* a proper prefix of a well-formed batch is an admissible tail; built v2 batches are
   well-formed for the splitter (c09_v2_wellformed gives the two conditions) *)
Theorem c09_prefix_is_partial : forall b k,
  wf_batch b -> 0 <= k < blen b -> partial_ok (firstn (Z.to_nat k) b).
Proof. exact prefix_partial_ok. Qed.
Print Assumptions c09_prefix_is_partial.

(* the splitter of the ORIGINAL tree (magic read at byte 16 of the whole buffer) does not have
   this property: a v2 batch followed by a v1 message *)
Theorem c09_split_fixed_offset_refuted : exists bs,
  Forall wf_batch bs /\ split_fixed (concat bs ++ []) <> (map (tag Cy) bs, Some []).
Proof. exact split_fixed_refuted. Qed.
Print Assumptions c09_split_fixed_offset_refuted.

(* ---- size accounting --------------------------------------------------------------------------- *)
(* after any sequence of append() calls: the results (None = refused, else offset / size /
   timestamp) are those of [run_spec] — refusal exactly when the implementation's limit predicate
   holds of the size the uncompressed batch would reach, metadata size = bytes the record
   occupies; size() = 61 + bytes of the accepted records = length of the uncompressed build *)
Theorem c09_size_accounting :
  forall (compress : Z -> bytes -> bytes) i c rs, Forall valid_rec rs ->
    let st := fst (appends i c b_init rs) in
    let ms := snd (appends i c b_init rs) in
    let acc := accepted rs ms in
    ms = fst (run_spec i c [] rs)
    /\ size i st = HEADER_SIZE + blen (region_of acc)
    /\ (0 <= c_codec c <= 4 -> uses_codec compress i c (region_of acc) = false ->
        blen (build compress i c st) = size i st).
Proof. exact v2_size_accounting. Qed.
Print Assumptions c09_size_accounting.

(* size_in_bytes() (the precomputation API of both builders) = bytes an append would add *)
Theorem c09_size_in_bytes : forall delta off r,
  size_of_body delta off r = blen (enc_body delta off r).
Proof. exact size_of_body_len. Qed.
Print Assumptions c09_size_in_bytes.

(* an uncompressed batch larger than batch_size holds a single record (Python predicate; for
   the compiled predicate: every accepted record after the first has offset 0 or left room) *)
Theorem c09_oversize_only_single : forall c rs, Forall valid_rec rs ->
  let st := fst (appends Py c b_init rs) in
  let acc := accepted rs (snd (appends Py c b_init rs)) in
  c_batch_size c < size Py st -> (List.length acc <= 1)%nat.
Proof. exact py_oversize_single. Qed.
Print Assumptions c09_oversize_only_single.

Theorem c09_oversize_only_single_compiled : forall c r0 rs, Forall valid_rec (r0 :: rs) ->
  Forall (fun r => r_offset r <> 0) rs ->
  let st := fst (appends Cy c b_init (r0 :: rs)) in
  let acc := accepted (r0 :: rs) (snd (appends Cy c b_init (r0 :: rs))) in
  c_batch_size c <= size Cy st -> (List.length acc <= 1)%nat.
Proof. exact cy_oversize_single. Qed.
Print Assumptions c09_oversize_only_single_compiled.

(* ---- CRC ---------------------------------------------------------------------------------------- *)
Example c09_crc32c_check_value : crc32c [49; 50; 51; 52; 53; 54; 55; 56; 57] = 3808858755.  (* 0xE3069283 *)
Proof. vm_compute. reflexivity. Qed.
Example c09_crc32_check_value : crc32 [49; 50; 51; 52; 53; 54; 55; 56; 57] = 3421780262.    (* 0xCBF43926 *)
Proof. vm_compute. reflexivity. Qed.
Example c09_crc_tables_from_polynomials : table_c = mk_table POLY_C /\ table_ieee = mk_table POLY_IEEE.
Proof. split; vm_compute; reflexivity. Qed.

(* ---- the hypotheses are satisfiable -------------------------------------------------------------- *)
Example c09_hyps_satisfiable :
  valid_cfg (mkCfg 2 1 true 9223372036854775807 32767 2147483647 16384)
  /\ valid_stamp (mkStamp 4611686018427387904 7 (Some 1600000000000) true)
  /\ Forall valid_rec [mkRec 0 1000 (Some [107]) None [([195; 169], None)];
                       mkRec 1 0 None (Some []) []; mkRec 2 9223372036854775807 (Some []) (Some [1; 2]) []].
Proof.
  unfold valid_cfg, valid_stamp, valid_rec, int64, int32, int16, INT64_MIN, INT64_MAX, TWO31.
  cbn. repeat split; try (intro; discriminate); try constructor; cbn; repeat split; try lia;
    try (intro; discriminate); try constructor; cbn; repeat split; try lia; try (intro; discriminate);
    try constructor; cbn; repeat split; try lia; try (intro; discriminate); constructor.
Qed.
