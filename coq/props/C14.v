(* C14 — Assignors give each subscribed partition exactly one subscribed owner, balanced.
   Public statements only.  Models: model/C14_Assignors.v (range, round-robin, vocabulary),
   model/C14_Sticky.v (checkers, StickyAbs, StickyCtl).  Proofs: proof/C14_*.v.

   Vocabulary (model/C14_Assignors.v):
     ppt : list (topic * option nat)      the cluster stub (None / absent = no metadata)
     ms  : list (member * list topic)     the members mapping in dict order
     triples_of out                       all (owner, (topic, partition)) facts of a result
     valid ppt ms tr    :=  NoDup (map snd tr)                                   (at most one owner, counting multiplicity)
                         /\ every (m, x) in tr: m subscribed to x's topic, x exists
                         /\ every existing partition of a topic somebody subscribes to has an owner in tr
   Hypotheses: ids_nodup ms (member ids are dict keys), subs_nodup ms (a subscription lists a
   topic once — what the property's "every non-empty subscription" ranges over). *)
From Coq Require Import Arith List Bool ZArith.
From Verif Require Import C14_Assignors C14_Sticky C14_lists C14_range C14_rr C14_checkers
  C14_sticky C14_balance.
From Verif Require Import C14_Run C14_Circle C14_circle.
Import ListNotations.

(* ============================================================ range *)
Theorem c14_range_valid : forall ppt ms, ids_nodup ms -> subs_nodup ms ->
  valid ppt ms (triples_of (range_assign ppt ms)).
Proof. exact range_valid. Qed.
Print Assumptions c14_range_valid.

(* per topic with metadata: the i-th subscriber in id order holds exactly the contiguous
   slice seq (start i) (len i) with n/k <= len i <= n/k + 1 *)
Theorem c14_range_balanced : forall ppt ms t n, ids_nodup ms -> subs_nodup ms ->
  lookup_parts ppt t = Some n ->
  let tr := triples_of (range_assign ppt ms) in
  let k := length (consumers_for_topic ms t) in
  (forall m, subscribed ms m t ->
     exists i, i < k /\ nth i (consumers_for_topic ms t) 0 = m /\
               load_topic tr m t = seq (range_start n k i) (range_len n k i) /\
               n / k <= range_len n k i <= n / k + 1)
  /\ (forall m1 m2, subscribed ms m1 t -> subscribed ms m2 t ->
        length (load_topic tr m1 t) <= length (load_topic tr m2 t) + 1).
Proof.
  intros ppt ms t n Hi Hs L tr k. split.
  - exact (range_balanced ppt ms t n Hi Hs L).
  - exact (range_within_one_per_topic ppt ms t n Hi Hs L).
Qed.
Print Assumptions c14_range_balanced.

(* ============================================================ round-robin *)
(* the skip loop (`while topic not in subscription: next(member_iter)`) never exhausts one
   full turn of the cycle: the model never returns its out-of-fuel value *)
Theorem c14_rr_terminates : forall ppt ms, ids_nodup ms -> roundrobin_assign ppt ms <> None.
Proof.
  intros ppt ms H. unfold roundrobin_assign.
  pose proof (rr_terminates ppt ms H). destruct (rr_triples ppt ms); congruence.
Qed.
Print Assumptions c14_rr_terminates.

Theorem c14_rr_valid : forall ppt ms out, ids_nodup ms ->
  roundrobin_assign ppt ms = Some out -> valid ppt ms (triples_of out).
Proof. exact rr_valid. Qed.
Print Assumptions c14_rr_valid.

Theorem c14_rr_balanced : forall ppt ms out, ids_nodup ms -> identical_subs ms ->
  roundrobin_assign ppt ms = Some out -> within_one ms (triples_of out).
Proof. exact rr_balanced. Qed.
Print Assumptions c14_rr_balanced.

(* ============================================================ checkers *)
Theorem c14_checkers_sound_complete : forall ppt ms tr, ids_nodup ms ->
  (valid_b ppt ms tr = true <-> valid ppt ms tr) /\
  (within_one_b ms tr = true <-> within_one ms tr) /\
  (kip54_balanced_b ms tr = true <-> kip54_balanced ms tr).
Proof.
  intros ppt ms tr Hi. split; [|split].
  - apply valid_b_spec; auto.
  - apply within_one_b_spec.
  - apply kip54_balanced_b_spec; auto.
Qed.
Print Assumptions c14_checkers_sound_complete.

(* ============================================================ sticky: validity *)
(* (a) StickyAbs.  From any state with one owner per partition (what
   _init_current_assignments builds), after the Drop every state reached by any sequence of
   Assign / Snap / Move / Revert steps has one owner per partition, a potential consumer
   (member, subscribed to the topic, partition exists). *)
Theorem c14_sticky_abs_sound : forall ppt ms st0 ops st sn,
  NoDup (map snd st0) ->
  abs_run ppt ms (st0, None) (ADrop :: ops) = Some (st, sn) -> sound ppt ms st.
Proof. exact abs_run_sound. Qed.
Print Assumptions c14_sticky_abs_sound.

(* (b) Assign / Snap / Move / Revert never un-own an assignable partition (also not the
   snapshot that Revert restores); the assign loop of balance(), handed every assignable
   partition that is not owned yet, leaves none unowned and is a sequence of accepted Assign
   steps. *)
Theorem c14_sticky_assign_phase_complete : forall ppt ms xs st, ids_nodup ms ->
  (forall x, assignable ppt ms x -> (exists m, In (m, x) st) \/ In x xs) ->
  complete ppt ms (assign_loop ppt ms st xs)
  /\ exists l, ctl_assigns ppt ms st l = Some (assign_loop ppt ms st xs).
Proof.
  intros. split; [apply assign_loop_complete; auto | apply assign_loop_is_ctl].
Qed.
Print Assumptions c14_sticky_assign_phase_complete.

Theorem c14_sticky_abs_complete_preserved : forall ppt ms ops s s', Forall no_drop ops ->
  abs_cinv ppt ms s -> abs_run ppt ms s ops = Some s' -> abs_cinv ppt ms s'.
Proof. exact abs_run_cinv. Qed.
Print Assumptions c14_sticky_abs_complete_preserved.

(* (c) StickyCtl — the op log of the real executor with every guard re-checked — is a
   StickyAbs run ending in the returned state ... *)
Theorem c14_sticky_ctl_refines_abs : forall ppt ms prev st0 assigns reassigns obs r,
  NoDup (map snd st0) ->
  ctl_run ppt ms prev st0 assigns reassigns obs = Some r ->
  abs_run ppt ms (st0, None) (ctl_aops assigns reassigns (cr_reverted r))
  = Some (cr_final r, Some (cr_prebalance r)).
Proof. exact ctl_run_is_abs_run. Qed.
Print Assumptions c14_sticky_ctl_refines_abs.

(* ... and its result (as well as the prebalance copy and the pre-revert state) is a valid
   assignment — for any user data: [prev] (the lower-generation claimants) is arbitrary.
   Before /repo c41f241 this needed the hypothesis that every such claimant is a potential
   consumer of the partition it claims, and was refuted without it (a stale claimant that no
   longer subscribed got the partition back, or assign() raised KeyError). *)
Theorem c14_sticky_valid : forall ppt ms prev st0 assigns reassigns obs r,
  ids_nodup ms -> NoDup (map snd st0) ->
  ctl_run ppt ms prev st0 assigns reassigns obs = Some r ->
  valid ppt ms (cr_final r) /\ valid ppt ms (cr_prebalance r) /\ valid ppt ms (cr_balanced r).
Proof. exact ctl_run_valid. Qed.
Print Assumptions c14_sticky_valid.

(* Regression (corpus/C14/stale_claimant.json): the two op logs that the code before
   c41f241 produced on the stale-claimant inputs — t0-0 moved "back" to C1, which is not
   subscribed to t0; the balanced state discarded in favour of the unbalanced copy — are
   rejected by the skeleton. *)
Example c14_stale_claimant_logs_rejected :
  (let claims := [(0, 2%Z, [(0, 0); (0, 1); (0, 2)]); (1, 1%Z, [(0, 0)]); (2, (-1)%Z, [])] in
   ctl_run [(0, Some 3); (1, Some 1)] [(0, [0]); (1, [1]); (2, [0; 1])]
           (snd (init_current claims)) (fst (init_current claims))
           [((1, 0), 1)] [(((0, 0), 1), (0, 0)); (((0, 1), 2), (0, 1))] false = None)
  /\
  (let claims := [(0, 2%Z, [(0, 0)]); (1, 1%Z, [(0, 0)]); (2, 2%Z, [(0, 1); (0, 2); (0, 3)]);
                  (3, (-1)%Z, [])] in
   ctl_run [(0, Some 4); (1, Some 0)] [(0, [0]); (1, [1]); (2, [0]); (3, [0])]
           (snd (init_current claims)) (fst (init_current claims))
           [] [(((0, 1), 3), (0, 1))] true = None).
Proof. vm_compute. auto. Qed.

(* ============================================================ sticky: balance *)
(* Full statement: the returned assignment is always KIP-54 balanced. *)
Definition C14_sticky_balanced_full : Prop :=
  forall ppt ms prev st0 assigns reassigns obs r,
    ids_nodup ms -> NoDup (map snd st0) ->
    ctl_run ppt ms prev st0 assigns reassigns obs = Some r -> kip54_balanced ms (cr_final r).

(* Proved part: the state in which the reassignment loop stops is KIP-54 balanced (exit via
   `_is_balanced()` or via a pass without a trigger), hence so is the result whenever the
   prebalance copy is not restored.  Missing: that `balance()` never restores an unbalanced
   prebalance copy (the score comparison is not shown to imply it).  Neither the exhaustive
   bounded enumeration nor the random search (with adversarial user data) finds an input where
   the real code returns an unbalanced assignment.  (Before c41f241 it did: the score of the
   balanced state could count a phantom empty entry for a stale claimant.) *)
Theorem c14_sticky_balanced_partial : forall ppt ms prev st0 assigns reassigns obs r,
  ids_nodup ms -> NoDup (map snd st0) ->
  ctl_run ppt ms prev st0 assigns reassigns obs = Some r ->
  kip54_balanced ms (cr_balanced r) /\
  (cr_reverted r = false -> kip54_balanced ms (cr_final r)).
Proof. exact ctl_run_balanced. Qed.
Print Assumptions c14_sticky_balanced_partial.

(* ============================================================ non-vacuity *)
Example c14_examples :
  range_assign [(0, Some 3); (1, Some 3)] [(0, [0; 1]); (1, [0; 1])]
    = [(0, [(0, [0; 1]); (1, [0; 1])]); (1, [(0, [2]); (1, [2])])]
  /\ roundrobin_assign [(0, Some 3); (1, Some 3)] [(0, [0; 1]); (1, [0; 1])]
    = Some [(0, [(0, [0; 2]); (1, [1])]); (1, [(0, [1]); (1, [0; 2])])]
  /\ roundrobin_assign [(0, Some 1); (1, Some 2); (2, Some 3)] [(0, [0]); (1, [0; 1]); (2, [0; 1; 2])]
    = Some [(0, [(0, [0])]); (1, [(1, [0])]); (2, [(1, [1]); (2, [0; 1; 2])])].
Proof. vm_compute. auto. Qed.

(* subs_nodup is needed: the code (and the model) lose partition 0 when C0 lists t0 twice *)
Example c14_range_subs_nodup_needed :
  let ppt := [(0, Some 3)] in let ms := [(0, [0; 0]); (1, [0])] in
  range_assign ppt ms = [(0, [(0, [1])]); (1, [(0, [2])])]
  /\ valid_b ppt ms (triples_of (range_assign ppt ms)) = false.
Proof. vm_compute. auto. Qed.

(* an accepted sticky log with a Move and the hypotheses of c14_sticky_valid *)
Example c14_sticky_hyps_satisfiable :
  exists r, ctl_run [(0, Some 1); (1, Some 5)] [(0, [1]); (1, [1]); (2, [1])] []
              [(0, (1, 2)); (0, (1, 3)); (0, (1, 4)); (1, (1, 0)); (1, (1, 1))] []
              [(((1, 4), 2), (1, 4))] false = Some r
            /\ cr_reverted r = false.
Proof. eexists. split; [vm_compute; reflexivity | reflexivity]. Qed.


(* ============================================================ sticky: passes that go round in a circle *)
(* Since /repo 0d5eafa the balancing loop has a third exit: the assignment at the end of a pass was seen before
   (before that commit such runs never ended).  These runs are judged by [ctl_run_circle] (model/C14_Circle.v): the
   same enabled moves, neither proper exit at the end, the final ownership reached before.  They still return a valid
   assignment ... *)
Theorem c14_sticky_circle_valid : forall ppt ms prev st0 assigns reassigns obs r,
  ids_nodup ms -> NoDup (map snd st0) ->
  ctl_run_circle ppt ms prev st0 assigns reassigns obs = Some r ->
  valid ppt ms (cr_final r) /\ valid ppt ms (cr_prebalance r) /\ valid ppt ms (cr_balanced r).
Proof. exact ctl_run_circle_valid. Qed.
Print Assumptions c14_sticky_circle_valid.

(* ... and are no runs of [ctl_run], so c14_sticky_balanced_partial does not speak about them ... *)
Theorem c14_sticky_circle_is_not_a_proper_exit : forall ppt ms prev st0 assigns reassigns obs r,
  ctl_run_circle ppt ms prev st0 assigns reassigns obs = Some r ->
  ctl_run ppt ms prev st0 assigns reassigns obs = None.
Proof. exact ctl_run_circle_not_ctl_run. Qed.
Print Assumptions c14_sticky_circle_is_not_a_proper_exit.

(* ... rightly: the balance clause fails for them.  The op log the real assignor records on the first input of
   corpus/C14/pingpong.json (an ordinary rebalance: C9 owns a previous generation, C0, C2 and C11 join, different
   subscriptions) is accepted as a circle run, equals what assign() returned, is valid, and is NOT KIP-54 balanced
   (known finding K5; the check replays this on the real code in every run). *)
Example c14_sticky_circle_unbalanced :
  run_sticky_circle [6; 0; 4; 1; 8; 2; 8; 3; 4; 4; 8; 5; 2; 4; 0; 3; 2; 0; 1; 2; 3; 0; 4; 5; 9; 3; 2; 0; 3; 11; 1; 2; 4; 0; 0; 0; 2; 0; 0; 9; 2; 11; 0; 0; 0; 2; 2; 0; 2; 2; 2; 3; 2; 4; 2; 5; 2; 6; 3; 0; 3; 1; 3; 2; 11; 0; 0; 11; 9; 0; 0; 9; 0; 2; 9; 2; 0; 9; 2; 2; 9; 2; 3; 9; 2; 4; 9; 2; 5; 9; 2; 6; 9; 3; 0; 9; 3; 1; 9; 3; 2; 0; 17; 1; 0; 0; 1; 1; 0; 1; 2; 0; 1; 3; 0; 1; 4; 0; 1; 5; 0; 1; 6; 0; 4; 0; 2; 4; 1; 2; 4; 2; 2; 4; 3; 2; 4; 4; 2; 4; 5; 2; 4; 6; 2; 5; 0; 2; 0; 1; 0; 2; 1; 11; 11; 0; 0; 0; 0; 0; 0; 2; 2; 0; 2; 2; 0; 11; 2; 0; 2; 2; 11; 2; 2; 2; 3; 11; 2; 3; 2; 4; 11; 2; 4; 0; 0; 9; 0; 0; 0; 1; 9; 0; 1; 0; 2; 0; 0; 1; 0; 1; 9; 0; 1; 0; 2; 0; 0; 1; 0; 28; 9; 2; 5; 9; 2; 6; 9; 3; 0; 9; 3; 1; 9; 3; 2; 9; 0; 0; 0; 1; 0; 0; 1; 1; 0; 1; 2; 0; 1; 3; 0; 1; 4; 0; 1; 5; 0; 1; 6; 0; 0; 1; 2; 4; 0; 2; 4; 1; 2; 4; 2; 2; 4; 3; 2; 4; 4; 2; 4; 5; 2; 4; 6; 2; 5; 0; 2; 0; 2; 11; 2; 1; 11; 2; 0; 11; 2; 2; 11; 2; 3; 11; 2; 4]%nat = [1; 1; 1; 0]%nat.
Proof. vm_compute. reflexivity. Qed.
