(* C14 — Assignors give each subscribed partition exactly one subscribed owner, balanced.
   Public statements only; models in model/C14_Assignors.v, model/C14_Sticky.v; proofs in
   proof/C14_*.v. *)
From Coq Require Import Arith List Bool.
From Verif Require Import C14_Assignors C14_lists C14_range C14_rr.
Import ListNotations.

(* ids_nodup: member ids are dict keys; subs_nodup: a subscription lists a topic once *)

Theorem c14_range_valid : forall ppt ms, ids_nodup ms -> subs_nodup ms ->
  valid ppt ms (triples_of (range_assign ppt ms)).
Proof. exact range_valid. Qed.
Print Assumptions c14_range_valid.

Theorem c14_rr_terminates : forall ppt ms, ids_nodup ms -> roundrobin_assign ppt ms <> None.
Proof.
  intros ppt ms H. unfold roundrobin_assign.
  pose proof (rr_terminates ppt ms H). destruct (rr_triples ppt ms); congruence.
Qed.
Print Assumptions c14_rr_terminates.

Theorem c14_rr_valid : forall ppt ms out, ids_nodup ms ->
  roundrobin_assign ppt ms = Some out -> valid ppt ms (triples_of out).
Proof. exact rr_valid. Qed.
Print Assumptions c14_rr_valid.
