(* C05 — Within a generation partitions have one owner; revoked partitions go silent.
   Public statements only.  Model: model/Group.v (coordinator barrier || member life cycle with
   the delivery gate, ghost clock).  Boundary traces of real consumer groups under the simulator
   must be accepted by the model (harness/c05.py). *)
From Coq Require Import List Bool Arith.
From Verif Require Import Group C05_proof.
Import ListNotations.

(* what a member adopts (and reports through assignment()) is exactly the entry SyncGroup
   distributed to it for that generation *)
Theorem c05_adopted_is_distributed : forall s m g a s',
  step s (AssignBegin m g a) = Some s' ->
  exists r d, find_gen g (hist s) = Some r /\ g_dist r = Some d /\
              a = match lookup m d with Some l => l | None => [] end /\
              owned (get s' m) = a /\
              (ph (get s m) = PJoined g \/
               (* a re-sent JoinGroup answered with the still current generation the member belongs to *)
               (ph (get s m) = PJoining /\ g = latest_gen s /\ In m (g_members r))).
Proof. exact adopted_is_distributed. Qed.
Print Assumptions c05_adopted_is_distributed.

(* given a pairwise disjoint distribution (what C14 proves of the assignors), the assignments
   two different members adopt in that generation are disjoint *)
Theorem c05_disjoint : forall d m1 m2 p,
  disjoint_b d = true -> NoDup (map fst d) -> m1 <> m2 ->
  In p (match lookup m1 d with Some l => l | None => [] end) ->
  ~ In p (match lookup m2 d with Some l => l | None => [] end).
Proof. exact adopted_disjoint. Qed.
Print Assumptions c05_disjoint.

(* nothing is handed out between the start of on_partitions_revoked and the adoption of the next
   assignment (which on_partitions_assigned then reports), and what is handed out belongs to the
   adopted assignment: a delivery is possible only in phase PStable or PAssigning *)
Theorem c05_silent_after_revoke : forall tr s m p s',
  run init tr = Some s -> step s (Deliver m p) = Some s' ->
  in_rebalance (ph (get s m)) = false /\ gate (get s m) = false /\ In p (owned (get s m)).
Proof. exact silent_during_rebalance. Qed.
Print Assumptions c05_silent_after_revoke.

(* barrier: every member of generation g finished on_partitions_revoked (clock recorded in the
   generation record) before the JoinGroup barrier of g completed, which is before any member's
   on_partitions_assigned for g started *)
Theorem c05_barrier : forall tr s g m' t,
  run init tr = Some s -> In (g, m', t) (assign_log s) ->
  exists r, find_gen g (hist s) = Some r /\ g_jc r < t /\
            forall m tr_end, In (m, tr_end) (g_rev r) -> tr_end < g_jc r.
Proof. exact barrier. Qed.
Print Assumptions c05_barrier.

(* non-vacuity: a two-member rebalance is accepted, and a delivery inside the revoke window is not *)
Example c05_trace_accepted :
  replay [RevokeBegin 0; RevokeEnd 0; JoinSent 0; JoinComplete 1 [0]; SyncComplete 1 [(0, [0; 1])];
          AssignBegin 0 1 [0; 1]; AssignEnd 0; Deliver 0 1;
          RevokeBegin 1; RevokeEnd 1; JoinSent 1; RevokeBegin 0; RevokeEnd 0; JoinSent 0;
          JoinComplete 2 [0; 1]; SyncComplete 2 [(0, [0]); (1, [1])];
          AssignBegin 1 2 [1]; AssignBegin 0 2 [0]; AssignEnd 0; AssignEnd 1; Deliver 1 1; Deliver 0 0] = 0.
Proof. reflexivity. Qed.
Example c05_delivery_in_window_rejected :
  replay [RevokeBegin 0; RevokeEnd 0; JoinSent 0; JoinComplete 1 [0]; SyncComplete 1 [(0, [0])];
          AssignBegin 0 1 [0]; AssignEnd 0; RevokeBegin 0; Deliver 0 0] = 9.
Proof. reflexivity. Qed.
