(* C19 — stop() always terminates and leaves nothing running.
   Public statements.  Model: model/Shutdown.v — the retry loop of the final offset commit and
   the await points of stop() with an environment oracle.  The theorem is about the skeleton's
   termination and time bound; that no task, timer or connection of the client survives, that
   later API calls fail and that LeaveGroup is sent are runtime facts decided by the simulator
   monitor on the live objects at every explored stopping point (partial, see DESIGN.md). *)
From Coq Require Import List Bool Arith.
From Verif Require Import Shutdown C19_proof.
Import ListNotations.

(* while closing, the final commit makes exactly one attempt whatever the coordinator answers *)
Theorem c19_last_commit_one_attempt : forall outs, outs <> [] ->
  fst (commit_loop true outs) = 1 /\ snd (commit_loop true outs) <> CFuel.
Proof. exact commit_one_attempt_when_closing. Qed.
Print Assumptions c19_last_commit_one_attempt.

(* the loop as it was before the fix (closing ignored) exhausts every all-retriable oracle: the
   hang that the simulator reproduced (corpus/C19/stop_hang_lost_reply.json) *)
Theorem c19_commit_loop_unbounded_if_closing_ignored : forall outs,
  Forall (fun x => x = ARetriable) outs -> snd (commit_loop false outs) = CFuel.
Proof. exact commit_loop_unbounded_if_not_closing. Qed.
Print Assumptions c19_commit_loop_unbounded_if_closing_ignored.

(* every path of stop() whose awaits are each bounded by the request timeout T (a pending rejoin
   counts two requests) returns within 4*T, for every oracle *)
Theorem c19_stop_terminates_partial : forall T p, bounded T p = true -> stop_time p <= 4 * T.
Proof. exact stop_bounded. Qed.
Print Assumptions c19_stop_terminates_partial.

Example c19_path_example :
  stop_time (PathFull (Some 3) (Some [(ARetriable, 2); (AOk, 2)]) (Some 1)) = 6.
Proof. reflexivity. Qed.
