(* C19 — stop() always terminates and leaves nothing running.
   Public statements.  Model: model/Shutdown.v — the retry loop of the final offset commit and
   the await points of stop() with an environment oracle.  The theorem is about the skeleton's
   termination and time bound; that no task, timer or connection of the client survives, that
   later API calls fail and that LeaveGroup is sent are runtime facts decided by the simulator
   monitor on the live objects at every explored stopping point (partial, see DESIGN.md). *)
From Coq Require Import List Bool Arith.
From Verif Require Import Shutdown C19_proof C19_Tasks C19_tasks_proof CloseShapes C19_close_proof.
Import ListNotations.

(* while closing, the final commit makes exactly one attempt whatever the coordinator answers *)
Theorem c19_last_commit_one_attempt : forall outs, outs <> [] ->
  fst (commit_loop true outs) = 1 /\ snd (commit_loop true outs) <> CFuel.
Proof. exact commit_one_attempt_when_closing. Qed.
Print Assumptions c19_last_commit_one_attempt.

(* the loop as it was before the fix (closing ignored) exhausts every all-retriable oracle: the
   hang that the simulator reproduced (corpus/C19/stop_hang_lost_reply.json) *)
Theorem c19_commit_loop_unbounded_if_closing_ignored : forall outs,
  Forall (fun x => x = ARetriable) outs -> snd (commit_loop false outs) = CFuel.
Proof. exact commit_loop_unbounded_if_not_closing. Qed.
Print Assumptions c19_commit_loop_unbounded_if_closing_ignored.

(* every path of stop() whose awaits are each bounded by the request timeout T (a pending rejoin
   counts two requests) returns within 4*T, for every oracle *)
Theorem c19_stop_terminates_partial : forall T p, bounded T p = true -> stop_time p <= 4 * T.
Proof. exact stop_bounded. Qed.
Print Assumptions c19_stop_terminates_partial.

Example c19_path_example :
  stop_time (PathFull (Some 3) (Some [(ARetriable, 2); (AOk, 2)]) (Some 1)) = 6.
Proof. reflexivity. Qed.

(* ---- the shutdown paths as translated from /repo's source on every run (gen/CloseShapes.v) -------------
   Task calculus: model/C19_Tasks.v.  [slots] = the background routines with their await points classified by
   what a cancellation delivered there leads to, [consumer_group_stop] etc. = the sequence of joins that stop()
   performs, both regenerated from the source text by translator/close2gallina.py. *)

(* the static condition on one join is sufficient: a procedure all of whose steps satisfy it runs to its end
   from every environment of the state space - no CancelledError or task exception escapes, no join hangs *)
Theorem c19_safe_joins_complete : forall slots env prog,
  prog_safe slots prog = true -> env_ok slots env = true -> run slots env prog = Completed.
Proof. exact safe_completes. Qed.
Print Assumptions c19_safe_joins_complete.

(* ... and necessary for a cancel-and-join step: when it fails, some task state inside the state space stops
   the procedure at that step *)
Theorem c19_unsafe_join_has_failing_state : forall slots t g st,
  t < length slots -> step_safe slots (CancelAwait t g st) = false ->
  exists s, state_ok (nth t slots default_slot) s = true /\
            exec_step slots (env_with (length slots) t [s]) (CancelAwait t g st) <> Continue /\
            env_ok slots (env_with (length slots) t [s]) = true.
Proof. exact unsafe_cancel_await_has_witness. Qed.
Print Assumptions c19_unsafe_join_has_failing_state.

(* the code as it is: every stop() path reaches its last step (the client's connections are closed) whatever
   each background task is doing - not started, suspended at any of its await points, finished, failed with a
   broker error - when stop() is called *)
Theorem c19_consumer_group_stop_completes : forall env,
  env_ok CloseShapes.slots env = true -> run CloseShapes.slots env CloseShapes.consumer_group_stop = Completed.
Proof. exact consumer_group_completes. Qed.
Print Assumptions c19_consumer_group_stop_completes.

Theorem c19_consumer_nogroup_stop_completes : forall env,
  env_ok CloseShapes.slots env = true -> run CloseShapes.slots env CloseShapes.consumer_nogroup_stop = Completed.
Proof. exact consumer_nogroup_completes. Qed.
Print Assumptions c19_consumer_nogroup_stop_completes.

Theorem c19_producer_stop_completes : forall env,
  env_ok CloseShapes.slots env = true -> run CloseShapes.slots env CloseShapes.producer_stop = Completed.
Proof. exact producer_completes. Qed.
Print Assumptions c19_producer_stop_completes.

(* the translated procedures join every background task of their client (the statements above are not about
   empty programs) and the state space is inhabited by non-trivial environments *)
Theorem c19_stop_joins_every_task :
  forallb (fun t => existsb (Nat.eqb t) (joins CloseShapes.consumer_group_stop)) [0; 1; 2; 4; 5; 6; 7] = true /\
  forallb (fun t => existsb (Nat.eqb t) (joins CloseShapes.consumer_nogroup_stop)) [3; 4; 5; 6; 7] = true /\
  forallb (fun t => existsb (Nat.eqb t) (joins CloseShapes.producer_stop)) [7; 8] = true.
Proof. exact (conj consumer_group_joins_all (conj consumer_nogroup_joins_all producer_joins_all)). Qed.
Print Assumptions c19_stop_joins_every_task.

Example c19_state_space_inhabited :
  env_ok CloseShapes.slots env_example = true /\ env_ok CloseShapes.slots env_example_failed = true.
Proof. exact (conj env_example_ok env_example_failed_ok). Qed.

(* full statement: also after an internal error of the client (a routine ended by its "Unexpected error" path) *)
Definition C19_stop_completes_after_internal_error_full : Prop := forall env,
  env_ok CloseShapes.slots_crash env = true ->
  run CloseShapes.slots_crash env CloseShapes.consumer_group_stop = Completed /\
  run CloseShapes.slots_crash env CloseShapes.consumer_nogroup_stop = Completed.

(* refuted for the code as it is: Fetcher.close() joins the fetch routine without a done() guard and absorbs
   only the cancellation, so a fetch routine that has crashed makes stop() raise before the client is closed *)
Theorem c19_stop_after_internal_error_refuted :
  env_ok CloseShapes.slots_crash env_fetch_crashed = true /\
  run CloseShapes.slots_crash env_fetch_crashed CloseShapes.consumer_nogroup_stop = Escaped 1 /\
  run CloseShapes.slots_crash env_fetch_crashed CloseShapes.consumer_group_stop = Escaped 4.
Proof. exact consumer_crash_refuted. Qed.
Print Assumptions c19_stop_after_internal_error_refuted.

(* the shapes repaired in /repo (F34; F9 and F39; F41) are unsafe in the calculus *)
Theorem c19_bare_join_of_unstarted_task_escapes : forall r t g,
  exec_member r (CancelAwait t g SBare) TUnstarted = Escape.
Proof. exact bare_join_of_unstarted_escapes. Qed.
Print Assumptions c19_bare_join_of_unstarted_task_escapes.

Theorem c19_bare_join_at_unprotected_await_escapes : forall r t g i fails,
  nth_error (r_points r) i = Some PCancelled ->
  exec_member r (CancelAwait t g SBare) (TParked i fails) = Escape.
Proof. exact bare_join_at_unprotected_point_escapes. Qed.
Print Assumptions c19_bare_join_at_unprotected_await_escapes.

Theorem c19_join_of_swallowed_cancellation_hangs : forall r t g st i fails,
  nth_error (r_points r) i = Some PSwallow ->
  exec_member r (CancelAwait t g st) (TParked i fails) = Hang.
Proof. exact join_of_swallowing_point_hangs. Qed.
Print Assumptions c19_join_of_swallowed_cancellation_hangs.

(* "leaves nothing running", at the level of the calculus: a procedure that has completed has left no task of a slot
   it joins running - each has ended normally, cancelled, or with its exception (general statement, then the three
   translated procedures; with c19_stop_joins_every_task: every background task of the client) *)
Theorem c19_completed_leaves_joined_tasks_ended : forall slots env prog,
  run slots env prog = Completed ->
  forall stp t, In stp prog -> step_slot stp = Some t ->
    forallb (fun s => ended (task_after (s_routine (nth t slots default_slot)) stp s)) (nth t env []) = true.
Proof. intros slots env prog H. exact (completed_leaves_joined_tasks_ended slots env prog 0 H). Qed.
Print Assumptions c19_completed_leaves_joined_tasks_ended.

Theorem c19_stop_leaves_no_joined_task_running : forall env stp t,
  env_ok CloseShapes.slots env = true -> step_slot stp = Some t ->
  (In stp CloseShapes.consumer_group_stop \/ In stp CloseShapes.consumer_nogroup_stop \/ In stp CloseShapes.producer_stop) ->
  forallb (fun s => ended (task_after (s_routine (nth t CloseShapes.slots default_slot)) stp s)) (nth t env []) = true.
Proof. exact stop_leaves_no_joined_task_running. Qed.
Print Assumptions c19_stop_leaves_no_joined_task_running.

(* which rewrites of a join are harmless: a more absorbing await style (bare -> try/except CancelledError or suppress ->
   gather(return_exceptions=True)) or an added done() guard keeps a safe join safe *)
Theorem c19_safe_join_monotone : forall slots t g g' st st',
  style_le st st' = true -> (g = true -> g' = true) ->
  step_safe slots (CancelAwait t g st) = true -> step_safe slots (CancelAwait t g' st') = true.
Proof. exact safe_join_monotone. Qed.
Print Assumptions c19_safe_join_monotone.
