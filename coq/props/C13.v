(* C13 — Consumption starts at the committed offset, else per auto_offset_reset.
   Public statements only.  Model: model/C13_StartPos.v — per partition: position, pending reset
   strategy, committed-lookup waiters, OffsetFetch / ListOffsets requests in flight, the buffered
   error; events Assigned, CommittedReq, LookupSent / LookupErr / LookupOk, CommittedResp, ListOffsetsSent / ListOffsetsResp / ListOffsetsIgnored / ListOffsetsErr,
   OutOfRange, Consumed, Seek, SeekTo, ErrRaised, Position; environment: the group's offset
   store ([c_committed]) and the leader's answer to ListOffsets ([answer]: log start for
   earliest, last stable offset / high watermark by isolation level for latest).
   Traces recorded from the real consumer (group and group-less) under the simulator must be
   accepted by [run] (correspondence, harness/c13.py).  Proofs: proof/C13_proof.v. *)
From Coq Require Import ZArith List Bool.
From Verif Require Import C13_StartPos C13_proof.
Import ListNotations.
Open Scope Z_scope.

(* c13_start.  In every accepted trace in which the application does not reposition:
   - the FIRST valid position after assignment is the committed offset if the consumer can see
     one; otherwise it is the leader's answer for the policy's strategy — log start (earliest),
     last stable offset (latest, read_committed) or high watermark (latest, read_uncommitted);
   - every later position (after an out-of-range report) comes from the committed offset or from
     a reset for the policy's strategy, and a reset only happens when there is no committed
     offset or the position was reported out of range;
   - the only errors raised are NoOffsetForPartition (policy none, no committed offset) and
     OffsetOutOfRange (policy none);
   - with policy none no reset is ever started. *)
Theorem c13_start : forall c tr s,
  run c fresh tr = Some s -> forallb (fun e => negb (user_move e)) tr = true ->
  (forall f, first s = Some f ->
     match snd f with
     | OCommitted cc => eff_committed c = Some cc /\ fst f = cc
     | OReset x l h ls => eff_committed c = None /\ policy_strat (c_policy c) = Some x /\
                          fst f = answer (c_iso c) x l h ls
     | OSeek _ => False
     end) /\
  (forall og, origin_ s = Some og ->
     match og with
     | OCommitted cc => eff_committed c = Some cc
     | OReset x _ _ _ => policy_strat (c_policy c) = Some x /\ (eff_committed c = None \/ oor s = true)
     | OSeek _ => False
     end) /\
  (forall k, In k (surfaced s) \/ err s = Some k ->
     match k with
     | NoOffset => c_policy c = PNone /\ eff_committed c = None
     | OutOfRangeErr => c_policy c = PNone
     end) /\
  (c_policy c = PNone -> rst s = None /\ lo s = []) /\
  (forall x, rst s = Some x -> policy_strat (c_policy c) = Some x /\ (eff_committed c = None \/ oor s = true)).
Proof. exact start_rule. Qed.
Print Assumptions c13_start.

(* the answer used by a reset: what the isolation level selects *)
Theorem c13_answer_by_isolation : forall l h ls,
  answer RU Earliest l h ls = l /\ answer RC Earliest l h ls = l /\
  answer RU Latest l h ls = h /\ answer RC Latest l h ls = ls.
Proof. intros. repeat split. Qed.
Print Assumptions c13_answer_by_isolation.

(* c13_out_of_range.  A fetch reply reporting the current position out of range: with a reset
   policy the position is invalidated and a reset for the policy's strategy is pending (which
   then applies the leader's answer); with policy none the position stays and OffsetOutOfRange is
   buffered for the application. *)
Theorem c13_out_of_range : forall c s o s',
  pos s = Some o -> step c s (OutOfRange o) = Some s' ->
  match policy_strat (c_policy c) with
  | Some x => pos s' = None /\ rst s' = Some x /\ oor s' = true
  | None => pos s' = Some o /\ err s' = Some OutOfRangeErr /\ rst s' = rst s
  end.
Proof. exact out_of_range_rule. Qed.
Print Assumptions c13_out_of_range.

Theorem c13_reset_applies_answer : forall c s x l h ls s',
  step c s (ListOffsetsResp x l h ls) = Some s' ->
  pos s' = Some (answer (c_iso c) x l h ls) /\ rst s' = None /\
  origin_ s' = Some (OReset x l h ls) /\ rst s = Some x /\ In x (lo s).
Proof. exact reset_applies_answer. Qed.
Print Assumptions c13_reset_applies_answer.

(* c13_seek_precedence.  A seek(o) landing ANYWHERE — before the committed lookup, while it is
   in flight, between its reply and the resumption of the waiting task, while ListOffsets is in
   flight, after an out-of-range report — wins: whatever lookup / reset events complete
   afterwards (no further user repositioning, nothing consumed, o not reported out of range),
   the position is o. *)
Theorem c13_seek_precedence : forall c tr1 o tr2 s,
  run c fresh (tr1 ++ Seek o :: tr2) = Some s -> forallb quiet_ev tr2 = true ->
  pos s = Some o /\ rst s = None /\ origin_ s = Some (OSeek o).
Proof. exact seek_precedence. Qed.
Print Assumptions c13_seek_precedence.

(* ... and so does seek_to_beginning() / seek_to_end(): whatever lookups were in flight when it was
   called (also ListOffsets for the OTHER strategy — their answers are not applied), a position
   established afterwards is the leader's answer for the strategy asked. *)
Theorem c13_seek_to_precedence : forall c tr1 x tr2 s,
  run c fresh (tr1 ++ SeekTo x :: tr2) = Some s -> forallb quiet_ev tr2 = true ->
  forall p, pos s = Some p ->
  exists l h ls, origin_ s = Some (OReset x l h ls) /\ p = answer (c_iso c) x l h ls.
Proof. exact seek_to_precedence. Qed.
Print Assumptions c13_seek_to_precedence.

(* c13_retry.  A failed committed lookup leaves every waiter waiting and the lookup can be (and,
   by the coordinator's refresh loop, is) sent again; a failed ListOffsets leaves the reset
   pending and the request can be sent again; and from an idle state without a position the
   fault-free continuation ends with a valid position or (policy none) the buffered error. *)
Theorem c13_retry_lookup : forall c s s',
  step c s LookupErr = Some s' ->
  nwait s' = nwait s /\ resolved s' = resolved s /\ pos s' = pos s /\ rst s' = rst s /\ looking s' = false /\
  (c_group c = true -> nwait s <> O -> exists s'', step c s' LookupSent = Some s'').
Proof. exact lookup_retry. Qed.
Print Assumptions c13_retry_lookup.

Theorem c13_retry_list_offsets : forall c s x s',
  step c s (ListOffsetsErr x) = Some s' ->
  pos s' = pos s /\ rst s' = rst s /\ nwait s' = nwait s /\
  (forall y, pos s = None -> rst s = Some y -> exists s'', step c s' (ListOffsetsSent y) = Some s'').
Proof. exact list_offsets_retry. Qed.
Print Assumptions c13_retry_list_offsets.

Theorem c13_fault_free_completion : forall c s l h ls,
  pos s = None /\ nwait s = O /\ resolved s = [] /\ looking s = false /\ lo s = [] /\ err s = None ->
  exists s', run c s (finish c s l h ls) = Some s' /\ (is_some (pos s') = true \/ is_some (err s') = true).
Proof. exact fault_free_completion. Qed.
Print Assumptions c13_fault_free_completion.

(* ------------------------------------------------------------------------------------------ *)
(* Non-vacuity: traces in the shape the simulator records. *)
(* group consumer, committed offset 4 inside the log: starts at 4 *)
Example c13_ex_committed :
  replay (mkCfg PLatest RC true (Some 4))
         [Assigned; CommittedReq; LookupSent; LookupErr; LookupSent; LookupOk (Some 4); CommittedResp (Some 4);
          Position 4; Consumed 5]
  = inl (Some 5, false, Some (4, 1), 1, []).
Proof. vm_compute. reflexivity. Qed.

(* committed offset 1 below the log start 2, policy latest, read_committed with an open
   transaction (LSO 6 < HW 10): starts at 1, reported out of range, reset to the LSO *)
Example c13_ex_out_of_range :
  replay (mkCfg PLatest RC true (Some 1))
         [Assigned; CommittedReq; LookupSent; LookupOk (Some 1); CommittedResp (Some 1); OutOfRange 1;
          ListOffsetsSent Latest; ListOffsetsErr Latest; ListOffsetsSent Latest; ListOffsetsResp Latest 2 10 6;
          Position 6]
  = inl (Some 6, false, Some (1, 1), 3, []).
Proof. vm_compute. reflexivity. Qed.

(* group-less consumer, policy none: NoOffsetForPartition is raised; a seek landing while the
   committed lookup is in flight wins *)
Example c13_ex_none_and_seek :
  replay (mkCfg PNone RU false (Some 7))
         [Assigned; CommittedReq; LookupOk None; CommittedResp None; ErrRaised NoOffset;
          CommittedReq; Seek 3; LookupOk None; CommittedResp None; Position 3]
  = inl (Some 3, false, Some (3, 4), 4, [1]).
Proof. vm_compute. reflexivity. Qed.

(* what the model forbids: starting somewhere else than the committed offset, resetting with the
   wrong strategy, applying a reset after a seek, the high watermark instead of the last stable
   offset under read_committed — and the two defects this check found in the pinned tree (fixed
   since, see known_findings.d/C13.json): a committed lookup answered "no offset" although the group
   has one (OffsetFetch v2+ group-level error read as an empty answer), and the answer to a
   ListOffsets for `earliest` applied to a pending seek_to_end() *)
Example c13_ex_rejects :
  run (mkCfg PLatest RU true (Some 4)) fresh [Assigned; CommittedReq; LookupSent; LookupOk None] = None /\
  run (mkCfg PLatest RU true None) fresh
      [Assigned; CommittedReq; LookupSent; LookupOk None; CommittedResp None; ListOffsetsSent Earliest] = None /\
  run (mkCfg PEarliest RU false None) fresh
      [Assigned; CommittedReq; LookupOk None; CommittedResp None; ListOffsetsSent Earliest; Seek 5;
       ListOffsetsResp Earliest 0 9 9] = None /\
  run (mkCfg PEarliest RC false None) fresh
      [Assigned; CommittedReq; LookupOk None; CommittedResp None; ListOffsetsSent Earliest;
       ListOffsetsResp Earliest 2 9 6; Position 6] = None /\
  run (mkCfg PLatest RC false None) fresh
      [Assigned; CommittedReq; LookupOk None; CommittedResp None; ListOffsetsSent Latest;
       ListOffsetsResp Latest 2 9 6; Position 9] = None /\
  run (mkCfg PEarliest RU false None) fresh
      [Assigned; CommittedReq; LookupOk None; CommittedResp None; ListOffsetsSent Earliest; SeekTo Latest;
       ListOffsetsResp Earliest 2 12 12] = None.
Proof. vm_compute. repeat split. Qed.

(* the repaired behaviour of the second one is accepted: the stale answer is ignored, the lookup
   for the strategy asked follows *)
Example c13_ex_seek_to_end_during_reset :
  replay (mkCfg PEarliest RU false None)
         [Assigned; CommittedReq; LookupOk None; CommittedResp None; ListOffsetsSent Earliest; SeekTo Latest;
          ListOffsetsIgnored Earliest; ListOffsetsSent Latest; ListOffsetsResp Latest 2 12 12; Position 12]
  = inl (Some 12, false, Some (12, 3), 3, []).
Proof. vm_compute. reflexivity. Qed.
