(* C15 — Sticky assignor keeps assignments that need not move.
   Public statements only.  Model: model/C14_Sticky.v (StickyCtl = the executor's control
   skeleton as a checker of its op log; init_current = _init_current_assignments).
   Proofs: proof/C15_sticky.v.

   The user-data codec (StickyAssignorUserDataV1) is NOT modelled here: previous assignments
   are tied to the real encoding by correspondence only — every run of the check ships the
   claims through StickyPartitionAssignor._metadata / ConsumerProtocolMemberMetadata
   .encode()/.decode() and compares what the real executor parsed
   (current_assignment / previous_assignment after __init__) with [init_current claims]. *)
From Coq Require Import Arith List Bool ZArith.
From Verif Require Import C14_Assignors C14_Sticky C14_lists C14_rr C14_checkers C14_sticky C15_sticky.
From Verif Require Import C15_Order C15_order.
Import ListNotations.

(* what the executor starts from when no partition is claimed twice: the claims, verbatim,
   and no "previous owner" *)
Theorem c15_userdata_consistent_claims : forall claims,
  NoDup (flat_map snd claims) ->
  init_current claims = (claimed_triples claims, []).
Proof. exact init_current_consistent. Qed.
Print Assumptions c15_userdata_consistent_claims.

(* Unchanged membership / subscriptions / partitions, previous assignment valid and KIP-54
   balanced, no conflicting claims: every accepted run of the executor's skeleton has an empty
   op log (no partition unassigned, no Move enabled) and returns the previous assignment —
   the very list it started from. *)
Theorem c15_unchanged_fixpoint : forall ppt ms st0 assigns reassigns obs r,
  ids_nodup ms -> valid ppt ms st0 -> kip54_balanced ms st0 ->
  ctl_run ppt ms [] st0 assigns reassigns obs = Some r ->
  cr_final r = st0 /\ assigns = [] /\ reassigns = [].
Proof. exact ctl_unchanged_fixpoint. Qed.
Print Assumptions c15_unchanged_fixpoint.

(* Full statement of the identical-subscription clauses: no partition moves between two
   members of [keep] (the survivors when members left, the old members when members joined). *)
Definition C15_full : Prop :=
  forall ppt ms prev st0 assigns reassigns obs r keep,
    ids_nodup ms -> identical_subs ms -> NoDup (map snd st0) ->
    pairs_within_one (drop ppt ms st0) keep = true ->
    ctl_run ppt ms prev st0 assigns reassigns obs = Some r ->
    moved_among keep (drop ppt ms st0) (cr_final r) = [].

(* Proved half (members left): what the present members validly hold is within one of each
   other (it is what remains of a within-one assignment) => every accepted run distributes
   the orphaned partitions by Assign steps only; its op log contains no Move, so nothing a
   survivor held goes anywhere else.  Gap: the "members joined" half — there Moves are
   necessary, and which partition is moved depends on the visiting order
   (`_populate_sorted_partitions`), which StickyCtl abstracts; see
   c15_plus_needs_visiting_order.  That half is tied to the code by search only. *)
Theorem c15_identical_subs_no_survivor_moves_partial :
  forall ppt ms prev st0 assigns reassigns obs r keep,
    ids_nodup ms -> identical_subs ms -> NoDup (map snd st0) ->
    pairs_within_one (drop ppt ms st0) (map fst ms) = true ->
    ctl_run ppt ms prev st0 assigns reassigns obs = Some r ->
    reassigns = [] /\ incl (drop ppt ms st0) (cr_final r)
    /\ moved_among keep (drop ppt ms st0) (cr_final r) = [].
Proof.
  intros ppt ms prev st0 assigns reassigns obs r keep Hi Hid Hn Hw H.
  destruct (ctl_minus_no_survivor_moves _ _ _ _ _ _ _ _ Hi Hid Hw H) as [E I].
  split; auto. split; auto. eapply ctl_minus_moved_nil; eauto.
Qed.
Print Assumptions c15_identical_subs_no_survivor_moves_partial.

(* The guards of the skeleton alone do not imply the "members joined" clause: the run below
   is accepted although it moves t1-2 from C0 to C1, two old members.  It is the run the real
   executor took before /repo 2a32c57 (regression input corpus/C15/unsubscribed_topic.json:
   t0, 1 partition, nobody subscribes; t1, 5 partitions; C0, C1, C2 subscribe [t1]; C0 held
   t1-2,3,4, C1 held t1-0,1, C2 is new) because the unsubscribed topic defeated
   `_are_subscriptions_identical()` and the generic visiting order was used.  The fixed code
   visits the partitions in the stickiness-preserving order: on the corpus chain (C0; C0+C1;
   C0+C1+C2) its third round starts from C0 = t1-0,1,2, C1 = t1-3,4 and moves only t1-2 from C0
   to C2 (c15_plus_regression); the harness checks on every run that this is the real op log. *)
Theorem c15_plus_needs_visiting_order : ~ C15_full.
Proof.
  intros H.
  pose (ppt := [(0, Some 1); (1, Some 5)]).
  pose (ms := [(0, [1]); (1, [1]); (2, [1])]).
  pose (st0 := [(0, (1, 2)); (0, (1, 3)); (0, (1, 4)); (1, (1, 0)); (1, (1, 1))]).
  pose (reassigns := [(((1, 0), 2), (1, 0)); (((1, 2), 1), (1, 2))]).
  destruct (ctl_run ppt ms [] st0 [] reassigns false) as [r|] eqn:E; [|vm_compute in E; discriminate].
  assert (Hm : moved_among [0; 1] (drop ppt ms st0) (cr_final r) = []).
  { apply (H ppt ms [] st0 [] reassigns false r [0; 1]); auto.
    - unfold ids_nodup. simpl. repeat (constructor; [simpl; intuition discriminate|]). constructor.
    - intros m1 s1 m2 s2 t H1 H2 Ht. simpl in H1, H2.
      destruct H1 as [H1|[H1|[H1|[]]]]; destruct H2 as [H2|[H2|[H2|[]]]];
        inversion H1; inversion H2; subst; auto.
    - apply nodup_tp_b_spec. vm_compute. reflexivity. }
  vm_compute in E. inversion E; subst r. vm_compute in Hm. discriminate.
Qed.
Print Assumptions c15_plus_needs_visiting_order.

(* the third round of the fixed code on the corpus chain: accepted, nothing moves between C0 and C1 *)
Example c15_plus_regression :
  let ppt := [(0, Some 1); (1, Some 5)] in
  let ms := [(0, [1]); (1, [1]); (2, [1])] in
  let st0 := [(0, (1, 0)); (0, (1, 1)); (0, (1, 2)); (1, (1, 3)); (1, (1, 4))] in
  exists r, ctl_run ppt ms [] st0 [] [(((1, 2), 2), (1, 2))] false = Some r
            /\ moved_among [0; 1] st0 (cr_final r) = [].
Proof. eexists. split; vm_compute; reflexivity. Qed.

(* non-vacuity of c15_unchanged_fixpoint: a valid, balanced previous assignment and the
   accepted (empty) log *)
Example c15_unchanged_hyps_satisfiable :
  let ppt := [(0, Some 2); (1, Some 3)] in
  let ms := [(0, [0; 1]); (1, [1])] in
  let st0 := [(0, (0, 0)); (0, (0, 1)); (0, (1, 0)); (1, (1, 1)); (1, (1, 2))] in
  valid_b ppt ms st0 = true /\ kip54_balanced_b ms st0 = true
  /\ exists r, ctl_run ppt ms [] st0 [] [] false = Some r /\ cr_final r = st0.
Proof. simpl. split; [reflexivity|]. split; [reflexivity|]. eexists. split; vm_compute; reflexivity. Qed.

(* non-vacuity of the partial theorem: two survivors, identical subscriptions, orphaned
   partitions handed out by Assign steps *)
Example c15_minus_hyps_satisfiable :
  let ppt := [(0, Some 4)] in
  let ms := [(0, [0]); (2, [0])] in
  let st0 := [(0, (0, 0)); (2, (0, 3))] in
  pairs_within_one (drop ppt ms st0) (map fst ms) = true
  /\ exists r, ctl_run ppt ms [] st0 [((0, 1), 0); ((0, 2), 2)] [] false = Some r.
Proof. simpl. split; [reflexivity|]. eexists. vm_compute. reflexivity. Qed.


(* Identical subscriptions, members joined: the candidates for reassignment are listed one per turn, always from a
   member that holds the most not-yet-listed partitions ([order_ok], checked on the real executor's
   sorted_partitions in every run).  Along such an order - at every intermediate point of it - every member that
   has already offered a partition is within one of the heaviest member: old members shed in lock-step, so a
   partition they shed goes to a lighter (new) member, not to another old member. *)
Theorem c15_heaviest_first_lockstep : forall counts o1 o2 c x,
  order_ok counts (o1 ++ o2) = true -> In c o1 -> nth_error (run counts o1) c = Some x ->
  maxl (run counts o1) <= S x.
Proof. exact heaviest_first_lockstep_prefix. Qed.
Print Assumptions c15_heaviest_first_lockstep.
