(* C04 — Committed offsets never pass undelivered records; no loss across crash/rebalance.
   Public statements only.  Model: model/Offsets.v (per partition: coordinator's committed
   offset, successive owner incarnations, delivered set).  Per-partition traces of real consumer
   groups under the simulator (members killed / stopped / rebalanced at arbitrary points, commit
   faults, coordinator failover) must be accepted by the model (harness/c04.py). *)
From Coq Require Import List Bool Arith.
From Verif Require Import Offsets C04_proof.
Import ListNotations.

Theorem c04_commit_le_delivered : forall tr s i off s',
  run init tr = Some s -> step s (Commit i off) = Some s' ->
  exists x, lookup i (incs s) = Some x /\ i_start x <= off <= i_pos x /\
            forall o, o < off -> In o (delivered s).
Proof. exact commit_le_delivered. Qed.
Print Assumptions c04_commit_le_delivered.

Theorem c04_at_least_once : forall tr s c o,
  run init tr = Some s -> committed s = Some c -> o < c -> In o (delivered s).
Proof. exact at_least_once. Qed.
Print Assumptions c04_at_least_once.

Theorem c04_redelivery_bound : forall s i s',
  step s (Takeover i) = Some s' ->
  exists x, lookup i (incs s') = Some x /\ i_pos x = i_start x /\
            i_start x = match committed s with Some c => c | None => 0 end.
Proof. exact redelivery_bound. Qed.
Print Assumptions c04_redelivery_bound.

Theorem c04_deliver_from_position : forall s i o s',
  step s (Deliver i o) = Some s' ->
  exists x, lookup i (incs s) = Some x /\ i_alive x = true /\ o = i_pos x /\ o < hw s.
Proof. exact deliver_from_position. Qed.
Print Assumptions c04_deliver_from_position.

(* non-vacuity: owner 0 delivers 0..2, commits 2, is killed; owner 1 takes over at 2 and
   redelivers 2; a commit beyond the position is rejected *)
Example c04_trace_accepted :
  replay [Append 5; Takeover 0; Deliver 0 0; Deliver 0 1; Commit 0 2; Deliver 0 2; Release 0;
          Takeover 1; Deliver 1 2; Deliver 1 3; Commit 1 4] = 0.
Proof. reflexivity. Qed.
Example c04_commit_ahead_rejected :
  replay [Append 5; Takeover 0; Deliver 0 0; Commit 0 3] = 4.
Proof. reflexivity. Qed.
