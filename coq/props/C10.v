(* stub, replaced below *)
From Coq Require Import ZArith List Bool.
From Verif Require Import C10_Base C10_DecodeSafeCy C10_DecodeSafePy.
Theorem c10_stub : True. Proof. exact I. Qed.
