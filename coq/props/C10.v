(* C10 — Decoding untrusted bytes is memory-safe, terminating and fails cleanly.
   Public statements only; models in model/C10_Base.v, C10_DecodeSafeCy.v (compiled readers over
   an instrumented memory), C10_DecodeSafePy.v (pure-Python readers), C10_Run.v (entry point of the
   correspondence); proofs in proof/C10_*.v.

   The models take a vector [fixes] of booleans, one per repaired site.  [fx_current] (all false) is
   the code of the pinned tree, [fx_repaired] (all true) the code with every patch of
   seeded/_proposed_fixes/C10-*.diff applied.  The universal theorems are proved for fx_repaired;
   for fx_current they are REFUTED by concrete witnesses (which harness/c10.py replays on the real
   extension under AddressSanitizer, corpus/C10).  harness/c10.py evaluates BOTH variants on every
   input and accepts the real code only if it behaves like one of them, so the run tells which
   variant the tree is, site by site.

   Outcome of a run: (records delivered, status); status = SDone | SFail f with
   f = FRaise exception-class | FOOB site space pos n len (instrumented read outside the buffer)
     | FFuel site (a loop exceeded its fuel, a function of the input length: non-termination)
     | FInternal site e (SystemError / MemoryError / OverflowError out of C-API internals).
   [ok_status st] := st is SDone or SFail (FRaise _).

   The compression codec is abstract: an arbitrary function [dec].  Hypotheses of the compiled
   theorems: the buffer, and every codec output, is shorter than 2^47 bytes ([small], [dec_small]: no
   allocation of that size can exist; needed only to exclude MemoryError when copying a key/value
   whose size has been checked against the buffer).  The Python theorems have no hypothesis. *)
From Coq Require Import ZArith List Bool String.
From Verif Require Import C10_Base C10_DecodeSafeCy C10_DecodeSafePy C10_Run C10_wp C10_cy_proof C10_py_proof
                          C10_crc_proof C10_refute C10_public.
Import ListNotations.
Open Scope Z_scope.
Open Scope string_scope.

(* ---------------------------------------------------------------- repaired compiled readers *)
Theorem c10_cy_no_oob : forall crc32c crc32 dec validate buf, dec_small dec -> small buf ->
  forall site space pos n len,
    snd (cy_decode crc32c crc32 dec fx_repaired validate buf) <> SFail (FOOB site space pos n len).
Proof. exact cy_no_oob. Qed.
Print Assumptions c10_cy_no_oob.

Theorem c10_cy_terminates : forall crc32c crc32 dec validate buf, dec_small dec -> small buf ->
  forall site, snd (cy_decode crc32c crc32 dec fx_repaired validate buf) <> SFail (FFuel site).
Proof. exact cy_terminates. Qed.
Print Assumptions c10_cy_terminates.

Theorem c10_cy_clean : forall crc32c crc32 dec validate buf, dec_small dec -> small buf ->
  forall site e, snd (cy_decode crc32c crc32 dec fx_repaired validate buf) <> SFail (FInternal site e).
Proof. exact cy_clean. Qed.
Print Assumptions c10_cy_clean.

(* the three together, in the form the full statement is written (C10_public.C10_cy_safe) *)
Theorem c10_cy_safe : C10_cy_safe fx_repaired.
Proof. exact cy_decode_ok. Qed.
Print Assumptions c10_cy_safe.

(* the same for the public batch constructors DefaultRecordBatch(buffer) and
   LegacyRecordBatch(buffer, magic) on an arbitrary buffer (no splitter in front) *)
Theorem c10_cy_default_batch_safe : forall crc32c dec validate buf, dec_small dec -> small buf ->
  ok_status (snd (cy_v2_run crc32c dec fx_repaired validate buf)).
Proof. exact cy_v2_run_ok. Qed.
Print Assumptions c10_cy_default_batch_safe.

Theorem c10_cy_legacy_batch_safe : forall crc32 dec validate magic buf, dec_small dec -> small buf ->
  ok_status (snd (cy_l_run crc32 dec fx_repaired validate magic buf)).
Proof. exact cy_l_run_ok. Qed.
Print Assumptions c10_cy_legacy_batch_safe.

(* ---------------------------------------------------------------- repaired pure-Python readers *)
Theorem c10_py_terminates : forall crc32c crc32 dec validate buf site,
  snd (py_decode crc32c crc32 dec fx_repaired validate buf) <> SFail (FFuel site).
Proof. exact py_terminates. Qed.
Print Assumptions c10_py_terminates.

Theorem c10_py_clean : forall crc32c crc32 dec validate buf,
  (forall site e, snd (py_decode crc32c crc32 dec fx_repaired validate buf) <> SFail (FInternal site e))
  /\ (forall site sp p n l, snd (py_decode crc32c crc32 dec fx_repaired validate buf) <> SFail (FOOB site sp p n l)).
Proof. exact py_clean. Qed.
Print Assumptions c10_py_clean.

Theorem c10_py_safe : C10_py_safe fx_repaired.
Proof. exact py_decode_ok. Qed.
Print Assumptions c10_py_safe.

Theorem c10_py_batches_safe : forall crc32c crc32 dec validate magic buf,
  ok_status (snd (py_v2_run crc32c dec validate buf))
  /\ ok_status (snd (py_l_run crc32 dec fx_repaired validate magic buf)).
Proof. exact py_batches_safe. Qed.
Print Assumptions c10_py_batches_safe.

(* ---------------------------------------------------------------- checksum *)
(* A batch object that could be constructed and whose checksum field (bytes 17..20 of a v2 batch,
   12..15 of a v0/v1 message) differs from the checksum of its content (everything from byte 21,
   resp. 16) is rejected by the driver with CorruptRecordException before any record is delivered —
   in the compiled and in the Python model, for every setting of the fix flags, every codec and
   every checksum function. *)
Theorem c10_crc_detects :
  (forall crc32c dec f buf h,
     cy_v2_read_header f buf = Ok h -> v2_crc_field buf <> crc32c (v2_crc_content buf) ->
     cy_v2_run crc32c dec f true buf = ([], SFail (FRaise Corrupt)))
  /\ (forall crc32 dec f magic buf m p,
     cy_l_read_record f 0 buf 0 = Ok (m, p) -> l_crc_field buf <> crc32 (l_crc_content buf) ->
     cy_l_run crc32 dec f true magic buf = ([], SFail (FRaise Corrupt)))
  /\ (forall crc32c dec buf h,
     py_v2_new buf = Ok h -> v2_crc_field buf <> crc32c (v2_crc_content buf) ->
     py_v2_run crc32c dec true buf = ([], SFail (FRaise Corrupt)))
  /\ (forall crc32 dec f magic buf h,
     py_l_new magic buf = Ok h -> l_crc_field buf <> crc32 (l_crc_content buf) ->
     py_l_run crc32 dec f true magic buf = ([], SFail (FRaise Corrupt))).
Proof. exact crc_detects. Qed.
Print Assumptions c10_crc_detects.

(* ---------------------------------------------------------------- the pinned tree: refuted *)
(* out-of-bounds reads of the compiled readers as pinned (site, memory space, position, size, length) *)
Theorem c10_cy_no_oob_current_refuted :
  exists crc32c crc32, exists d1 d2 d3 : Z -> list Z -> dres, exists b1 b2 b3 b4,
    snd (cy_decode crc32c crc32 d1 fx_current false b1) = SFail (FOOB "default_records._read_header" 0 23 4 26)
    /\ snd (cy_decode crc32c crc32 d1 fx_current false b2) = SFail (FOOB "cutil.decode_varint64" 0 62 1 62)
    /\ snd (cy_decode crc32c crc32 d1 fx_current false b3) = SFail (FOOB "legacy_records._read_record" 0 26 4 26)
    /\ snd (cy_decode crc32c crc32 d2 fx_current false b4) = SFail (FOOB "legacy_records._read_last_offset" 1 8 4 5)
    /\ snd (cy_decode crc32c crc32 d3 fx_current false b4) = SFail (FOOB "legacy_records._read_last_offset" 1 (-12) 8 0).
Proof. exact cy_no_oob_current_refuted. Qed.
Print Assumptions c10_cy_no_oob_current_refuted.

Theorem c10_cy_terminates_current_refuted :
  exists crc32c crc32 dec buf,
    snd (cy_decode crc32c crc32 dec fx_current false buf) = SFail (FFuel "legacy_records._read_last_offset").
Proof. exact cy_terminates_current_refuted. Qed.
Print Assumptions c10_cy_terminates_current_refuted.

Theorem c10_cy_clean_current_refuted :
  exists crc32c crc32 dec b1 b2 b3,
    snd (cy_decode crc32c crc32 dec fx_current false b1) = SFail (FInternal "legacy_records._read_record" "SystemError")
    /\ snd (cy_decode crc32c crc32 dec fx_current false b2) = SFail (FInternal "default_records._read_msg" "OverflowError")
    /\ snd (cy_decode crc32c crc32 dec fx_current false b3) = SFail (FInternal "default_records._read_msg" "MemoryError").
Proof. exact cy_clean_current_refuted. Qed.
Print Assumptions c10_cy_clean_current_refuted.

Theorem c10_py_terminates_current_refuted :
  exists crc32c crc32 dec buf,
    snd (py_decode crc32c crc32 dec fx_current false buf) = SFail (FFuel "legacy_records.py._read_all_headers").
Proof. exact py_terminates_current_refuted. Qed.
Print Assumptions c10_py_terminates_current_refuted.

Theorem c10_current_unsafe : ~ C10_cy_safe fx_current /\ ~ C10_py_safe fx_current.
Proof. exact current_unsafe. Qed.
Print Assumptions c10_current_unsafe.

(* each proposed patch is necessary: all flags on except one, and its witness still fails *)
Theorem c10_each_fix_needed :
  snd (cy_decode C C2 D0 fx_but_hdr false w_hdr) = SFail (FOOB "default_records._read_header" 0 23 4 26)
  /\ snd (cy_decode C C2 D0 fx_but_varint false w_varint) = SFail (FOOB "cutil.decode_varint64" 0 62 1 62)
  /\ snd (cy_decode C C2 D0 fx_but_bounds false w_ovf) = SFail (FInternal "default_records._read_msg" "OverflowError")
  /\ snd (cy_decode C C2 D0 fx_but_bounds false w_neg) = SFail (FInternal "legacy_records._read_record" "SystemError")
  /\ snd (cy_decode C C2 D0 fx_but_vlen false w_vlen) = SFail (FOOB "legacy_records._read_record" 0 26 4 26)
  /\ snd (cy_decode C C2 D5 fx_but_lastoff false w_wrap) = SFail (FOOB "legacy_records._read_last_offset" 1 8 4 5)
  /\ snd (cy_decode C C2 DH fx_but_lastoff false w_wrap) = SFail (FFuel "legacy_records._read_last_offset")
  /\ snd (py_decode C C2 DH fx_but_pyhdrs false w_wrap) = SFail (FFuel "legacy_records.py._read_all_headers").
Proof. exact each_fix_needed. Qed.
Print Assumptions c10_each_fix_needed.

(* ---------------------------------------------------------------- non-vacuity *)
(* the hypotheses are satisfiable and the repaired model does deliver records: a valid one-record
   v2 batch (built by the real builder; checksum verified) decodes to one record in both models,
   and the repaired model behaves like the pinned one on it *)
Definition ex_v2 := of_hex "000000000000000000000042ffffffff02dc0e98b800000000000000000000000003e800000000000003e8ffffffffffffffffffffffffffff0000000120000000026b0a76616c75650202680278".
Example c10_hyps_satisfiable :
  small ex_v2 /\ dec_small D0
  /\ cy_decode C C2 D0 fx_repaired true ex_v2 = cy_decode C C2 D0 fx_current true ex_v2
  /\ List.length (fst (cy_decode C C2 D0 fx_repaired true ex_v2)) = 1%nat
  /\ snd (cy_decode C C2 D0 fx_repaired true ex_v2) = SDone
  /\ snd (py_decode C C2 D0 fx_repaired true ex_v2) = SDone.
Proof.
  split; [vm_compute; reflexivity|]. split; [intros c p out E; discriminate|].
  vm_compute. repeat split; reflexivity.
Qed.

(* the CRC functions of the model are the standard ones: check value of "123456789" *)
Example c10_crc_check_values :
  crc32c_cast [49; 50; 51; 52; 53; 54; 55; 56; 57] = 3808858755
  /\ crc32_ieee [49; 50; 51; 52; 53; 54; 55; 56; 57] = 3421780262.
Proof. vm_compute. split; reflexivity. Qed.
