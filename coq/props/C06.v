(* C06 — Group membership converges and is not disturbed by the member itself.
   Public statements.  (i) model/C06_JoinScript.v: perform_group_join as a function of the
   coordinator's replies, tied to the real method by exhaustive differential testing over reply
   scripts (harness/c06.py); (ii) the convergence clause is decided on the real consumers under
   the simulator by a monitor (quiet period => all live members in the latest generation,
   heartbeating, full coverage, no further rebalance); its model-level proof is not done: the full
   statement stays visible below and the check is labelled partial for that clause. *)
From Coq Require Import List Bool Arith.
From Coq Require Import ZArith.
From Verif Require Import C06_JoinScript C06_proof Group.
From Verif Require Import DispatchActs C06_Codes C06_dispatch
  HeartbeatDispatch JoinRetryDispatch JoinDispatch SyncDispatch CommitDispatch.
Close Scope Z_scope.
Import ListNotations.

Theorem c06_join_advertises_all : forall rs asg mid,
  Forall (fun q => match q with RJoin ps _ => ps = asg | RSync _ _ _ => True end)
         (fst (join_script asg mid rs)).
Proof. exact join_advertises_all. Qed.
Print Assumptions c06_join_advertises_all.

Theorem c06_join_then_sync : forall asg mid g m l rs,
  fst (join_script asg mid (JoinOk g m l :: rs)) = [RJoin asg mid; RSync g m l].
Proof. exact join_then_sync. Qed.
Print Assumptions c06_join_then_sync.

Theorem c06_join_then_sync_after_member_id_required : forall ms asg mid g m l rs,
  exists joins,
    fst (join_script asg mid (map (fun x => JoinErr (MemberIdRequired x)) ms ++ JoinOk g m l :: rs))
    = joins ++ [RSync g m l] /\
    Forall (fun q => match q with RJoin ps _ => ps = asg | RSync _ _ _ => False end) joins /\
    length joins = S (length ms).
Proof. exact join_then_sync_after_member_id_required. Qed.
Print Assumptions c06_join_then_sync_after_member_id_required.

Theorem c06_member_id_required_retry : forall asg mid m rs,
  exists q o, join_script asg mid (JoinErr (MemberIdRequired m) :: rs) = (RJoin asg mid :: q, o) /\
              join_script asg m rs = (q, o).
Proof. exact member_id_required_retry. Qed.
Print Assumptions c06_member_id_required_retry.

(* ---- error replies: the dispatch chains below are regenerated from group_coordinator.py on every
   run (translator/dispatch2gallina.py) and validated against the real handlers; the code sets are
   what a Kafka coordinator can answer (model/C06_Codes.v). ------------------------------------- *)

(* no coordinator error reply to a Heartbeat ends the member: each triggers its recovery *)
Theorem c06_heartbeat_errors_recoverable :
  forall c, In c kafka_heartbeat_codes -> recovers (heartbeatDispatch c) = true.
Proof. exact heartbeat_recoverable. Qed.
Print Assumptions c06_heartbeat_errors_recoverable.

(* ... REBALANCE_IN_PROGRESS on a heartbeat asks for a rejoin and keeps member id and coordinator *)
Theorem c06_heartbeat_rebalance_rejoins_only :
  has ARequestRejoin (heartbeatDispatch 27%Z) = true /\
  has AResetGeneration (heartbeatDispatch 27%Z) = false /\
  has ACoordinatorDead (heartbeatDispatch 27%Z) = false.
Proof. exact heartbeat_rebalance_rejoins_only. Qed.
Print Assumptions c06_heartbeat_rebalance_rejoins_only.

Theorem c06_heartbeat_actions :
  (forall c, In c [15; 16]%Z -> has ACoordinatorDead (heartbeatDispatch c) = true) /\
  (forall c, In c [22; 25]%Z -> has AResetGeneration (heartbeatDispatch c) = true).
Proof. exact heartbeat_actions. Qed.
Print Assumptions c06_heartbeat_actions.

Theorem c06_join_errors_recoverable :
  forall c, In c kafka_join_codes -> recovers (joinDispatch c) = true.
Proof. exact join_recoverable. Qed.
Print Assumptions c06_join_errors_recoverable.

Theorem c06_join_member_id_required :
  joinRetryDispatch MEMBER_ID_REQUIRED = [ASetMemberId; ARetryJoin] /\
  (forall c, c <> MEMBER_ID_REQUIRED -> joinRetryDispatch c = []).
Proof. split; [exact join_member_id_required | exact join_retry_only_member_id_required]. Qed.
Print Assumptions c06_join_member_id_required.

Theorem c06_join_fatal_reported :
  forall c, In c kafka_join_fatal_codes -> joinDispatch c = [ARaiseSame].
Proof. exact join_fatal_reported. Qed.
Print Assumptions c06_join_fatal_reported.

Theorem c06_sync_errors_recoverable :
  forall c, In c kafka_sync_codes -> recovers (syncDispatch c) = true.
Proof. exact sync_recoverable. Qed.
Print Assumptions c06_sync_errors_recoverable.

(* for every integer: any SyncGroup error requests a rejoin before anything else *)
Theorem c06_sync_error_requests_rejoin :
  forall c, c <> 0%Z -> exists rest, syncDispatch c = ARequestRejoin :: rest.
Proof. exact sync_error_requests_rejoin. Qed.
Print Assumptions c06_sync_error_requests_rejoin.

Theorem c06_commit_error_actions :
  (forall c, In c kafka_commit_codes -> fatal (commitDispatch c) = false /\ has AErrored (commitDispatch c) = true) /\
  (forall c, In c [15; 16]%Z -> has ACoordinatorDead (commitDispatch c) = true) /\
  (forall c, In c [22; 25]%Z -> has AResetGeneration (commitDispatch c) = true) /\
  has ARequestRejoin (commitDispatch 27%Z) = true.
Proof. exact commit_actions. Qed.
Print Assumptions c06_commit_error_actions.

(* the hand model of perform_group_join used above classifies join errors as the source does *)
Theorem c06_join_model_agrees_with_source : forall e c,
  In c (code_of e) -> classify_join joinRetryDispatch joinDispatch c = model_class e.
Proof. exact join_model_agrees_with_source. Qed.
Print Assumptions c06_join_model_agrees_with_source.

(* Convergence, full statement (NOT proved; decided per run by the simulator monitor): from every
   reachable state of the membership model, a quiet continuation exists after which every live
   member is stable in the latest generation. *)
Definition C06_converges_full : Prop :=
  forall tr s, Group.run Group.init tr = Some s ->
  exists tr' s', Group.run s tr' = Some s' /\
    forall m x, Group.lookup m (Group.mem s') = Some x -> Group.ph x = Group.PStable.

Example c06_script_example :
  join_script [1; 2] 0 [JoinErr (MemberIdRequired 7); JoinOk 3 7 true; SyncOk]
  = ([RJoin [1; 2] 0; RJoin [1; 2] 7; RSync 3 7 true], Joined).
Proof. reflexivity. Qed.

(* ==== Convergence clause on the quiet-period model (model/C06_Converge.v, proof/C06_converge.v) ============
   The model: the group coordinator (after harness/simkit/groupcoord.py) composed with any number of members
   whose reactions to reply codes are the translated dispatch chains above; quiet steps only (member actions,
   expiry of orphan ids).  Tied to the real consumers by trace acceptance on every simulated run
   (harness/c06_converge.py): the quiet suffix of each run is replayed inside Coq from a state read off the
   real objects, which must satisfy [inv_b]. *)
From Verif Require Import C06_Converge C06_converge.

(* A converged state (coordinator Stable, every live member settled in its generation with the heartbeat task
   running and no rejoin flag, no orphan ids) stays converged under every quiet step; every step enabled in it
   is a no-op heartbeat / commit exchange; none is a JoinGroup: no further rebalance. *)
Theorem c06_converged_closed : forall s l s',
  inv_b s = true -> converged_b s = true -> step s l = Some s' ->
  converged_b s' = true /\ inv_b s' = true /\ is_send_join l = false /\ noop_b s l = true.
Proof. exact converged_closed. Qed.
Print Assumptions c06_converged_closed.

Theorem c06_converged_members : forall s, inv_b s = true -> converged_b s = true ->
  forall m, In m (s_ms s) -> m_live m = true ->
    m_gen m = c_gen (s_c s) /\ m_hb m = true /\ m_rejoin m = false /\ m_ph m = PIdle
    /\ In (m_id m) (ids (c_ents (s_c s))) /\ c_st (s_c s) = CStable.
Proof. exact converged_members. Qed.
Print Assumptions c06_converged_members.
