(* C06 — Group membership converges and is not disturbed by the member itself.
   Public statements.  (i) model/C06_JoinScript.v: perform_group_join as a function of the
   coordinator's replies, tied to the real method by exhaustive differential testing over reply
   scripts (harness/c06.py); (ii) the convergence clause is decided on the real consumers under
   the simulator by a monitor (quiet period => all live members in the latest generation,
   heartbeating, full coverage, no further rebalance); its model-level proof is not done: the full
   statement stays visible below and the check is labelled partial for that clause. *)
From Coq Require Import List Bool Arith.
From Coq Require Import ZArith.
From Verif Require Import C06_JoinScript C06_proof Group.
From Verif Require Import DispatchActs C06_Codes C06_dispatch
  HeartbeatDispatch JoinRetryDispatch JoinDispatch SyncDispatch CommitDispatch.
Close Scope Z_scope.
Import ListNotations.

Theorem c06_join_advertises_all : forall rs asg mid,
  Forall (fun q => match q with RJoin ps _ => ps = asg | RSync _ _ _ => True end)
         (fst (join_script asg mid rs)).
Proof. exact join_advertises_all. Qed.
Print Assumptions c06_join_advertises_all.

Theorem c06_join_then_sync : forall asg mid g m l rs,
  fst (join_script asg mid (JoinOk g m l :: rs)) = [RJoin asg mid; RSync g m l].
Proof. exact join_then_sync. Qed.
Print Assumptions c06_join_then_sync.

Theorem c06_join_then_sync_after_member_id_required : forall ms asg mid g m l rs,
  exists joins,
    fst (join_script asg mid (map (fun x => JoinErr (MemberIdRequired x)) ms ++ JoinOk g m l :: rs))
    = joins ++ [RSync g m l] /\
    Forall (fun q => match q with RJoin ps _ => ps = asg | RSync _ _ _ => False end) joins /\
    length joins = S (length ms).
Proof. exact join_then_sync_after_member_id_required. Qed.
Print Assumptions c06_join_then_sync_after_member_id_required.

Theorem c06_member_id_required_retry : forall asg mid m rs,
  exists q o, join_script asg mid (JoinErr (MemberIdRequired m) :: rs) = (RJoin asg mid :: q, o) /\
              join_script asg m rs = (q, o).
Proof. exact member_id_required_retry. Qed.
Print Assumptions c06_member_id_required_retry.

(* ---- error replies: the dispatch chains below are regenerated from group_coordinator.py on every
   run (translator/dispatch2gallina.py) and validated against the real handlers; the code sets are
   what a Kafka coordinator can answer (model/C06_Codes.v). ------------------------------------- *)

(* no coordinator error reply to a Heartbeat ends the member: each triggers its recovery *)
Theorem c06_heartbeat_errors_recoverable :
  forall c, In c kafka_heartbeat_codes -> recovers (heartbeatDispatch c) = true.
Proof. exact heartbeat_recoverable. Qed.
Print Assumptions c06_heartbeat_errors_recoverable.

(* ... REBALANCE_IN_PROGRESS on a heartbeat asks for a rejoin and keeps member id and coordinator *)
Theorem c06_heartbeat_rebalance_rejoins_only :
  has ARequestRejoin (heartbeatDispatch 27%Z) = true /\
  has AResetGeneration (heartbeatDispatch 27%Z) = false /\
  has ACoordinatorDead (heartbeatDispatch 27%Z) = false.
Proof. exact heartbeat_rebalance_rejoins_only. Qed.
Print Assumptions c06_heartbeat_rebalance_rejoins_only.

Theorem c06_heartbeat_actions :
  (forall c, In c [15; 16]%Z -> has ACoordinatorDead (heartbeatDispatch c) = true) /\
  (forall c, In c [22; 25]%Z -> has AResetGeneration (heartbeatDispatch c) = true).
Proof. exact heartbeat_actions. Qed.
Print Assumptions c06_heartbeat_actions.

Theorem c06_join_errors_recoverable :
  forall c, In c kafka_join_codes -> recovers (joinDispatch c) = true.
Proof. exact join_recoverable. Qed.
Print Assumptions c06_join_errors_recoverable.

Theorem c06_join_member_id_required :
  joinRetryDispatch MEMBER_ID_REQUIRED = [ASetMemberId; ARetryJoin] /\
  (forall c, c <> MEMBER_ID_REQUIRED -> joinRetryDispatch c = []).
Proof. split; [exact join_member_id_required | exact join_retry_only_member_id_required]. Qed.
Print Assumptions c06_join_member_id_required.

Theorem c06_join_fatal_reported :
  forall c, In c kafka_join_fatal_codes -> joinDispatch c = [ARaiseSame].
Proof. exact join_fatal_reported. Qed.
Print Assumptions c06_join_fatal_reported.

Theorem c06_sync_errors_recoverable :
  forall c, In c kafka_sync_codes -> recovers (syncDispatch c) = true.
Proof. exact sync_recoverable. Qed.
Print Assumptions c06_sync_errors_recoverable.

(* for every integer: any SyncGroup error requests a rejoin before anything else *)
Theorem c06_sync_error_requests_rejoin :
  forall c, c <> 0%Z -> exists rest, syncDispatch c = ARequestRejoin :: rest.
Proof. exact sync_error_requests_rejoin. Qed.
Print Assumptions c06_sync_error_requests_rejoin.

Theorem c06_commit_error_actions :
  (forall c, In c kafka_commit_codes -> fatal (commitDispatch c) = false /\ has AErrored (commitDispatch c) = true) /\
  (forall c, In c [15; 16]%Z -> has ACoordinatorDead (commitDispatch c) = true) /\
  (forall c, In c [22; 25]%Z -> has AResetGeneration (commitDispatch c) = true) /\
  has ARequestRejoin (commitDispatch 27%Z) = true.
Proof. exact commit_actions. Qed.
Print Assumptions c06_commit_error_actions.

(* the hand model of perform_group_join used above classifies join errors as the source does *)
Theorem c06_join_model_agrees_with_source : forall e c,
  In c (code_of e) -> classify_join joinRetryDispatch joinDispatch c = model_class e.
Proof. exact join_model_agrees_with_source. Qed.
Print Assumptions c06_join_model_agrees_with_source.

(* Convergence, full statement (NOT proved; decided per run by the simulator monitor): from every
   reachable state of the membership model, a quiet continuation exists after which every live
   member is stable in the latest generation. *)
Definition C06_converges_full : Prop :=
  forall tr s, Group.run Group.init tr = Some s ->
  exists tr' s', Group.run s tr' = Some s' /\
    forall m x, Group.lookup m (Group.mem s') = Some x -> Group.ph x = Group.PStable.

Example c06_script_example :
  join_script [1; 2] 0 [JoinErr (MemberIdRequired 7); JoinOk 3 7 true; SyncOk]
  = ([RJoin [1; 2] 0; RJoin [1; 2] 7; RSync 3 7 true], Joined).
Proof. reflexivity. Qed.

(* ==== Convergence clause on the quiet-period model (model/C06_Converge.v; proofs proof/C06_conv_*.v, C06_converge.v) =====
   The model: the group coordinator (after harness/simkit/groupcoord.py, Kafka's classic protocol) composed with any
   number of members; a member's reaction to a reply code is the translated dispatch chain of that handler (above) applied
   to the code the modelled coordinator answers; quiet steps only: member actions (find the coordinator, JoinGroup,
   SyncGroup, heartbeat, commit - each split into request and reply) and the expiry of orphan ids.  Tied to the real
   consumers by trace acceptance on every simulated run (harness/c06_converge.py): the quiet suffix of each run is
   replayed inside Coq from a state read off the real objects, which must satisfy [inv_b].
   Timing / fairness assumptions (what the quiet steps do not contain): live members answer within the session,
   rebalance and request timeouts; only orphan ids expire, each at most once; FindCoordinator answers the current
   coordinator; subscriptions do not change (A1-A5 in the model file).

   What these statements cover of [C06_converges_full] above: for EVERY state satisfying [inv_b] (not only the ones
   reachable in the older Group.v model), for every number of members and EVERY schedule of quiet steps - convergence in
   the generation the coordinator ends in, heartbeat tasks running, no further JoinGroup.  What remains outside: real time
   (the assumptions above are hypotheses on the schedule, not derived from timeouts), the environment's actions themselves
   (joins, leaves, crashes, failovers, injected errors, subscription changes: they are what leads to the state the
   theorems start from - that this state satisfies [inv_b] is checked on every simulated run, not proved), and the
   assignment-coverage clause (C14 / the simulation monitor). *)
From Verif Require Import C06_Converge C06_converge.

(* A converged state (coordinator Stable, every live member settled in its generation with the heartbeat task
   running and no rejoin flag, no orphan ids) stays converged under every quiet step; every step enabled in it
   is a no-op heartbeat / commit exchange; none is a JoinGroup: no further rebalance. *)
Theorem c06_converged_closed : forall s l s',
  inv_b s = true -> converged_b s = true -> step s l = Some s' ->
  converged_b s' = true /\ inv_b s' = true /\ is_send_join l = false /\ noop_b s l = true.
Proof. exact converged_closed. Qed.
Print Assumptions c06_converged_closed.

(* The variant: in every state satisfying the invariant, EVERY enabled quiet step preserves the invariant, strictly
   decreases [mu] unless it is a no-op heartbeat / commit exchange (which does not increase it); and unless the state is
   converged a real step is enabled, at the latest after one no-op that consumes a silent reply still on the wire. *)
Theorem c06_quiet_progress : forall s, inv_b s = true ->
  (forall l s', step s l = Some s' ->
     inv_b s' = true /\ (noop_b s l = false -> mu s' < mu s) /\ (noop_b s l = true -> mu s' <= mu s))
  /\ (converged_b s = false ->
      exists l s', step s l = Some s' /\
        (noop_b s l = false \/ (exists l2 s2, step s' l2 = Some s2 /\ noop_b s' l2 = false))).
Proof. exact quiet_progress. Qed.
Print Assumptions c06_quiet_progress.

(* Hence: every quiet execution from such a state contains at most [mu s] steps that are not no-ops, and every
   execution that contains that many ends converged - every live member Stable in the coordinator's generation with
   its heartbeat task running and no rejoin flag.  (No bound on the number of members; no-ops are not counted, so the
   fairness needed is only that real steps keep being taken while enabled - which [c06_quiet_progress] guarantees
   they are.) *)
Theorem c06_quiet_converges : forall s ls s', inv_b s = true -> run s ls = Some s' ->
  inv_b s' = true /\ count_real s ls <= mu s /\
  (mu s <= count_real s ls ->
     converged_b s' = true /\
     forall m, In m (s_ms s') -> m_live m = true ->
       m_gen m = c_gen (s_c s') /\ m_hb m = true /\ m_rejoin m = false /\ m_ph m = PIdle
       /\ In (m_id m) (ids (c_ents (s_c s'))) /\ c_st (s_c s') = CStable).
Proof. exact quiet_converges. Qed.
Print Assumptions c06_quiet_converges.

(* ... and such an execution exists from every state satisfying the invariant. *)
Theorem c06_quiet_schedule_exists : forall s, inv_b s = true ->
  exists ls s', run s ls = Some s' /\ converged_b s' = true /\ inv_b s' = true.
Proof. intros s Hi. exact (quiet_schedule_exists (mu s) s Hi (le_n _)). Qed.
Print Assumptions c06_quiet_schedule_exists.

(* non-vacuity: three members, one with a stale generation, one orphan id in the table *)
Definition c06_example_state : state :=
  mkS (mkC 5 CStable [mkE 1 false false; mkE 2 false false; mkE 3 false false; mkE 7 false false] [] 1)
      [mkM 0 true 1 5 PIdle false CkOk true 0 None None None;
       mkM 1 true 2 4 PIdle false CkOk true 0 None None None;
       mkM 2 true 3 5 PIdle false CkOk true 0 None None None].
Definition c06_example_schedule : list label :=
  [LHbSend 1; LHbRecv 1; LSendJoin 1 true 8; LRecv 1; LSendJoin 1 true 9; LHbSend 0; LHbRecv 0; LSendJoin 0 true 9;
   LHbSend 2; LHbRecv 2; LSendJoin 2 true 9; LExpire 2 false; LExpire 7 false; LRecv 0; LSendSync 0; LRecv 0; LRecv 1;
   LSendSync 1; LRecv 1; LRecv 2; LSendSync 2; LRecv 2].
Example c06_example_invariant : inv_b c06_example_state = true /\ converged_b c06_example_state = false.
Proof. split; vm_compute; reflexivity. Qed.
Example c06_example_converges :
  match run c06_example_state c06_example_schedule with
  | Some s' => converged_b s' && inv_b s' && (c_gen (s_c s') =? 6) && (count_real c06_example_state c06_example_schedule =? 22)
  | None => false
  end = true.
Proof. vm_compute. reflexivity. Qed.
