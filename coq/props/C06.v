(* C06 — Group membership converges and is not disturbed by the member itself.
   Public statements.  (i) model/C06_JoinScript.v: perform_group_join as a function of the
   coordinator's replies, tied to the real method by exhaustive differential testing over reply
   scripts (harness/c06.py); (ii) the convergence clause is decided on the real consumers under
   the simulator by a monitor (quiet period => all live members in the latest generation,
   heartbeating, full coverage, no further rebalance); its model-level proof is not done: the full
   statement stays visible below and the check is labelled partial for that clause. *)
From Coq Require Import List Bool Arith.
From Verif Require Import C06_JoinScript C06_proof Group.
Import ListNotations.

Theorem c06_join_advertises_all : forall rs asg mid,
  Forall (fun q => match q with RJoin ps _ => ps = asg | RSync _ _ _ => True end)
         (fst (join_script asg mid rs)).
Proof. exact join_advertises_all. Qed.
Print Assumptions c06_join_advertises_all.

Theorem c06_join_then_sync : forall asg mid g m l rs,
  fst (join_script asg mid (JoinOk g m l :: rs)) = [RJoin asg mid; RSync g m l].
Proof. exact join_then_sync. Qed.
Print Assumptions c06_join_then_sync.

Theorem c06_join_then_sync_after_member_id_required : forall ms asg mid g m l rs,
  exists joins,
    fst (join_script asg mid (map (fun x => JoinErr (MemberIdRequired x)) ms ++ JoinOk g m l :: rs))
    = joins ++ [RSync g m l] /\
    Forall (fun q => match q with RJoin ps _ => ps = asg | RSync _ _ _ => False end) joins /\
    length joins = S (length ms).
Proof. exact join_then_sync_after_member_id_required. Qed.
Print Assumptions c06_join_then_sync_after_member_id_required.

Theorem c06_member_id_required_retry : forall asg mid m rs,
  exists q o, join_script asg mid (JoinErr (MemberIdRequired m) :: rs) = (RJoin asg mid :: q, o) /\
              join_script asg m rs = (q, o).
Proof. exact member_id_required_retry. Qed.
Print Assumptions c06_member_id_required_retry.

(* Convergence, full statement (NOT proved; decided per run by the simulator monitor): from every
   reachable state of the membership model, a quiet continuation exists after which every live
   member is stable in the latest generation. *)
Definition C06_converges_full : Prop :=
  forall tr s, Group.run Group.init tr = Some s ->
  exists tr' s', Group.run s tr' = Some s' /\
    forall m x, Group.lookup m (Group.mem s') = Some x -> Group.ph x = Group.PStable.

Example c06_script_example :
  join_script [1; 2] 0 [JoinErr (MemberIdRequired 7); JoinOk 3 7 true; SyncOk]
  = ([RJoin [1; 2] 0; RJoin [1; 2] 7; RSync 3 7 true], Joined).
Proof. reflexivity. Qed.
