(* C08 — Isolation filter: no aborted, no unstable, no control records delivered.
   Public statements only.  Model: model/C08_Log.v (logs built from the interleaved operations of
   any number of producers, the broker's answer to a fetch, `unpack` = the Gallina version of
   PartitionRecords._unpack_records); `_consume_aborted_up_to` inside `unpack` is
   gen/ConsumeAborted.v, regenerated from aiokafka/consumer/fetcher.py on every run.
   Proofs: proof/C08_consume.v, C08_wf.v, C08_unpack.v, C08_main.v. *)
From Coq Require Import ZArith List Bool Lia.
From Verif Require Import Imp ConsumeAborted C08_Log C08_consume C08_wf C08_unpack C08_main.
Import ListNotations.
Open Scope Z_scope.

(* The translated _consume_aborted_up_to, for every queue and every offset: pops exactly the
   maximal prefix of entries with first_offset <= batch_offset, adds their producers, never
   raises, never runs out of fuel. *)
Theorem c08_consume_aborted_spec : forall o q,
  ConsumeAborted.post o q = (q_drop o q, q_take o q) /\ ConsumeAborted.py o q = Ok tt.
Proof. exact consume_spec. Qed.
Print Assumptions c08_consume_aborted_spec.

(* read_committed is exact.  For every log built from any interleaving of producers'
   transactions, every fetch offset f, every cut k of the log below the last stable offset, and
   every aborted-transaction index the broker may send (any order): the iterator does not
   raise and delivers exactly the records r of the answer with r.offset >= f that sit in a
   data batch that is non-transactional or whose transaction committed — in log order, each
   once — and all of them are below the LSO. *)
Theorem c08_rc_exact : forall ops f k idx,
  forallb valid_op ops = true ->
  let s := build ops in
  let resp := response s (lso s) f k in
  index_ok s f resp idx ->
  let x := unpack RC f idx resp in
  raised x = false /\
  delivered x = view_of s RC f (lso s) resp /\
  (forall r, In r (delivered x) <->
     exists b, In b resp /\ b_ctl b = false /\ (b_txn b = false \/ committed s b = true) /\
               In r (b_recs b) /\ f <= r_off r) /\
  (forall r, In r (delivered x) -> r_off r < lso s).
Proof. exact rc_exact. Qed.
Print Assumptions c08_rc_exact.

(* read_uncommitted is exact: every data record >= f of the answer (below the high
   watermark), nothing else; whatever index is passed *)
Theorem c08_ru_exact : forall ops f k idx,
  forallb valid_op ops = true ->
  let s := build ops in
  let resp := response s (hw s) f k in
  let x := unpack RU f idx resp in
  raised x = false /\
  delivered x = view_of s RU f (hw s) resp /\
  (forall r, In r (delivered x) <->
     exists b, In b resp /\ b_ctl b = false /\ In r (b_recs b) /\ f <= r_off r) /\
  (forall r, In r (delivered x) -> r_off r < hw s).
Proof. exact ru_exact. Qed.
Print Assumptions c08_ru_exact.

(* No marker is ever delivered — for ANY list of batches (well-formed or not), any index, both
   levels, even when the iterator raises: every delivered record was read out of a batch that
   is not a control batch. *)
Theorem c08_no_markers : forall i f idx bs r,
  In r (delivered (unpack i f idx bs)) ->
  exists b, In b bs /\ b_ctl b = false /\ In r (b_recs b).
Proof. exact no_markers_any. Qed.
Print Assumptions c08_no_markers.

(* ... and on a well-formed log nothing is delivered at the offset of a marker *)
Theorem c08_no_marker_offsets : forall ops i f k idx r c,
  forallb valid_op ops = true ->
  let s := build ops in
  In r (delivered (unpack i f idx (response s (bound s i) f k))) ->
  In c (batches s) -> b_ctl c = true -> r_off r <> b_base c.
Proof. exact no_marker_offsets_built. Qed.
Print Assumptions c08_no_marker_offsets.

(* The position after exhausting ANY non-empty list of batches without raising is the end of
   its last batch, whatever was filtered (control batches, aborted batches, batches emptied by
   compaction, records below the fetch offset). *)
Theorem c08_position_is_end_of_last_batch : forall i f idx bs,
  bs <> [] -> raised (unpack i f idx bs) = false ->
  position (unpack i f idx bs) = b_next (last bs dummy_batch).
Proof. exact position_any. Qed.
Print Assumptions c08_position_is_end_of_last_batch.

(* On a well-formed log: a non-empty answer moves the position to the end of its last batch,
   strictly past the fetch offset and past every batch of the answer; and an answer with room
   for one batch is non-empty as long as a batch at or after f remains below the bound — the
   consumer never stalls and never re-fetches a batch. *)
Theorem c08_position_advances : forall ops i f k idx,
  forallb valid_op ops = true ->
  let s := build ops in
  let resp := response s (bound s i) f k in
  index_req s i f resp idx ->
  let x := unpack i f idx resp in
  (resp <> [] ->
     position x = b_next (last resp dummy_batch) /\ f < position x /\
     (forall b, In b resp -> b_last b < position x)) /\
  (resp = [] -> position x = f) /\
  (forall b, In b (batches s) -> f <= b_last b < bound s i -> (1 <= k)%nat -> resp <> []).
Proof. exact position_advances. Qed.
Print Assumptions c08_position_advances.

(* Cut invariance.  Consume the log from f through ANY sequence of answers (each cut anywhere,
   each with any admissible index, each next fetch starting at the position reached): nothing
   raises and what has been delivered is exactly the visible part of the log between f and the
   position reached — a function of the log and the two offsets only, not of the cuts. *)
Theorem c08_cut_invariance : forall ops i f cuts,
  forallb valid_op ops = true ->
  let s := build ops in
  cuts_ok s i f cuts ->
  let x := fetch_seq s i f cuts in
  raised x = false /\ delivered x = view s i f (position x) /\ f <= position x.
Proof. exact cut_invariance. Qed.
Print Assumptions c08_cut_invariance.

(* ... in particular one big answer delivers the whole visible log from f, and any sequence of
   cuts that gets past the last batch below the bound delivers the same list *)
Theorem c08_cuts_equal_one_big_response : forall ops i f cuts k idx,
  forallb valid_op ops = true ->
  let s := build ops in
  cuts_ok s i f cuts ->
  (forall b, In b (batches s) -> b_last b < bound s i -> b_last b < position (fetch_seq s i f cuts)) ->
  (List.length (batches s) <= k)%nat ->
  index_req s i f (response s (bound s i) f k) idx ->
  delivered (fetch_seq s i f cuts) = delivered (unpack i f idx (response s (bound s i) f k)) /\
  delivered (fetch_seq s i f cuts) = view s i f (bound s i).
Proof. exact cuts_equal_one_big_response. Qed.
Print Assumptions c08_cuts_equal_one_big_response.

(* The index Kafka computes (aborted transactions with marker >= f and first offset < u, u at or
   after the end of the returned data), in any order, satisfies the index hypothesis. *)
Theorem c08_kafka_index_admissible : forall ops bnd f k u idx,
  forallb valid_op ops = true ->
  let s := build ops in
  (forall b, In b (response s bnd f k) -> b_base b < u) ->
  (forall e, In e (kafka_index s f u) <-> In e idx) ->
  index_ok s f (response s bnd f k) idx.
Proof. exact kafka_index_admissible. Qed.
Print Assumptions c08_kafka_index_admissible.

(* Coherence of the derived notions: every transactional data batch of a constructed log is in
   exactly one of the states committed / aborted / open, and below the LSO none is open. *)
Theorem c08_txn_trichotomy : forall ops b,
  forallb valid_op ops = true ->
  let s := build ops in
  In b (batches s) -> is_data_txn b = true ->
  ((committed s b = true /\ aborted s b = false /\ in_open s b = false) \/
   (committed s b = false /\ aborted s b = true /\ in_open s b = false) \/
   (committed s b = false /\ aborted s b = false /\ in_open s b = true)) /\
  (b_last b < lso s -> in_open s b = false).
Proof. exact txn_trichotomy_built. Qed.
Print Assumptions c08_txn_trichotomy.

(* ------------------------------------------------------------------------------------------ *)
(* Non-vacuity: a concrete log of two transactional producers (7: one aborted transaction and
   one still open; 9: one committed transaction, compacted) and a plain batch.
     offsets 0-1  producer 7, transactional     (aborted)
             2    producer 9, transactional     (committed)
             3-4  non-transactional
             5    producer 7, transactional     (aborted)
             6    ABORT marker of 7
             7-8  producer 9, transactional, record 7 compacted away  (committed)
             9    COMMIT marker of 9
             10   producer 7, transactional     (open)        LSO = 10, HW = 11 *)
Definition ex_ops : list op :=
  [ ODataOp 7 true 2 (Some [(0, 100); (1, 101)]);
    ODataOp 9 true 1 (Some [(0, 200)]);
    ODataOp (-1) false 2 (Some [(0, 300); (1, 301)]);
    ODataOp 7 true 1 (Some [(0, 102)]);
    OMarkerOp 7 false;
    ODataOp 9 true 2 (Some [(1, 201)]);
    OMarkerOp 9 true;
    ODataOp 7 true 1 (Some [(0, 103)]) ].

Example c08_ex_valid : forallb valid_op ex_ops = true.
Proof. reflexivity. Qed.

Example c08_ex_lso_hw : lso (build ex_ops) = 10 /\ hw (build ex_ops) = 11.
Proof. split; reflexivity. Qed.

Example c08_ex_index : kafka_index (build ex_ops) 0 10 = [(7, 0)].
Proof. reflexivity. Qed.

(* the hypotheses of c08_rc_exact hold for this log, fetch offset 1 (inside the aborted
   transaction and inside its first batch), the whole log as one answer *)
Example c08_ex_hyps :
  let s := build ex_ops in
  index_ok s 1 (response s (lso s) 1 100) (kafka_index s 1 10).
Proof.
  cbv zeta. eapply c08_kafka_index_admissible with (u := 10); [reflexivity| |tauto].
  intros b Ib. vm_compute in Ib.
  repeat (destruct Ib as [<-|Ib]; [vm_compute; reflexivity|]). contradiction.
Qed.

Example c08_ex_rc :
  let s := build ex_ops in
  unpack RC 1 (kafka_index s 1 10) (response s (lso s) 1 100) =
  ([mkrec 2 200; mkrec 3 300; mkrec 4 301; mkrec 8 201], 10, false).
Proof. vm_compute. reflexivity. Qed.

Example c08_ex_ru :
  let s := build ex_ops in
  unpack RU 1 [] (response s (hw s) 1 100) =
  ([mkrec 1 101; mkrec 2 200; mkrec 3 300; mkrec 4 301; mkrec 5 102; mkrec 8 201; mkrec 10 103],
   11, false).
Proof. vm_compute. reflexivity. Qed.

(* three cuts (2 batches, then 1, then the rest) are admissible and deliver the same list *)
Example c08_ex_cuts :
  let s := build ex_ops in
  let cuts := [(2%nat, [(7, 0)]); (1%nat, [(7, 0)]); (100%nat, [(7, 0)])] in
  fetch_seq s RC 1 cuts = ([mkrec 2 200; mkrec 3 300; mkrec 4 301; mkrec 8 201], 10, false).
Proof. vm_compute. reflexivity. Qed.
