(* C02 — Every send future resolves once, with the record's true coordinates.
   Public statements only.  Models: model/C02_Done.v (MessageBatch.done/done_noack/failure,
   response decoding per produce version; hand model proved equal to the functions translated from the
   source on every run - gen/DoneGen.v - and differentially tested against the real methods) and model/Producer.v (batch life cycle; tied by trace
   acceptance of the real producer under the simulator). *)
From Coq Require Import ZArith List Bool.
From Verif Require Import DispatchActs ProduceDispatch C02_dispatch.
From Verif Require Import Imp IncrSeq Producer C01_proof C02_Done C02_proof DoneGen C02_gen_proof.
Import ListNotations.
Open Scope Z_scope.

(* the i-th unresolved future gets offset = base + rel_i (an unknown base offset, -1, stays -1: the reply to a
   duplicate whose metadata the broker no longer retains); its own timestamp and type 0 when the
   broker reports -1 (CreateTime), else the broker's timestamp and type 1; already resolved
   futures are untouched; nothing else is emitted *)
Theorem c02_done_coordinates : forall base bts ls fs k r,
  In (k, r) (done base bts ls fs) <->
  exists f, nth_error fs k = Some f /\ f_done f = false /\
    r = RMeta (if base <? 0 then -1 else base + f_rel f) (if bts =? -1 then f_ts f else bts) (if bts =? -1 then 0 else 1) ls.
Proof. exact done_coordinates. Qed.
Print Assumptions c02_done_coordinates.

(* tie T: the three resolution methods as translated from aiokafka/producer/message_accumulator.py on this run
   (gen/DoneGen.v) ARE the model functions the statements of this file speak about, for every input *)
Theorem c02_done_is_translated : forall base bts ls fs,
  DoneGen.done_py base bts ls fs = done base bts ls fs /\
  DoneGen.done_noack_py fs = done_noack fs /\
  DoneGen.failure_py fs = failure fs.
Proof. intros. exact (conj (done_py_eq base bts ls fs) (conj (done_noack_py_eq fs) (failure_py_eq fs))). Qed.
Print Assumptions c02_done_is_translated.

(* hence the coordinates statement holds of the translated source function itself *)
Theorem c02_done_coordinates_of_source : forall base bts ls fs k r,
  In (k, r) (DoneGen.done_py base bts ls fs) <->
  exists f, nth_error fs k = Some f /\ f_done f = false /\
    r = RMeta (if base <? 0 then -1 else base + f_rel f) (if bts =? -1 then f_ts f else bts) (if bts =? -1 then 0 else 1) ls.
Proof. intros. rewrite done_py_eq. apply done_coordinates. Qed.
Print Assumptions c02_done_coordinates_of_source.

(* the batch's own future (returned by send_batch()): base offset and the broker's timestamp *)
Theorem c02_batch_future_of_source : forall base bts ls,
  DoneGen.done_main_py base bts ls = RMeta base bts (if bts =? -1 then 0 else 1) ls.
Proof. exact done_main_py_eq. Qed.
Print Assumptions c02_batch_future_of_source.

(* an acknowledgement without a base offset (a duplicate whose metadata the broker no longer retains: base_offset -1)
   names no offset for any record of the batch (repair F43: it used to report -1 + relative offset) *)
Theorem c02_unknown_base_offset_names_no_offset : forall base bts ls fs k r,
  base < 0 -> In (k, r) (DoneGen.done_py base bts ls fs) -> exists ts ty, r = RMeta (-1) ts ty ls.
Proof. exact unknown_base_names_no_offset. Qed.
Print Assumptions c02_unknown_base_offset_names_no_offset.

Theorem c02_done_once : forall base bts ls fs, NoDup (map fst (done base bts ls fs)).
Proof. exact done_once. Qed.
Print Assumptions c02_done_once.

Theorem c02_acks0 : forall fs k r, In (k, r) (done_noack fs) -> r = RNone.
Proof. exact noack_no_metadata. Qed.
Print Assumptions c02_acks0.

(* in every accepted run each accepted record is acknowledged or failed at most once in total *)
Theorem c02_once : forall tr s' vs r,
  run init0 tr = Some (s', vs) -> cnt r (accepted s') = 1%nat ->
  (cnt r (acked s') + cnt r (failed s') <= 1)%nat.
Proof. exact resolved_once. Qed.
Print Assumptions c02_once.

(* flush()/stop() may return only when every previously accepted record is resolved *)
Theorem c02_flush_stop_wait : forall tr s' vs s'' o r,
  run init0 tr = Some (s', vs) -> step s' FlushRet = Some (s'', o) ->
  (cnt r (acked s') + cnt r (failed s'))%nat = cnt r (accepted s').
Proof. exact flush_returns_when_all_resolved. Qed.
Print Assumptions c02_flush_stop_wait.

(* with idempotence (and no sequence wrap within the run) retriable faults alone never fail
   an accepted record: the failed list stays empty in every accepted run *)
Theorem c02_idem_no_failure_partial : forall tr s' vs,
  count_accepts tr < 2147483648 -> run init0 tr = Some (s', vs) -> failed s' = [].
Proof. exact idem_no_failure. Qed.
Print Assumptions c02_idem_no_failure_partial.

(* liveness, at model level: a fault-free round of the sender resolves the head batch, so after
   faults cease every accepted record is resolved within (number of queued batches) rounds.
   "Bounded time" of the full statement is virtual time in the simulator (monitor) and rounds
   here — hence partial. *)
Definition C02_eventual_full : Prop :=
  forall s, Inv s -> exists tr s' vs, run s tr = Some (s', vs) /\ uq s' = [] /\ pend s' = None.
Theorem c02_fault_free_round_partial : forall s b rest,
  Inv s -> pend s = None -> uq s = b :: rest ->
  base s + zlen' (accepted s) < 2147483648 ->
  exists s', run s [Drain; Arrive; ReplyOk] = Some (s', [Appended]) /\
             uq s' = rest /\ pend s' = None /\ acked s' = acked s ++ b.
Proof. exact fault_free_round. Qed.
Print Assumptions c02_fault_free_round_partial.

(* ---- the Produce-response dispatch, regenerated from sender.py (handle_response, _can_retry) and
   errors.py (retriable / invalid_metadata attributes) on every run and validated against the real
   handler for every code -1..100 x idempotent x expired ------------------------------------------ *)

(* "With idempotence enabled, retriable faults alone never fail an accepted record": whatever
   retriable code a Produce reply carries, and however old the batch is, it is re-enqueued *)
Theorem c02_retriable_never_fails_idempotent : forall c expired, In c kafka_produce_retriable ->
  has AFail (produceDispatch c true expired) = false /\ has AReenqueue (produceDispatch c true expired) = true.
Proof. exact retriable_never_fails_idempotent. Qed.
Print Assumptions c02_retriable_never_fails_idempotent.

Theorem c02_retriable_retried_until_expiry : forall c idem, In c kafka_produce_retriable ->
  has AReenqueue (produceDispatch c idem false) = true.
Proof. exact retriable_retried_until_expiry. Qed.
Print Assumptions c02_retriable_retried_until_expiry.

Theorem c02_leader_errors_refresh_metadata : forall c idem, In c leader_errors ->
  has AMetadataUpdate (produceDispatch c idem false) = true.
Proof. exact leader_errors_refresh_metadata. Qed.
Print Assumptions c02_leader_errors_refresh_metadata.

Theorem c02_duplicate_sequence_is_success : forall idem expired,
  produceDispatch DUPLICATE_SEQUENCE_NUMBER idem expired = [ADone].
Proof. exact duplicate_sequence_is_success. Qed.
Print Assumptions c02_duplicate_sequence_is_success.

(* for every integer error code: a reply resolves, fails or re-enqueues the batch - exactly one of them *)
Theorem c02_reply_has_exactly_one_outcome : forall c idem expired,
  n_outcomes (produceDispatch c idem expired) = 1%nat.
Proof. exact exactly_one_outcome. Qed.
Print Assumptions c02_reply_has_exactly_one_outcome.

Theorem c02_failure_only_if : forall c idem expired,
  has AFail (produceDispatch c idem expired) = true -> retriable c = false \/ (idem = false /\ expired = true).
Proof. exact failure_only_if. Qed.
Print Assumptions c02_failure_only_if.

Example c02_done_example :
  done 100 (-1) 0 [mkF false 0 1000; mkF true 1 2000; mkF false 2 3000]
  = [(0%nat, RMeta 100 1000 0 0); (2%nat, RMeta 102 3000 0 0)].
Proof. reflexivity. Qed.
