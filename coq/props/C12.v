(* placeholder while the correspondence is being validated *)
From Coq Require Import ZArith List Bool.
From Verif Require Import Imp NextCorr C12_Conn.
Theorem c12_placeholder : True. Proof. exact I. Qed.
