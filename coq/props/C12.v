(* C12 — Responses reach exactly their requests; connection failure fails all waiters.
   Public statements only.  The executable model of AIOKafkaConnection's send / reader task /
   _handle_frame / close is model/C12_Conn.v; NextCorr.v is regenerated from
   AIOKafkaConnection._next_correlation_id on every run; proofs are in proof/C12_proof.v.

   Every theorem holds for every body decoder [decodes : api -> bytes -> bool] (the model's
   stand-in for RESPONSE_TYPE.decode, property C11) and every initial value of the counter.

   Vocabulary: the log of a state records every resolution of a waiter's future, newest first,
   as (waiter id, the correlation id its request was sent with, quirk flag, outcome);
   [outcome s id = None] means waiter id is still pending. *)
From Coq Require Import ZArith List Bool.
From Verif Require Import Imp NextCorr C12_Conn C12_proof.
Import ListNotations.
Open Scope Z_scope.

(* 1. Fragmentation is irrelevant: feeding the chunks one by one or their concatenation at
   once ends in the same state (same waiter outcomes, same queue, same unread bytes), from every
   state in which the reader task has consumed all complete frames — in particular after any
   prefix of events from the initial state.  Chunks may split the 4-byte size, the header, the
   tagged fields or the body anywhere; they may be empty. *)
Theorem c12_chunking_irrelevant :
  forall (decodes : Z -> bytes -> bool) (cs : list bytes) (s : state),
  drained s -> run decodes s (map Feed cs) = run decodes s [Feed (concat cs)].
Proof. exact chunking_irrelevant. Qed.
Print Assumptions c12_chunking_irrelevant.

Theorem c12_chunking_irrelevant_reachable :
  forall decodes c0 (pre : list event) (cs : list bytes),
  run decodes (init c0) (pre ++ map Feed cs) = run decodes (init c0) (pre ++ [Feed (concat cs)]).
Proof. exact chunking_reachable. Qed.
Print Assumptions c12_chunking_irrelevant_reachable.

(* 2. Exact delivery.  STRICT statement: whenever a waiter's future is resolved with a response
   frame, the correlation id in the frame's header is the one the waiter's request was sent
   with.  The faithful model REFUTES it: _handle_frame contains the "Kafka 0.8.2 quirk" —
   a FindCoordinatorRequest_v0 waiter accepts a response carrying correlation id 0. *)
Definition c12_exact_delivery_full : Prop := exact_delivery_strict.

Theorem c12_exact_delivery_refuted : ~ c12_exact_delivery_full.
Proof. exact exact_delivery_strict_refuted. Qed.
Print Assumptions c12_exact_delivery_refuted.

(* the witness: counter 4, one FindCoordinator v0 request (sent with id 5), one frame with id 0:
   the waiter gets the frame and the connection stays open *)
Example c12_quirk_witness :
  log (run (fun _ _ => true) (init 4) quirk_trace) = [mkL 0 (Some 5) true (Resp [0; 0; 0; 0; 0; 0])]
  /\ open (run (fun _ _ => true) (init 4) quirk_trace) = true.
Proof. exact quirk_witness. Qed.

(* What does hold, for every event sequence (sends of any kind, any chunks, timeouts,
   cancellations, EOF, reset, close, in any order):
   (a) a waiter resolved with a frame: the frame's header parses and its correlation id equals
       the waiter's — the only exception being a quirk waiter (FindCoordinator v0) whose own id
       is not 0 receiving id 0;
   (b) responses are delivered in request order (waiter ids of delivered entries increase);
   (c) no waiter's future is ever resolved twice.
   Missing w.r.t. the full statement: exactly the quirk disjunct of (a). *)
Theorem c12_exact_delivery_partial :
  forall decodes c0 evs,
  let s := run decodes (init c0) evs in
  (forall l, In l (log s) -> resp_ok l) /\ dsorted (log s) /\ NoDup (ids_l (log s)).
Proof. exact exact_delivery. Qed.
Print Assumptions c12_exact_delivery_partial.

(* (a) spelled out for waiters that are not FindCoordinator v0 *)
Corollary c12_exact_delivery_nonquirk :
  forall decodes c0 evs l f,
  In l (log (run decodes (init c0) evs)) -> l_quirk l = false -> l_why l = Resp f ->
  exists flex rc body, parse_header flex f = Some (rc, body) /\ l_corr l = Some rc.
Proof.
  intros decodes c0 evs l f Hin Hq Hw.
  destruct (exact_delivery decodes c0 evs) as [H _].
  destruct (H l Hin f Hw) as (flex & rc & body & Hp & [Hc|[Hq' _]]).
  - exists flex, rc, body. split; assumption.
  - rewrite Hq in Hq'. discriminate.
Qed.
Print Assumptions c12_exact_delivery_nonquirk.

(* send() takes the next id from the translated _next_correlation_id and queues it *)
Theorem c12_send_assigns :
  forall decodes s api flex quirk,
  open s = true ->
  let s' := step decodes s (Send api flex quirk) in
  corr s' = NextCorr.post (corr s) /\
  reqs s' = reqs s ++ [mkE (nsent s) (Some (NextCorr.post (corr s))) api flex quirk false] /\
  NextCorr.py (corr s) = Ok (NextCorr.post (corr s)).
Proof. exact send_assigns. Qed.
Print Assumptions c12_send_assigns.

(* 3. Failure fails all.  In every reachable state with the connection closed the queue is
   empty and NO waiter is pending: each of the nsent waiters has an outcome.  EOF, reset and
   close() close; so do an unsolicited frame, an unparsable header, a correlation mismatch
   (the head waiter gets CorrelationIdError, nobody gets the frame), an undecodable body for
   a pending head, and a negative size prefix.  Closed is absorbing.  The futures failed by
   close get KafkaConnectionError (ConnErr), never a response. *)
Theorem c12_failure_fails_all :
  forall decodes c0 evs,
  let s := run decodes (init c0) evs in
  open s = false -> reqs s = [] /\ forall id, (id < nsent s)%nat -> outcome s id <> None.
Proof. exact failure_fails_all. Qed.
Print Assumptions c12_failure_fails_all.

Theorem c12_failures_close :
  forall decodes s,
  (open (step decodes s Eof) = false /\ open (step decodes s Reset) = false /\
   open (step decodes s Close) = false) /\
  (forall f, reqs s = [] -> open (handle decodes s f) = false) /\
  (forall e tl c f, reqs s = e :: tl -> e_corr e = Some c -> parse_header (e_flex e) f = None ->
     open (handle decodes s f) = false) /\
  (forall e tl c f rc body, open s = true -> reqs s = e :: tl -> e_corr e = Some c ->
     parse_header (e_flex e) f = Some (rc, body) -> rc <> c ->
     (e_quirk e = false \/ c = 0 \/ rc <> 0) ->
     open (handle decodes s f) = false /\
     (e_done e = false -> In (log_of e CorrErr) (log (handle decodes s f))) /\
     (forall l, In l (log (handle decodes s f)) -> In l (log s) \/ delivered l = false)) /\
  (forall e tl c f rc body, reqs s = e :: tl -> e_corr e = Some c ->
     parse_header (e_flex e) f = Some (rc, body) -> rc = c -> e_done e = false ->
     decodes (e_api e) body = false -> open (handle decodes s f) = false) /\
  (forall n, open s = true -> extract (rbuf s) = BadSize -> open (drain decodes (S n) s) = false) /\
  (forall ev, open s = false -> open (step decodes s ev) = false) /\
  (forall c l, In l (log (close c s)) ->
     In l (log s) \/ (l_why l = ConnErr c /\
                      exists e, In e (reqs s) /\ e_done e = false /\ l_id l = e_id e)).
Proof.
  intros decodes s.
  split; [exact (closing_events decodes s)|].
  split; [exact (handle_unsolicited decodes s)|].
  split; [exact (handle_bad_header decodes s)|].
  split; [exact (handle_mismatch decodes s)|].
  split; [exact (handle_bad_body decodes s)|].
  split; [intros n; exact (drain_bad_size decodes n s)|].
  split; [exact (closed_stays_closed decodes s)|].
  intros c l. exact (close_log c s l).
Qed.
Print Assumptions c12_failures_close.

(* 4. Correlation ids — stated on the TRANSLATED function NextCorr (conn.py:583-585):
   it never raises, its result is (c + 1) mod 2^31 and lies in [0, 2^31); k successive calls
   from c give (c + k) mod 2^31; two ids handed out fewer than 2^31 calls apart differ — so
   with fewer than 2^31 requests sent since the oldest outstanding one, a new id is distinct
   from every outstanding id, wrap included.  In the model the counter stays in range. *)
Theorem c12_corr_range :
  (forall c, NextCorr.py c = Ok (NextCorr.post c) /\ NextCorr.post c = (c + 1) mod 2147483648 /\
             0 <= NextCorr.post c < 2147483648) /\
  (forall k c, 0 <= c < 2147483648 -> iter_corr k c = (c + Z.of_nat k) mod 2147483648) /\
  (forall c j k, 0 <= c < 2147483648 -> (j < k)%nat -> Z.of_nat k - Z.of_nat j < 2147483648 ->
                 iter_corr j c <> iter_corr k c) /\
  (forall decodes evs s, 0 <= corr s < 2147483648 -> 0 <= corr (run decodes s evs) < 2147483648).
Proof.
  split; [intros c; exact (conj (nextcorr_py c) (conj (nextcorr_post c) (nextcorr_range c)))|].
  split; [exact iter_corr_closed|].
  split; [exact iter_corr_distinct|].
  exact corr_range_run.
Qed.
Print Assumptions c12_corr_range.

(* ... and in the model: along any run of fewer than 2^31 events from a counter in range, the
   correlation ids of the requests in flight (raw SASL packets carry none) are pairwise
   distinct — whatever mixture of sends, no-response sends, deliveries, timeouts and wraps *)
Theorem c12_outstanding_ids_distinct :
  forall decodes c0 evs,
  0 <= c0 < 2147483648 -> Z.of_nat (length evs) <= 2147483648 ->
  NoDup (corrs (reqs (run decodes (init c0) evs))).
Proof. exact outstanding_distinct. Qed.
Print Assumptions c12_outstanding_ids_distinct.

(* the wrap itself *)
Example c12_wrap : NextCorr.post 2147483647 = 0 /\ iter_corr 3 2147483646 = 1.
Proof. split; reflexivity. Qed.

(* non-vacuity: a pipelined exchange with a flexible header split in the middle of the size
   prefix is delivered in order *)
Example c12_example :
  map (fun l => (l_id l, l_corr l)) (log (run (fun _ _ => true) (init 7)
     [Send 0 false false; Send 1 true false;
      Feed [0; 0]; Feed [0; 6; 0; 0; 0; 8; 1; 2; 0; 0; 0; 6; 0; 0; 0; 9; 0]; Feed [5]]))
  = [(1%nat, Some 9); (0%nat, Some 8)].
Proof. vm_compute. reflexivity. Qed.
