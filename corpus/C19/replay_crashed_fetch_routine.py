"""Replay of theorem c19_stop_after_internal_error_refuted on the real code (not run by the check: the crash is
injected at an internal point, no cluster condition or API input is known to reach it; DESIGN.md 9.7).
Run: PYTHONPATH=/repo AIOKAFKA_NO_EXTENSIONS=1 /venv/bin/python corpus/C19/replay_crashed_fetch_routine.py"""
import asyncio
from unittest import mock

from aiokafka.consumer.fetcher import Fetcher
from aiokafka.consumer.subscription_state import SubscriptionState
from aiokafka.structs import TopicPartition


async def main():
    client = mock.MagicMock()
    subs = SubscriptionState()
    f = Fetcher(client, subs)
    f._get_actions_per_node = mock.Mock(side_effect=RuntimeError("injected internal error"))
    subs.assign_from_user({TopicPartition("t", 0)})
    await asyncio.sleep(0.05)
    print("fetch task done:", f._fetch_task.done(), "exception:", repr(f._fetch_task.exception()))
    try:
        await f.close()
        print("Fetcher.close() completed")
    except Exception as e:  # noqa: BLE001
        print("Fetcher.close() raised", repr(e), "- AIOKafkaConsumer.stop() would skip client.close()")

asyncio.run(main())
