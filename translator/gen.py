#!/usr/bin/env python3
"""Regenerate coq/gen/*.v from the current /repo source.  Usage: gen.py [--repo R] [units…]
Exit status 0 = all requested units translated; 2 = some unit is outside the subset
(the message names the node).  Files are rewritten only when their content changes."""
import json
import os
import sys

HERE = os.path.dirname(os.path.abspath(__file__))
sys.path.insert(0, HERE)
from py2gallina import Unsupported, translate_unit, write_if_changed  # noqa: E402
from units import UNITS  # noqa: E402


def main(argv):
    repo = os.environ.get("VERIF_REPO", "/repo")
    out = os.path.join(HERE, "..", "coq", "gen")
    names = []
    i = 0
    while i < len(argv):
        if argv[i] == "--repo":
            repo = argv[i + 1]
            i += 2
        elif argv[i] == "--out":
            out = argv[i + 1]
            i += 2
        else:
            names.append(argv[i])
            i += 1
    names = names or list(UNITS)
    os.makedirs(out, exist_ok=True)
    status = 0
    report = {}
    for n in names:
        u = UNITS[n]
        path = os.path.join(out, n + ".v")
        try:
            text, sha, span = translate_unit(u, repo)
            changed = write_if_changed(path, text)
            report[n] = {"ok": True, "sha256": sha, "span": span, "changed": changed,
                         "file": u.file, "function": u.qualname}
        except (Unsupported, SyntaxError, OSError) as e:
            status = 2
            report[n] = {"ok": False, "error": str(e), "file": u.file, "function": u.qualname}
            # leave a file that cannot compile, so that a stale model is never used
            write_if_changed(path, f"(* translation of {u.file}:{u.qualname} FAILED: "
                             f"{str(e).replace('*)', '* )')} *)\nTranslationFailed.\n")
    print(json.dumps(report, indent=1))
    return status


if __name__ == "__main__":
    sys.exit(main(sys.argv[1:]))
