#!/usr/bin/env python3
"""schema2gallina — emit coq/gen/Schemas.v from the protocol classes of the repo's working tree.

Run as  /venv/bin/python translator/schema2gallina.py --repo /repo   with PYTHONPATH=<repo>
and AIOKAFKA_NO_EXTENSIONS=1 (harness/common.py: Check.regenerate_schemas).

It *imports* aiokafka.protocol.* (objects, not text), walks every RequestStruct / Response
subclass, the header structs and every other Struct subclass reachable after importing the
coordinator modules, every Request builder, and writes

  * one Gallina term of type Wire.ty per struct schema (`s_<ClassName>`),
  * `requests : list req_entry`  (name, _vN of the name, API_KEY, API_VERSION,
    FLEXIBLE_VERSION, class of build_request_header(), class of parse_response_header(),
    RESPONSE_TYPE name / key / version, SCHEMA, RESPONSE_TYPE.SCHEMA),
  * `responses : list resp_entry`, `aux_structs : list (string * ty)`,
  * `builders : list builder_entry` (API_KEY, ALLOW_UNKNOWN_API_VERSION, _CLASSES in order).

Fail closed: a field type that is not one of the known wire types (exact class identity
with aiokafka.protocol.types, String only with utf-8), a duplicate class name or a class
without the expected attributes makes the run exit 2 and leaves a Schemas.v that does not
compile.  The file is rewritten only when its content changes.
"""
from __future__ import annotations

import hashlib
import importlib
import json
import os
import pkgutil
import re
import sys

HERE = os.path.dirname(os.path.abspath(__file__))
sys.path.insert(0, HERE)
from py2gallina import write_if_changed  # noqa: E402


class Unknown(Exception):
    pass


EXTRA_MODULES = ["aiokafka.coordinator.protocol",
                 "aiokafka.coordinator.assignors.sticky.sticky_assignor"]


def load(repo):
    """Import the protocol package from `repo` and check it really came from there."""
    if repo not in sys.path:
        sys.path.insert(1, repo)
    import aiokafka.protocol as P
    root = os.path.realpath(os.path.dirname(P.__file__))
    want = os.path.realpath(os.path.join(repo, "aiokafka", "protocol"))
    if root != want:
        raise Unknown(f"aiokafka.protocol imported from {root}, expected {want}")
    mods = []
    for m in pkgutil.iter_modules(P.__path__):
        mods.append(importlib.import_module("aiokafka.protocol." + m.name))
    for name in EXTRA_MODULES:
        try:
            mods.append(importlib.import_module(name))
        except ImportError:
            pass          # optional extras; the protocol package itself is mandatory
    return P, mods


def all_subclasses(c):
    out = []
    seen = set()

    def go(k):
        for s in k.__subclasses__():
            if s not in seen:
                seen.add(s)
                out.append(s)
                go(s)
    go(c)
    return out


def make_ty(T):
    """Return the function translating a schema object to a Gallina term (fail closed)."""
    atoms = {}
    for pyname, coq in [("Int8", "TInt8"), ("Int16", "TInt16"), ("Int32", "TInt32"),
                        ("Int64", "TInt64"), ("UInt32", "TUInt32"), ("Boolean", "TBool"),
                        ("Float64", "TFloat64"), ("Bytes", "TBytes"),
                        ("UnsignedVarInt32", "TUVarInt"), ("VarInt32", "TVarInt32"),
                        ("VarInt64", "TVarInt64"), ("CompactBytes", "TCompactBytes"),
                        ("TaggedFields", "TTagged")]:
        if hasattr(T, pyname):
            atoms[getattr(T, pyname)] = coq

    def ty(t, path):
        if isinstance(t, type):
            if t in atoms:
                return atoms[t]
            raise Unknown(f"{path}: unknown field type class {t!r}")
        k = type(t)
        if k is T.Schema:
            if len(t.names) != len(t.fields):
                raise Unknown(f"{path}: names/fields length mismatch")
            return "TSchema [" + "; ".join(ty(f, f"{path}.{n}") for n, f in zip(t.names, t.fields)) + "]"
        if k is T.Array:
            return "TArray (" + ty(t.array_of, path + "[]") + ")"
        if k is T.CompactArray:
            return "TCompactArray (" + ty(t.array_of, path + "[]") + ")"
        if k is T.String:
            if str(t.encoding).lower().replace("_", "-") != "utf-8":
                raise Unknown(f"{path}: String with encoding {t.encoding!r}")
            return "TString"
        if k is T.CompactString:
            if str(t.encoding).lower().replace("_", "-") != "utf-8":
                raise Unknown(f"{path}: CompactString with encoding {t.encoding!r}")
            return "TCompactString"
        raise Unknown(f"{path}: unknown field type object {t!r} of class {k!r}")

    def names(t):
        if type(t) is T.Schema:
            return "(" + ", ".join(n + names(f) for n, f in zip(t.names, t.fields)) + ")"
        if type(t) in (T.Array, T.CompactArray):
            return "[" + names(t.array_of) + "]" if type(t.array_of) in (T.Schema, T.Array, T.CompactArray) else ""
        return ""

    return ty, names


def coq_str(s):
    return '"' + str(s).replace('"', '""') + '"'


def coq_z(n):
    if not isinstance(n, int) or isinstance(n, bool):
        raise Unknown(f"expected an int, got {n!r}")
    return f"({n})" if n < 0 else str(n)


def name_ver(name):
    m = re.search(r"_v(\d+)$", name)
    return int(m.group(1)) if m else -1


def ident(name):
    if not re.fullmatch(r"[A-Za-z_][A-Za-z0-9_]*", name):
        raise Unknown(f"class name {name!r} is not an identifier")
    return "s_" + name


def generate(repo):
    P, mods = load(repo)
    from aiokafka.protocol import api, types as T
    from aiokafka.protocol.struct import Struct
    ty, names = make_ty(T)

    reqs = [c for c in all_subclasses(api.RequestStruct)]
    resps = [c for c in all_subclasses(api.Response)]
    others = [c for c in all_subclasses(Struct)
              if c not in reqs and c not in resps and c not in (api.RequestStruct, api.Response)]
    builders = all_subclasses(api.Request)

    seen = {}
    for c in reqs + resps + others + builders:
        if c.__name__ in seen:
            raise Unknown(f"duplicate class name {c.__name__} ({seen[c.__name__]} / {c.__module__})")
        seen[c.__name__] = c.__module__

    def key(c):
        return (c.__module__, getattr(c, "API_KEY", -1) if isinstance(getattr(c, "API_KEY", -1), int) else -1,
                getattr(c, "API_VERSION", -1) if isinstance(getattr(c, "API_VERSION", -1), int) else -1,
                c.__name__)

    reqs.sort(key=key)
    resps.sort(key=key)
    others.sort(key=lambda c: (c.__module__, c.__name__))
    builders.sort(key=lambda c: (c.__module__, c.API_KEY, c.__name__))

    out = []
    w = out.append
    w("(* GENERATED by translator/schema2gallina.py from the imported aiokafka.protocol classes.")
    w("   Do not edit; regenerated on every check run. *)")
    w("From Coq Require Import ZArith List String.")
    w("From Verif Require Import Wire WireTables.")
    w("Import ListNotations.")
    w("Open Scope Z_scope.")
    w("Open Scope string_scope.")
    w("")

    defined = {}

    def define(name, schema, comment):
        term = ty(schema, name)
        idn = ident(name)
        w(f"(* {comment}: {names(schema)} *)")
        w(f"Definition {idn} : ty := {term}.")
        defined[name] = term
        return idn

    # ---- aux structs (headers, consumer protocol, sticky user data, legacy message) ----
    aux = []
    for c in others:
        if not isinstance(getattr(c, "SCHEMA", None), T.Schema):
            raise Unknown(f"{c.__name__}: SCHEMA is not a Schema")
        aux.append((c.__name__, define(c.__name__, c.SCHEMA, f"{c.__module__}.{c.__name__}")))
    # the legacy message-set schemas are class attributes, not Struct subclasses
    from aiokafka.protocol import message as M
    if hasattr(M, "Message") and hasattr(M.Message, "SCHEMAS"):
        for i, s in enumerate(M.Message.SCHEMAS):
            aux.append((f"Message_SCHEMAS_{i}", define(f"Message_SCHEMAS_{i}", s, f"message.Message.SCHEMAS[{i}]")))
    if hasattr(M, "MessageSet") and hasattr(M.MessageSet, "ITEM"):
        aux.append(("MessageSet_ITEM", define("MessageSet_ITEM", M.MessageSet.ITEM, "message.MessageSet.ITEM")))
    w("")

    # ---- responses ----
    for c in resps:
        for a in ("API_KEY", "API_VERSION", "SCHEMA"):
            if not hasattr(c, a):
                raise Unknown(f"{c.__name__}: missing {a}")
        if not isinstance(c.SCHEMA, T.Schema):
            raise Unknown(f"{c.__name__}: SCHEMA is not a Schema")
        define(c.__name__, c.SCHEMA, f"{c.__module__}.{c.__name__} key={c.API_KEY} v={c.API_VERSION}")
    w("")
    # ---- requests ----
    req_rows = []
    for c in reqs:
        for a in ("API_KEY", "API_VERSION", "SCHEMA", "RESPONSE_TYPE", "FLEXIBLE_VERSION"):
            if not hasattr(c, a):
                raise Unknown(f"{c.__name__}: missing {a}")
        if not isinstance(c.SCHEMA, T.Schema):
            raise Unknown(f"{c.__name__}: SCHEMA is not a Schema")
        r = c.RESPONSE_TYPE
        if not (isinstance(r, type) and issubclass(r, api.Response)):
            raise Unknown(f"{c.__name__}: RESPONSE_TYPE {r!r} is not a Response subclass")
        if r.__name__ not in defined:
            raise Unknown(f"{c.__name__}: RESPONSE_TYPE {r.__name__} was not walked")
        if not isinstance(c.FLEXIBLE_VERSION, bool):
            raise Unknown(f"{c.__name__}: FLEXIBLE_VERSION is not a bool")
        define(c.__name__, c.SCHEMA,
               f"{c.__module__}.{c.__name__} key={c.API_KEY} v={c.API_VERSION} -> {r.__name__}")
        # which header classes do the struct's own methods use?
        try:
            obj = c()
            hreq = type(obj.build_request_header(correlation_id=0, client_id="x")).__name__
        except Exception as e:  # noqa: BLE001
            hreq = "ERROR:" + type(e).__name__
        try:
            hresp = type(c().parse_response_header(b"\x00" * 16)).__name__
        except Exception as e:  # noqa: BLE001
            hresp = "ERROR:" + type(e).__name__
        req_rows.append(
            f"  mkReq {coq_str(c.__name__)} {coq_z(name_ver(c.__name__))} {coq_z(c.API_KEY)} "
            f"{coq_z(c.API_VERSION)} {'true' if c.FLEXIBLE_VERSION else 'false'} {coq_str(hreq)} "
            f"{coq_str(hresp)} {coq_str(r.__name__)} {coq_z(r.API_KEY)} {coq_z(r.API_VERSION)} "
            f"{ident(c.__name__)} {ident(r.__name__)}")
    w("")
    w("Definition requests : list req_entry := [")
    w(";\n".join(req_rows))
    w("].")
    w("")
    w("Definition responses : list resp_entry := [")
    w(";\n".join(f"  mkResp {coq_str(c.__name__)} {coq_z(name_ver(c.__name__))} {coq_z(c.API_KEY)} "
                 f"{coq_z(c.API_VERSION)} {ident(c.__name__)}" for c in resps))
    w("].")
    w("")
    w("Definition aux_structs : list (string * ty) := [")
    w(";\n".join(f"  ({coq_str(n)}, {i})" for n, i in aux))
    w("].")
    w("")
    # ---- builders ----
    rows = []
    for b in builders:
        if not isinstance(getattr(b, "API_KEY", None), int):
            raise Unknown(f"{b.__name__}: API_KEY missing")
        cl = getattr(b, "_CLASSES", None)
        if not isinstance(cl, tuple) or not cl:
            raise Unknown(f"{b.__name__}: _CLASSES missing or empty")
        for c in cl:
            if c not in reqs:
                raise Unknown(f"{b.__name__}: _CLASSES member {c!r} is not a walked RequestStruct")
        allow = getattr(b, "ALLOW_UNKNOWN_API_VERSION", False)
        if not isinstance(allow, bool):
            raise Unknown(f"{b.__name__}: ALLOW_UNKNOWN_API_VERSION is not a bool")
        rows.append(f"  mkBuilder {coq_str(b.__name__)} {coq_z(b.API_KEY)} {'true' if allow else 'false'} ["
                    + "; ".join(f"({coq_str(c.__name__)}, {coq_z(c.API_VERSION)})" for c in cl) + "]")
    w("Definition builders : list builder_entry := [")
    w(";\n".join(rows))
    w("].")
    text = "\n".join(out) + "\n"
    summary = {"ok": True, "requests": len(reqs), "responses": len(resps), "aux": len(aux),
               "builders": len(builders), "sha256": hashlib.sha256(text.encode()).hexdigest()}
    return text, summary


def main(argv):
    repo = os.environ.get("VERIF_REPO", "/repo")
    out = os.path.join(HERE, "..", "coq", "gen", "Schemas.v")
    i = 0
    while i < len(argv):
        if argv[i] == "--repo":
            repo = argv[i + 1]
            i += 2
        elif argv[i] == "--out":
            out = argv[i + 1]
            i += 2
        else:
            print("unknown argument", argv[i])
            return 2
    os.makedirs(os.path.dirname(out), exist_ok=True)
    try:
        text, summary = generate(os.path.realpath(repo))
    except Exception as e:  # noqa: BLE001  (fail closed on anything, incl. import errors)
        msg = f"{type(e).__name__}: {e}"
        write_if_changed(out, "(* schema translation FAILED: " + msg.replace("*)", "* )")
                         + " *)\nTranslationFailed.\n")
        print(json.dumps({"ok": False, "error": msg}))
        return 2
    summary["changed"] = write_if_changed(out, text)
    print(json.dumps(summary))
    return 0


if __name__ == "__main__":
    sys.exit(main(sys.argv[1:]))
