#!/usr/bin/env python3
"""py2gallina — fail-closed translator from a small Python subset to Gallina.

Tie "T" of DESIGN.md: the functions listed in translator/units.py are re-translated from
/repo's *current* source text on every check run; the Coq proofs are then re-checked
against what the code says now.  Anything outside the supported subset raises
`Unsupported` (reported as a broken obligation) — the translator never guesses.

Compilation scheme (see coq/lib/Imp.v):
  * every local variable that is assigned becomes a field (type Z) of a generated record
    `st`; read-only parameters stay Gallina function arguments;
  * a statement list becomes an expression of type `st * flow R`;
  * `for i in range(n)` -> `for_range`, `for a, b in xs` -> `for_each`,
    `while c` -> `while_fuel` (fuel given per unit), early return/raise/break/continue
    are `flow` values, sequencing is `seq_flow`;
  * indexing, division, calls to other translated functions and oracle calls produce
    guards / binders that are placed in front of the statement containing them, in
    evaluation order (IndexError, ZeroDivisionError, propagated exceptions).
"""
from __future__ import annotations

import ast
import hashlib
import os
import textwrap


class Unsupported(Exception):
    pass


def fail(node, msg):
    line = getattr(node, "lineno", "?")
    raise Unsupported(f"line {line}: {msg}: {ast.dump(node)[:200] if isinstance(node, ast.AST) else node}")


COQ_KEYWORDS = {"end", "at", "in", "as", "if", "then", "else", "match", "with", "fun", "let",
                "fix", "forall", "exists", "Type", "Set", "Prop", "return", "using", "where",
                "for", "struct", "cofix", "mod", "length", "seq", "nth", "map", "fst", "snd",
                "s", "i", "k", "e", "r", "p", "f"}


def pname(n):
    return "p_" + n


class Unit:
    """Description of one function to translate."""

    def __init__(self, module, file, qualname, params, ret, aliases=None, consts_from=None,
                 fuel=None, effects=None, calls=None, outputs=None, state_in=None,
                 foreach=None, record_calls=None, none_params=None, requires=None):
        self.requires = requires or []
        self.module = module          # Coq module / file name
        self.file = file              # path relative to the repo root
        self.qualname = qualname      # "f" or "Class.method"
        self.params = params          # ordered {python name: type}; type in TYPES or 'skip'
        self.ret = ret                # 'Z' | 'ZZ' | 'bool' | 'unit' | 'listZ'
        self.aliases = aliases or {}  # {python source of an lvalue/rvalue expression: state var}
        self.consts_from = consts_from  # class name whose `NAME = int` members are constants
        self.fuel = fuel or {}        # {n-th while loop (0-based): coq nat expression}
        self.effects = effects or {}  # {callee source: ('out', n_args)}
        self.calls = calls or {}      # {callee source: (coq function returning result Z, 'int')}
        self.outputs = outputs or []  # state vars exposed by <name>_post
        self.state_in = state_in or []  # alias vars initialised from extra parameters
        self.foreach = foreach or {}  # {iterable source: (coq list arg name, [(field, type)...])}
        self.record_calls = record_calls or {}
        self.none_params = none_params or []


TYPES = {"int": "Z", "bool": "bool", "bytes": "list Z", "listZ": "list Z",
         "optbytes": "option (list Z)"}
RET = {"Z": "Z", "ZZ": "(Z * Z)", "bool": "bool", "unit": "unit", "listZ": "list Z"}
RET_DEFAULT = {"Z": "0", "ZZ": "(0, 0)", "bool": "false", "unit": "tt", "listZ": "[]"}


def find_function(tree, qualname, allow_async=False):
    parts = qualname.split(".")
    body = tree.body
    node = None
    cls = None
    for i, part in enumerate(parts):
        found = None
        for n in body:
            if isinstance(n, (ast.FunctionDef, ast.ClassDef, ast.AsyncFunctionDef)) and n.name == part:
                found = n
        if found is None:
            raise Unsupported(f"cannot find {qualname}")
        if isinstance(found, ast.ClassDef):
            cls = found
        node = found
        body = found.body
    if not isinstance(node, (ast.FunctionDef, ast.AsyncFunctionDef) if allow_async else ast.FunctionDef):
        raise Unsupported(f"{qualname} is not a plain function")
    return node, cls


def class_consts(tree, clsname):
    out = {}
    for n in ast.walk(tree):
        if isinstance(n, ast.ClassDef) and n.name == clsname:
            for st in n.body:
                if (isinstance(st, ast.Assign) and len(st.targets) == 1
                        and isinstance(st.targets[0], ast.Name)
                        and isinstance(st.value, ast.Constant) and isinstance(st.value.value, int)):
                    out[st.targets[0].id] = st.value.value
            return out
    raise Unsupported(f"class {clsname} not found")


class Tr:
    def __init__(self, unit: Unit, src: str):
        self.u = unit
        self.src = src
        self.tree = ast.parse(src)
        self.fn, self.cls = find_function(self.tree, unit.qualname)
        self.consts = class_consts(self.tree, unit.consts_from) if unit.consts_from else {}
        self.fresh = 0
        self.hoisted = []   # (name, extra binders, coq body)
        self.loop_no = 0
        self.while_no = 0
        self.narrow = {}  # option-typed param -> ('none',) | ('some', coqname)
        self.loopvars = {}  # python name -> (coq expr, type) bound by for_each
        self.locals = self.collect_locals()
        self.uses_out = any(True for _ in self.u.effects)
        self.uses_pick = False
        self.in_hoist_ctx = 0
        self.PARARGS = "@PARARGS@"

    # ------------------------------------------------------------------ helpers
    def seg(self, node):
        return ast.get_source_segment(self.src, node)

    def alias_of(self, node):
        s = ast.unparse(node)
        return self.u.aliases.get(s)

    def collect_locals(self):
        loc = []

        def add(n):
            if n not in loc:
                loc.append(n)

        for v in self.u.state_in:
            add(v)
        for node in ast.walk(self.fn):
            targets = []
            if isinstance(node, ast.Assign):
                targets = node.targets
            elif isinstance(node, ast.AugAssign):
                targets = [node.target]
            elif isinstance(node, ast.For):
                if ast.unparse(node.iter) in self.u.foreach:
                    continue
                targets = [node.target]
            for t in targets:
                if isinstance(t, ast.Name):
                    add(t.id)
                else:
                    a = self.alias_of(t)
                    if a is None:
                        fail(t, "assignment target not supported")
                    add(a)
        for v in self.u.outputs:
            if v not in loc:
                fail(self.fn, f"output {v} is never assigned")
        return loc

    def new(self, base):
        self.fresh += 1
        return f"{base}{self.fresh}"

    # ------------------------------------------------------------------ expressions
    # returns (coq, type, pre) where pre is a list of ('guard', cond, exn) |
    # ('bind', name, coq_result_expr)
    def expr(self, e, s):
        a = self.alias_of(e)
        if a is not None:
            return f"(v_{a} {s})", "int", []
        if isinstance(e, ast.Constant):
            if isinstance(e.value, bool):
                return ("true" if e.value else "false"), "bool", []
            if isinstance(e.value, int):
                return f"({e.value})", "int", []
            fail(e, "constant")
        if isinstance(e, ast.Name):
            n = e.id
            if n in self.loopvars:
                c, t = self.loopvars[n]
                return c, t, []
            if n in self.locals:
                return f"(v_{n} {s})", "int", []
            if n in self.u.params:
                t = self.u.params[n]
                if t == "skip":
                    fail(e, "use of skipped parameter")
                if t == "optbytes":
                    nr = self.narrow.get(n)
                    if nr and nr[0] == "some":
                        return nr[1], "bytes", []
                    fail(e, "option-typed parameter used without `is None` narrowing")
                return pname(n), t, []
            fail(e, "unknown name")
        if isinstance(e, ast.Attribute):
            if isinstance(e.value, ast.Name) and e.value.id in ("cls",) and e.attr in self.consts:
                return f"({self.consts[e.attr]})", "int", []
            if isinstance(e.value, ast.Name) and e.value.id in self.loopvars_rec():
                return self.loopvars_rec()[e.value.id](e.attr, e)
            fail(e, "attribute")
        if isinstance(e, ast.UnaryOp):
            c, t, pre = self.expr(e.operand, s)
            if isinstance(e.op, ast.USub) and t == "int":
                return f"(- {c})", "int", pre
            if isinstance(e.op, ast.Invert) and t == "int":
                return f"(Z.lnot {c})", "int", pre
            if isinstance(e.op, ast.Not):
                return f"(negb {self.truth(c, t, e)})", "bool", pre
            fail(e, "unary operator")
        if isinstance(e, ast.BinOp):
            l, lt, lp = self.expr(e.left, s)
            r, rt, rp = self.expr(e.right, s)
            if lt != "int" or rt != "int":
                fail(e, "binary operator on non-int")
            pre = lp + rp
            op = e.op
            const_r = isinstance(e.right, ast.Constant) and isinstance(e.right.value, int)
            if isinstance(op, ast.Add):
                return f"({l} + {r})", "int", pre
            if isinstance(op, ast.Sub):
                return f"({l} - {r})", "int", pre
            if isinstance(op, ast.Mult):
                return f"({l} * {r})", "int", pre
            if isinstance(op, (ast.FloorDiv, ast.Mod)):
                if not (const_r and e.right.value != 0):
                    pre = pre + [("guard", f"(negb ({r} =? 0))", "ZeroDivisionError")]
                f = "Z.div" if isinstance(op, ast.FloorDiv) else "Z.modulo"
                return f"({f} {l} {r})", "int", pre
            if isinstance(op, (ast.LShift, ast.RShift)):
                if not (const_r and e.right.value >= 0):
                    pre = pre + [("guard", f"(0 <=? {r})", "ValueError")]
                f = "Z.shiftl" if isinstance(op, ast.LShift) else "Z.shiftr"
                return f"({f} {l} {r})", "int", pre
            if isinstance(op, ast.BitAnd):
                return f"(Z.land {l} {r})", "int", pre
            if isinstance(op, ast.BitOr):
                return f"(Z.lor {l} {r})", "int", pre
            if isinstance(op, ast.BitXor):
                return f"(Z.lxor {l} {r})", "int", pre
            if isinstance(op, ast.Pow):
                if (isinstance(e.left, ast.Constant) and const_r and e.right.value >= 0):
                    return f"({e.left.value ** e.right.value})", "int", pre
                fail(e, "non-constant power")
            fail(e, "binary operator")
        if isinstance(e, ast.Compare):
            parts = []
            pre = []
            left = e.left
            for op, right in zip(e.ops, e.comparators):
                if isinstance(op, (ast.In, ast.NotIn)):
                    l, lt, lp = self.expr(left, s)
                    if not isinstance(right, (ast.List, ast.Tuple)) or lt != "int":
                        fail(e, "`in` needs an int and a literal list")
                    items = []
                    pre += lp
                    for it in right.elts:
                        c, t, p2 = self.expr(it, s)
                        if t != "int":
                            fail(it, "list element")
                        pre += p2
                        items.append(c)
                    c = f"(zmem {l} [{'; '.join(items)}])"
                    parts.append(c if isinstance(op, ast.In) else f"(negb {c})")
                else:
                    l, lt, lp = self.expr(left, s)
                    r, rt, rp = self.expr(right, s)
                    pre += lp + rp
                    if lt != "int" or rt != "int":
                        fail(e, "comparison on non-int")
                    sym = {ast.Eq: "=?", ast.Lt: "<?", ast.LtE: "<=?"}
                    flip = {ast.Gt: "<?", ast.GtE: "<=?"}   # a > b  ==  b < a (lia-friendly)
                    if type(op) in sym:
                        parts.append(f"({l} {sym[type(op)]} {r})")
                    elif type(op) in flip:
                        parts.append(f"({r} {flip[type(op)]} {l})")
                    elif isinstance(op, ast.NotEq):
                        parts.append(f"(negb ({l} =? {r}))")
                    else:
                        fail(e, "comparison operator")
                left = right
            return "(" + " && ".join(parts) + ")", "bool", pre
        if isinstance(e, ast.BoolOp):
            cs = []
            pre = []
            for i, v in enumerate(e.values):
                c, t, p = self.expr(v, s)
                if i > 0 and p:
                    fail(e, "guarded expression on the right of and/or")
                pre += p
                cs.append(self.truth(c, t, v))
            op = " && " if isinstance(e.op, ast.And) else " || "
            return "(" + op.join(cs) + ")", "bool", pre
        if isinstance(e, ast.IfExp):
            c, ct, cp = self.expr(e.test, s)
            a, at, ap = self.expr(e.body, s)
            b, bt, bp = self.expr(e.orelse, s)
            if ap or bp or at != bt:
                fail(e, "conditional expression")
            return f"(if {self.truth(c, ct, e.test)} then {a} else {b})", at, cp
        if isinstance(e, ast.Subscript):
            v, vt, vp = self.expr(e.value, s)
            i, it, ip = self.expr(e.slice, s)
            if vt not in ("bytes", "listZ") or it != "int":
                fail(e, "subscript")
            pre = vp + ip + [("guard", f"(py_index_ok {v} {i})", "IndexError")]
            return f"(py_index 0 {v} {i})", "int", pre
        if isinstance(e, ast.Call):
            fsrc = ast.unparse(e.func)
            if fsrc == "len" and len(e.args) == 1:
                c, t, p = self.expr(e.args[0], s)
                if t not in ("bytes", "listZ"):
                    fail(e, "len of non-list")
                return f"(zlen {c})", "int", p
            if fsrc == "random.choice" and len(e.args) == 1:
                c, t, p = self.expr(e.args[0], s)
                if t != "listZ":
                    fail(e, "random.choice of non-list")
                self.uses_pick = True
                pre = p + [("guard", f"(negb (is_nil {c}))", "IndexError")]
                return f"(py_index 0 {c} (Z.modulo pick (zlen {c})))", "int", pre
            if fsrc in self.u.calls:
                coqf, rty = self.u.calls[fsrc]
                args = []
                pre = []
                for a in e.args:
                    c, t, p = self.expr(a, s)
                    pre += p
                    args.append(c)
                tmp = self.new("t")
                pre.append(("bind", tmp, f"({coqf} {' '.join(args)})"))
                return tmp, rty, pre
            fail(e, "call")
        if isinstance(e, ast.Tuple):
            fail(e, "tuple outside return")
        fail(e, "expression")

    def loopvars_rec(self):
        return getattr(self, "_recvars", {})

    def truth(self, c, t, node):
        if t == "bool":
            return c
        if t == "int":
            return f"(negb ({c} =? 0))"
        if t in ("bytes", "listZ"):
            return f"(negb (is_nil {c}))"
        fail(node, "truth value")

    # ------------------------------------------------------------------ statements
    def wrap(self, pre, s, body):
        """Place guards/binders (in evaluation order) in front of `body`."""
        out = body
        for p in reversed(pre):
            if p[0] == "guard":
                out = f"(if {p[1]} then {out} else ({s}, FRaise \"{p[2]}\"%string))"
            else:
                out = (f"(match {p[2]} with Ok {p[1]} => {out} "
                       f"| Exn ex => ({s}, FRaise ex) end)")
        return out

    def terminates(self, stmts):
        if not stmts:
            return False
        last = stmts[-1]
        if isinstance(last, (ast.Return, ast.Raise, ast.Continue, ast.Break)):
            return True
        if isinstance(last, ast.If):
            return self.terminates(last.body) and self.terminates(last.orelse)
        if isinstance(last, ast.While) and isinstance(last.test, ast.Constant) and last.test.value is True:
            return not any(isinstance(n, ast.Break) for n in ast.walk(last))
        return False

    def block(self, stmts, s):
        """Coq expression of type st * flow R for the statement list in state `s`."""
        stmts = [st for st in stmts
                 if not (isinstance(st, ast.Expr) and isinstance(st.value, ast.Constant)
                         and isinstance(st.value.value, str)) and not isinstance(st, ast.Pass)]
        if not stmts:
            return f"({s}, FNext)"
        st, rest = stmts[0], stmts[1:]
        R = self.u.ret

        def then(fn_of_state):
            """continue with rest in a fresh state variable"""
            if not rest:
                return None
            s2 = self.new("s")
            return s2, self.block(rest, s2)

        if isinstance(st, ast.Return):
            if rest:
                fail(rest[0], "dead code after return")
            if st.value is None:
                if R != "unit":
                    fail(st, "bare return in non-unit function")
                return f"({s}, FRet tt)"
            if isinstance(st.value, ast.Tuple):
                if R != "ZZ" or len(st.value.elts) != 2:
                    fail(st, "tuple return")
                a, at, ap = self.expr(st.value.elts[0], s)
                b, bt, bp = self.expr(st.value.elts[1], s)
                if at != "int" or bt != "int":
                    fail(st, "tuple return of non-int")
                return self.wrap(ap + bp, s, f"({s}, FRet ({a}, {b}))")
            c, t, p = self.expr(st.value, s)
            want = {"Z": "int", "bool": "bool", "listZ": "listZ"}.get(R)
            if t != want:
                fail(st, f"return type {t}, expected {want}")
            return self.wrap(p, s, f"({s}, FRet {c})")
        if isinstance(st, ast.Raise):
            if rest:
                fail(rest[0], "dead code after raise")
            exc = st.exc
            name = None
            if isinstance(exc, ast.Call):
                name = ast.unparse(exc.func)
            elif isinstance(exc, ast.Name):
                name = exc.id
            if not name or not name.replace(".", "").replace("_", "").isalnum():
                fail(st, "raise")
            return f"({s}, FRaise \"{name}\"%string)"
        if isinstance(st, ast.Continue):
            return f"({s}, FCont)"
        if isinstance(st, ast.Break):
            return f"({s}, FBreak)"
        if isinstance(st, (ast.Assign, ast.AugAssign)):
            if isinstance(st, ast.Assign):
                if len(st.targets) != 1:
                    fail(st, "multiple targets")
                tgt = st.targets[0]
                c, t, p = self.expr(st.value, s)
            else:
                tgt = st.target
                fake = ast.BinOp(left=tgt, op=st.op, right=st.value)
                ast.copy_location(fake, st)
                ast.fix_missing_locations(fake)
                c, t, p = self.expr(fake, s)
            if t != "int":
                fail(st, "only int locals are supported")
            name = tgt.id if isinstance(tgt, ast.Name) else self.alias_of(tgt)
            if name is None or name not in self.locals:
                fail(st, "assignment target")
            s2 = self.new("s")
            restc = self.block(rest, s2)
            return self.wrap(p, s, f"(let {s2} := set_{name} {s} {c} in {restc})")
        if isinstance(st, ast.Expr) and isinstance(st.value, ast.Call):
            fsrc = ast.unparse(st.value.func)
            if fsrc in self.u.effects:
                kind, nargs = self.u.effects[fsrc]
                if len(st.value.args) != nargs or st.value.keywords:
                    fail(st, "effect call arity")
                cs = []
                pre = []
                for a in st.value.args:
                    c, t, p = self.expr(a, s)
                    if t != "int":
                        fail(a, "effect argument")
                    pre += p
                    cs.append(c)
                s2 = self.new("s")
                restc = self.block(rest, s2)
                return self.wrap(pre, s, f"(let {s2} := set_out {s} (v_out {s} ++ [{'; '.join(cs)}]) in {restc})")
            fail(st, "expression statement")
        if isinstance(st, ast.If):
            # `x is None` narrowing on option-typed parameters
            t0 = st.test
            if (isinstance(t0, ast.Compare) and len(t0.ops) == 1
                    and isinstance(t0.ops[0], (ast.Is, ast.IsNot))
                    and isinstance(t0.comparators[0], ast.Constant)
                    and t0.comparators[0].value is None and isinstance(t0.left, ast.Name)
                    and self.u.params.get(t0.left.id) == "optbytes"):
                n = t0.left.id
                none_b, some_b = (st.body, st.orelse) if isinstance(t0.ops[0], ast.Is) else (st.orelse, st.body)
                old = self.narrow.get(n)
                self.narrow[n] = ("none",)
                nb = self.block(none_b + ([] if self.terminates(none_b) else rest), s)
                v = self.new(pname(n) + "_v")
                self.narrow[n] = ("some", v)
                sb = self.block(some_b + ([] if self.terminates(some_b) else rest), s)
                if old is None:
                    del self.narrow[n]
                else:
                    self.narrow[n] = old
                return f"(match {pname(n)} with None => {nb} | Some {v} => {sb} end)"
            c, t, p = self.expr(st.test, s)
            a = self.block(st.body, s)
            b = self.block(st.orelse, s)
            ite = f"(if {self.truth(c, t, st.test)} then {a} else {b})"
            if rest:
                s2 = self.new("s")
                restc = self.block(rest, s2)
                ite = f"(seq_flow {ite} (fun {s2} => {restc}))"
            return self.wrap(p, s, ite)
        if isinstance(st, ast.For):
            if st.orelse:
                fail(st, "for-else")
            it = st.iter
            itsrc = ast.unparse(it)
            if (isinstance(it, ast.Call) and ast.unparse(it.func) == "range" and len(it.args) == 1
                    and isinstance(st.target, ast.Name)):
                n, nt, np_ = self.expr(it.args[0], s)
                if nt != "int":
                    fail(st, "range bound")
                iv = self.new("i")
                s1 = self.new("s")
                s2 = self.new("s")
                body = self.block(st.body, s2)
                fn_ = self.hoist("body", f"({iv} : Z) ({s1} : st)",
                                 f"let {s2} := set_{st.target.id} {s1} {iv} in {body}",
                                 f"(fun {iv} {s1} => let {s2} := set_{st.target.id} {s1} {iv} in {body})")
                loop = f"(for_range (Z.to_nat {n}) 0 {fn_} {s})"
            elif itsrc in self.u.foreach:
                lst, fields = self.u.foreach[itsrc]
                names = [t.id for t in st.target.elts] if isinstance(st.target, ast.Tuple) else None
                if names is None:
                    fail(st, "for-each target must be a tuple")
                x = self.new("x")
                s1 = self.new("s")
                old = dict(self.loopvars)
                oldrec = dict(self.loopvars_rec())
                recs = dict(oldrec)
                for nm in names:
                    def mk(nm):
                        def get(attr, node):
                            for (owner, fld, ty, proj) in fields:
                                if owner == nm and fld == attr:
                                    return f"({proj} {x})", ty, []
                            fail(node, f"unknown field {nm}.{attr}")
                        return get
                    recs[nm] = mk(nm)
                self._recvars = recs
                self._rec_x = x
                body = self.block(st.body, s1)
                self._recvars = oldrec
                self.loopvars = old
                loop = f"(for_each {lst} (fun {x} {s1} => {body}) {s})"
                n, np_ = None, []
            else:
                fail(st, "for loop form")
            if rest:
                s3 = self.new("s")
                restc = self.block(rest, s3)
                kfn = self.hoist("after", f"({s3} : st)", restc, f"(fun {s3} => {restc})")
                loop = f"(seq_flow {loop} {kfn})"
            return self.wrap(np_, s, loop)
        if isinstance(st, ast.While):
            if st.orelse:
                fail(st, "while-else")
            k = self.while_no
            self.while_no += 1
            if k not in self.u.fuel:
                fail(st, f"no fuel declared for while loop #{k}")
            s1 = self.new("s")
            c, t, p = self.expr(st.test, s1)
            if p:
                fail(st, "guarded while condition")
            s2 = self.new("s")
            body = self.block(st.body, s2)
            cfn = self.hoist("cond", f"({s1} : st)", self.truth(c, t, st.test),
                             f"(fun {s1} => {self.truth(c, t, st.test)})", ty="bool")
            bfn = self.hoist("body", f"({s2} : st)", body, f"(fun {s2} => {body})")
            loop = f"(while_fuel ({self.u.fuel[k]}) {cfn} {bfn} {s})"
            if rest:
                s3 = self.new("s")
                restc = self.block(rest, s3)
                kfn = self.hoist("after", f"({s3} : st)", restc, f"(fun {s3} => {restc})")
                loop = f"(seq_flow {loop} {kfn})"
            return loop
        fail(st, "statement")

    def hoist(self, kind, binders, body, inline, ty=None):
        """Emit a loop body / continuation as a named top-level definition when it does not
        depend on binders of an enclosing construct; otherwise keep it inline."""
        if self.narrow or self.loopvars or self.loopvars_rec() or self.in_hoist_ctx:
            return inline
        self.loop_no += 1
        name = f"L{self.loop_no}_{kind}"
        self.hoisted.append((name, binders, body, ty))
        return f"({name} {self.PARARGS})"

    # ------------------------------------------------------------------ whole unit
    def emit(self):
        u = self.u
        fn = self.fn
        seg = ast.get_source_segment(self.src, fn)
        sha = hashlib.sha256(seg.encode()).hexdigest()
        argnames = [a.arg for a in fn.args.args]
        for a in argnames:
            if a not in u.params:
                raise Unsupported(f"{u.qualname}: parameter {a} not declared in unit")
        for a in u.params:
            if a not in argnames:
                raise Unsupported(f"{u.qualname}: declared parameter {a} not in source")
        if fn.args.vararg or fn.args.kwarg or fn.args.kwonlyargs:
            raise Unsupported("varargs")
        fields = list(self.locals)
        body = self.block(fn.body, "s0")
        if self.uses_out:
            fields_all = fields + ["out"]
        else:
            fields_all = fields
        L = []
        L.append(f"(* GENERATED by translator/py2gallina.py — do not edit.")
        L.append(f"   source: {u.file}:{fn.lineno}-{fn.end_lineno}  function {u.qualname}")
        L.append(f"   sha256 of the function text: {sha} *)")
        L.append("From Coq Require Import ZArith List String Bool.")
        L.append("From Verif Require Import Imp.")
        for r in u.requires:
            L.append(f"From Verif Require Import {r}.")
        L.append("Import ListNotations.")
        L.append("Open Scope Z_scope.")
        L.append("Open Scope list_scope.")
        L.append("Open Scope bool_scope.")
        L.append("Open Scope Z_scope.")
        L.append(f"Module {u.module}.")
        if not fields_all:
            fields_all = ["dummy"]
            fields = ["dummy"]
        ftype = lambda f: "list Z" if f == "out" else "Z"
        L.append("Record st := mk { " + "; ".join(f"v_{f} : {ftype(f)}" for f in fields_all) + " }.")
        for f in fields_all:
            L.append(f"Definition set_{f} (s : st) (x : {ftype(f)}) : st := mk "
                     + " ".join(("x" if g == f else f"(v_{g} s)") for g in fields_all) + ".")
        # parameters
        pars = []
        for a in argnames:
            t = u.params[a]
            if t == "skip":
                continue
            pars.append((pname(a), TYPES[t]))
        for v in u.state_in:
            pars.append((f"in_{v}", "Z"))
        if self.uses_pick:
            pars.append(("pick", "Z"))
        parstr = " ".join(f"({n} : {t})" for n, t in pars)
        inits = []
        for f in fields_all:
            if f == "out":
                inits.append("[]")
            elif f in u.state_in:
                inits.append(f"in_{f}")
            elif f in u.params and u.params[f] == "int":
                inits.append(pname(f))
            else:
                inits.append("0")
        L.append(f"Definition init {parstr} : st := mk {' '.join(inits)}.")
        argstr = " ".join(n for n, _ in pars)
        for (hn, hb, hbody, hty) in self.hoisted:
            hty = hty or f"st * flow {RET[u.ret]}"
            L.append(f"Definition {hn} {parstr} {hb} : {hty} :=")
            L.append(textwrap.fill(hbody.replace("@PARARGS@", argstr), 100, initial_indent="  ",
                                   subsequent_indent="  ", break_long_words=False,
                                   break_on_hyphens=False) + ".")
        body = body.replace("@PARARGS@", argstr)
        L.append(f"Definition body {parstr} (s0 : st) : st * flow {RET[u.ret]} :=")
        L.append(textwrap.fill(body, 100, initial_indent="  ", subsequent_indent="  ",
                               break_long_words=False, break_on_hyphens=False) + ".")
        L.append(f"Definition run {parstr} : st * flow {RET[u.ret]} := body {argstr} (init {argstr}).")
        L.append(f"Definition py {parstr} : result {RET[u.ret]} := finish {RET_DEFAULT[u.ret]} (run {argstr}).")
        if u.outputs or self.uses_out:
            outs = list(u.outputs) + (["out"] if self.uses_out else [])
            ty = " * ".join(ftype(o) for o in outs)
            val = ", ".join(f"v_{o} (fst (run {argstr}))" for o in outs)
            L.append(f"Definition post {parstr} : {ty} := ({val}).")
        L.append(f"End {u.module}.")
        return "\n".join(L) + "\n", sha, (fn.lineno, fn.end_lineno)


def translate_unit(unit: Unit, repo: str):
    path = os.path.join(repo, unit.file)
    with open(path) as f:
        src = f.read()
    unit._repo = repo
    tr = (getattr(unit, "tr_class", None) or Tr)(unit, src)
    # a parameter that is assigned is a local initialised from the parameter; reading it
    # must go through the state — handled because `locals` is checked before params.
    return tr.emit()


def write_if_changed(path, text):
    try:
        with open(path) as f:
            if f.read() == text:
                return False
    except FileNotFoundError:
        pass
    tmp = path + ".tmp"
    with open(tmp, "w") as f:
        f.write(text)
    os.replace(tmp, path)
    return True
