"""C11 — translated unit: Request.prepare (aiokafka/protocol/api.py), the version negotiation of every request builder.

Fail-closed: the method must consist of exactly these statements (anything else: Unsupported); what is *translated*
(not just recognised) is the index taken when the broker's range is unknown, the iteration order over `_CLASSES`, and
the range condition (a chain of comparisons over min_version / max_version / req_class.API_VERSION):

    api_key = self.API_KEY
    if api_key not in versions:
        if self.ALLOW_UNKNOWN_API_VERSION:
            return self.build(self._CLASSES[<K>])
        raise IncompatibleBrokerVersion(...)
    min_version, max_version = versions[api_key]
    for req_class in reversed(self._CLASSES) | self._CLASSES:
        if <COND>:
            return self.build(req_class)
    raise NotImplementedError(...)

Output gen/PrepareGen.v: `prepare_py vers allow_unknown adv : outcome` over the types of model/C11Negotiate.v."""
import ast
import hashlib

from py2gallina import Unit, Unsupported

FILE = "aiokafka/protocol/api.py"
CMP = {ast.LtE: "<=?", ast.Lt: "<?", ast.GtE: ">=?", ast.Gt: ">?", ast.Eq: "=?"}


def fail(node, msg):
    raise Unsupported(f"units_c11: line {getattr(node, 'lineno', '?')}: {msg}: {ast.unparse(node)[:150]}")


class PrepareTr:
    def __init__(self, unit, src):
        self.src = src
        self.tree = ast.parse(src)

    def operand(self, e):
        s = ast.unparse(e)
        if s == "min_version":
            return "lo"
        if s == "max_version":
            return "hi"
        if s == "req_class.API_VERSION":
            return "(snd p)"
        if isinstance(e, ast.Constant) and type(e.value) is int:
            return f"({e.value})"
        fail(e, "operand outside the subset")

    def cond(self, e):
        if isinstance(e, ast.BoolOp) and isinstance(e.op, ast.And):
            return "(" + " && ".join(self.cond(v) for v in e.values) + ")"
        if isinstance(e, ast.Compare):
            parts = []
            left = e.left
            for op, right in zip(e.ops, e.comparators):
                if type(op) not in CMP:
                    fail(e, "comparison operator outside the subset")
                parts.append(f"({self.operand(left)} {CMP[type(op)]} {self.operand(right)})")
                left = right
            return "(" + " && ".join(parts) + ")"
        fail(e, "condition outside the subset")

    def emit(self):
        fn = None
        for n in ast.walk(self.tree):
            if isinstance(n, ast.ClassDef) and n.name == "Request":
                for st in n.body:
                    if isinstance(st, ast.FunctionDef) and st.name == "prepare":
                        fn = st
        if fn is None:
            raise Unsupported("units_c11: Request.prepare not found")
        body = list(fn.body)
        if body and isinstance(body[0], ast.Expr) and isinstance(body[0].value, ast.Constant):
            body = body[1:]
        if len(body) != 5:
            fail(fn, f"expected 5 statements, found {len(body)}")
        s0, s1, s2, s3, s4 = body
        if ast.unparse(s0) != "api_key = self.API_KEY":
            fail(s0, "first statement")
        if not (isinstance(s1, ast.If) and ast.unparse(s1.test) == "api_key not in versions" and not s1.orelse
                and len(s1.body) == 2 and isinstance(s1.body[0], ast.If) and not s1.body[0].orelse
                and ast.unparse(s1.body[0].test) == "self.ALLOW_UNKNOWN_API_VERSION" and len(s1.body[0].body) == 1
                and isinstance(s1.body[0].body[0], ast.Return) and isinstance(s1.body[1], ast.Raise)
                and ast.unparse(s1.body[1].exc.func) == "IncompatibleBrokerVersion"):
            fail(s1, "unknown-version branch")
        ret = s1.body[0].body[0].value
        if not (isinstance(ret, ast.Call) and ast.unparse(ret.func) == "self.build" and len(ret.args) == 1
                and isinstance(ret.args[0], ast.Subscript) and ast.unparse(ret.args[0].value) == "self._CLASSES"
                and isinstance(ret.args[0].slice, ast.Constant) and type(ret.args[0].slice.value) is int
                and ret.args[0].slice.value >= 0):
            fail(ret, "class used when the broker's range is unknown")
        k = ret.args[0].slice.value
        if ast.unparse(s2) != "(min_version, max_version) = versions[api_key]" \
                and ast.unparse(s2) != "min_version, max_version = versions[api_key]":
            fail(s2, "range unpacking")
        if not (isinstance(s3, ast.For) and not s3.orelse and ast.unparse(s3.target) == "req_class" and len(s3.body) == 1
                and isinstance(s3.body[0], ast.If) and not s3.body[0].orelse and len(s3.body[0].body) == 1
                and ast.unparse(s3.body[0].body[0]) == "return self.build(req_class)"):
            fail(s3, "selection loop")
        it = ast.unparse(s3.iter)
        if it == "reversed(self._CLASSES)":
            order = "(rev (index_from 0 vers))"
        elif it == "self._CLASSES":
            order = "(index_from 0 vers)"
        else:
            fail(s3.iter, "iteration order")
        cond = self.cond(s3.body[0].test)
        if not (isinstance(s4, ast.Raise) and ast.unparse(s4.exc.func) == "NotImplementedError"):
            fail(s4, "last statement")
        text_src = ast.get_source_segment(self.src, fn)
        sha = hashlib.sha256(text_src.encode()).hexdigest()
        text = (f"(* GENERATED by translator/units_c11.py — do not edit.\n   source: {FILE}:{fn.lineno}-{fn.end_lineno} Request.prepare\n"
                f"   sha256 of the function text: {sha} *)\n"
                "From Coq Require Import ZArith List Bool.\nFrom Verif Require Import Wire KafkaSpec C11Negotiate.\n"
                "Import ListNotations.\nOpen Scope Z_scope.\nModule PrepareGen.\n"
                "Definition prepare_py (vers : list Z) (allow_unknown : bool) (adv : option (Z * Z)) : outcome :=\n"
                "  match adv with\n"
                "  | None => if allow_unknown then match nth_error vers " + str(k) + " with\n"
                "                                   | Some v => Chosen " + str(k) + " v\n"
                "                                   | None => ErrIndex\n"
                "                                   end\n"
                "            else ErrIncompatible\n"
                "  | Some (lo, hi) =>\n"
                "      match find (fun p : nat * Z => " + cond + ") " + order + " with\n"
                "      | Some (i, v) => Chosen i v\n"
                "      | None => ErrNotImplemented\n"
                "      end\n"
                "  end.\nEnd PrepareGen.\n")
        return text, sha, [fn.lineno, fn.end_lineno]


_u = Unit("PrepareGen", FILE, "Request.prepare", {}, "unit")
_u.tr_class = PrepareTr
UNITS = [_u]
