"""Fail-closed translator for broker-error dispatch chains (tie T for C06 / C13-like handlers).

A response handler in aiokafka has the shape

    error_type = Errors.for_code(<code>)
    if error_type is Errors.NoError: ...
    elif error_type in (Errors.A, Errors.B): self.coordinator_dead() ...
    else: raise Errors.KafkaError(...)
    return False

The statements from the first `if` that tests `error_type` to the end of the enclosing block are
translated into one Gallina function  <name> : Z -> list act  giving, for an error code, the
recovery actions the handler performs, in order, up to its return or raise.  Log calls and pure
local bindings are skipped; any statement, condition or call outside the recognised subset makes
the translation fail (the generated file then does not compile and the check reports it).

The errno of every error class is read from aiokafka/errors.py (AST, including aliases)."""
import ast
import hashlib
import os

from py2gallina import Unsupported, find_function

# method / attribute effects recognised inside a branch: source text of the call -> action constructor
CALL_ACTS = {
    "coordinator_dead": "ACoordinatorDead",
    "request_rejoin": "ARequestRejoin",
    "reset_generation": "AResetGeneration",
    "force_metadata_update": "AMetadataUpdate",
    "_coordinator_dead": "ACoordinatorDead",
    "await_reset": "AAwaitReset",       # tp_state.await_reset(strategy): the position is given up, reset by policy
    "_set_error": "ASetError",          # the error is buffered and raised by the next getone()/getmany()
    "_abortable_error": "AAbortable",   # the transaction moves to ABORTABLE_ERROR
    "done": "ADone",                 # batch.done(...): the records' futures resolve with metadata
    "failure": "AFail",              # batch.failure(exception=...): the records' futures fail
}
PRELUDE = """From Coq Require Import ZArith List Bool.
From Verif Require Import DispatchActs.
Import ListNotations.
Open Scope Z_scope.
"""


def class_flags(repo, attr):
    """{errno: bool} of a boolean class attribute (retriable / invalid_metadata) of every broker error class,
    resolved through the base classes as Python would."""
    path = os.path.join(repo, "aiokafka", "errors.py")
    tree = ast.parse(open(path).read())
    own, bases, errno = {}, {}, {}
    for n in tree.body:
        if isinstance(n, ast.ClassDef):
            bases[n.name] = [b.id for b in n.bases if isinstance(b, ast.Name)]
            for st in n.body:
                tgt = None
                if isinstance(st, ast.Assign) and len(st.targets) == 1 and isinstance(st.targets[0], ast.Name):
                    tgt, val = st.targets[0].id, st.value
                elif isinstance(st, ast.AnnAssign) and isinstance(st.target, ast.Name) and st.value is not None:
                    tgt, val = st.target.id, st.value
                if tgt == attr and isinstance(val, ast.Constant) and isinstance(val.value, bool):
                    own[n.name] = val.value
                if tgt == "errno":
                    if isinstance(val, ast.UnaryOp) and isinstance(val.op, ast.USub):
                        errno[n.name] = -val.operand.value
                    elif isinstance(val, ast.Constant):
                        errno[n.name] = val.value

    def resolve(c, seen=()):
        if c in own:
            return own[c]
        for b in bases.get(c, []):
            if b not in seen:
                r = resolve(b, seen + (c,))
                if r is not None:
                    return r
        return None
    return {errno[c]: bool(resolve(c)) for c in errno}


def errno_table(repo):
    path = os.path.join(repo, "aiokafka", "errors.py")
    tree = ast.parse(open(path).read())
    table = {}
    bases = {}
    for n in tree.body:
        if isinstance(n, ast.ClassDef):
            bases[n.name] = [b.id for b in n.bases if isinstance(b, ast.Name)]
            for s in n.body:
                if isinstance(s, ast.Assign) and len(s.targets) == 1 and isinstance(s.targets[0], ast.Name) \
                        and s.targets[0].id == "errno":
                    v = s.value
                    if isinstance(v, ast.UnaryOp) and isinstance(v.op, ast.USub):
                        table[n.name] = -v.operand.value
                    elif isinstance(v, ast.Constant):
                        table[n.name] = v.value
        elif isinstance(n, ast.Assign) and len(n.targets) == 1 and isinstance(n.targets[0], ast.Name) \
                and isinstance(n.value, ast.Name) and n.value.id in table:
            table[n.targets[0].id] = table[n.value.id]
    return table


class DispatchTr:
    """tr_class for py2gallina.Unit: unit.extra = {'var': 'error_type', 'start': k}."""

    def __init__(self, unit, src):
        self.u = unit
        self.src = src
        self.tree = ast.parse(src)
        self.fn, _cls = find_function(self.tree, unit.qualname, allow_async=True)
        self.var = getattr(unit, "dispatch_var", "error_type")
        self.errno = errno_table(unit._repo)
        self.lets = []
        self.uses_flags = set()

    # ---------------------------------------------------------------- conditions
    def err_code(self, node):
        # Errors.X  |  X
        if isinstance(node, ast.Attribute) and isinstance(node.value, ast.Name) and node.value.id == "Errors":
            name = node.attr
        elif isinstance(node, ast.Name):
            name = node.id
        else:
            raise Unsupported(f"error class expression {ast.dump(node)[:80]}")
        if name not in self.errno:
            raise Unsupported(f"error class {name} has no errno in aiokafka/errors.py")
        return self.errno[name]

    def is_var(self, node):
        return isinstance(node, ast.Name) and node.id == self.var

    def cond(self, t):
        if isinstance(t, ast.Compare) and len(t.ops) == 1 and self.is_var(t.left):
            op, rhs = t.ops[0], t.comparators[0]
            if isinstance(op, (ast.Is, ast.Eq)):
                return f"(c =? {self.z(self.err_code(rhs))})"
            if isinstance(op, (ast.IsNot, ast.NotEq)):
                return f"(negb (c =? {self.z(self.err_code(rhs))}))"
            if isinstance(op, (ast.In, ast.NotIn)) and isinstance(rhs, (ast.Tuple, ast.List, ast.Set)):
                d = " || ".join(f"(c =? {self.z(self.err_code(e))})" for e in rhs.elts)
                d = f"({d})" if rhs.elts else "false"
                return d if isinstance(op, ast.In) else f"(negb {d})"
        if isinstance(t, ast.UnaryOp) and isinstance(t.op, ast.Not):
            return f"(negb {self.cond(t.operand)})"
        if isinstance(t, ast.Call):
            name, full = self.call_name(t)
            # getattr(error, "invalid_metadata", False)
            if full == "getattr" and len(t.args) == 3 and self.is_var(t.args[0]) \
                    and isinstance(t.args[1], ast.Constant) and t.args[1].value in ("invalid_metadata", "retriable") \
                    and isinstance(t.args[2], ast.Constant) and t.args[2].value is False:
                self.uses_flags.add(t.args[1].value)
                return f"({t.args[1].value} c)"
            # a predicate method of the same class over (error instance, ...): translated separately
            preds = getattr(self.u, "dispatch_preds", {})
            if name in preds:
                return f"({preds[name]} c {' '.join(self.u.dispatch_params)})"
        if isinstance(t, ast.BoolOp):
            parts = [self.cond(v) for v in t.values]
            j = " && " if isinstance(t.op, ast.And) else " || "
            return "(" + j.join(parts) + ")"
        raise Unsupported(f"{self.u.qualname}: condition outside the subset at line {t.lineno}: "
                          f"{ast.get_source_segment(self.src, t)!r}")

    @staticmethod
    def z(n):
        return f"({n})" if n < 0 else str(n)

    def mentions_var(self, node):
        return any(self.is_var(n) for n in ast.walk(node))

    # ---------------------------------------------------------------- statements
    def call_name(self, call):
        f = call.func
        if isinstance(f, ast.Attribute):
            return f.attr, ast.get_source_segment(self.src, f)
        if isinstance(f, ast.Name):
            return f.id, f.id
        return None, None

    def raise_act(self, node, env):
        e = node.exc
        if e is None:
            return "ARaiseOther"
        if isinstance(e, ast.Name) and e.id in env:
            return env[e.id]
        if isinstance(e, ast.Call):
            f = e.func
            if self.is_var(f):
                return "ARaiseSame"
            if isinstance(f, ast.Name) and f.id == "ProducerFenced":
                return "ARaiseFenced"
            if isinstance(f, ast.Name) and f.id in self.errno:
                return f"(ARaiseCode {self.z(self.errno[f.id])})"
            if isinstance(f, ast.Attribute) and isinstance(f.value, ast.Name) and f.value.id == "Errors":
                if f.attr == "KafkaError":
                    return "ARaiseUnexpected"
                if f.attr in self.errno:
                    return f"(ARaiseCode {self.z(self.errno[f.attr])})"
                return "ARaiseOther"
        raise Unsupported(f"{self.u.qualname}: raise outside the subset at line {node.lineno}")

    def block(self, stmts, k, env):
        """Gallina term (list act) for `stmts` followed by continuation term k."""
        if not stmts:
            return k
        s, rest = stmts[0], stmts[1:]
        if isinstance(s, ast.Return):
            v = s.value
            if v is None or (isinstance(v, ast.Constant) and v.value is None):
                return "[AReturn RNone]"
            if isinstance(v, ast.Constant) and v.value is True:
                return "[AReturn RTrue]"
            if isinstance(v, ast.Constant) and v.value is False:
                return "[AReturn RFalse]"
            srcv = ast.get_source_segment(self.src, v)
            if srcv in ("self._default_backoff", "BACKOFF_OVERRIDE"):
                return "[ARetryAfterBackoff]"      # the handler asks to be run again after a backoff
            return "[AReturn RValue]"
        if isinstance(s, ast.Raise):
            return f"[{self.raise_act(s, env)}]"
        if isinstance(s, ast.Pass):
            return self.block(rest, k, env)
        if ast.get_source_segment(self.src, s) in getattr(self.u, "dispatch_ignore", ()):
            return self.block(rest, k, env)
        if isinstance(s, ast.If):
            atoms = getattr(self.u, "dispatch_atoms", {})
            tsrc = ast.get_source_segment(self.src, s.test)
            if tsrc in atoms:
                kk = self.bind(self.block(rest, k, env))
                return f"(if {atoms[tsrc]} then {self.block(s.body, kk, env)} else {self.block(s.orelse, kk, env)})"
            if self.mentions_var(s.test):
                c = self.cond(s.test)
                # the success branch is not part of the dispatch: summarised
                if isinstance(s.test, ast.Compare) and isinstance(s.test.ops[0], (ast.Is, ast.Eq)) \
                        and self.err_code(s.test.comparators[0]) == 0:
                    ends = s.body and isinstance(s.body[-1], (ast.Return, ast.Raise))
                    body = "[ASuccess]" if ends else f"(ASuccess :: {self.bind(self.block(rest, k, env))})"
                    if ends:
                        return f"(if {c} then {body} else {self.block(s.orelse + rest, k, env)})"
                    kk = self.bind(self.block(rest, k, env))
                    return f"(if {c} then ASuccess :: {kk} else {self.block(s.orelse, kk, env)})"
                kk = self.bind(self.block(rest, k, env))
                return f"(if {c} then {self.block(s.body, kk, env)} else {self.block(s.orelse, kk, env)})"
            raise Unsupported(f"{self.u.qualname}: `if` on something else than {self.var} inside the dispatch "
                              f"at line {s.lineno}")
        if isinstance(s, ast.Expr):
            v = s.value
            if isinstance(v, ast.Constant):        # docstring / ellipsis
                return self.block(rest, k, env)
            if isinstance(v, ast.Await):
                inner = v.value
                if isinstance(inner, ast.Call):
                    name, full = self.call_name(inner)
                    if full == "asyncio.sleep":
                        return f"(ABackoff :: {self.block(rest, k, env)})"
                    if name in CALL_ACTS:
                        return f"({CALL_ACTS[name]} :: {self.block(rest, k, env)})"
                raise Unsupported(f"{self.u.qualname}: await outside the subset at line {s.lineno}")
            if isinstance(v, ast.Call):
                name, full = self.call_name(v)
                if full and (full.startswith("log.") or full.startswith("self.log.")):
                    return self.block(rest, k, env)
                if name in CALL_ACTS:
                    return f"({CALL_ACTS[name]} :: {self.block(rest, k, env)})"
                if name == "add" and full.endswith("unauthorized_topics.add"):
                    return f"(AErrored :: {self.block(rest, k, env)})"
                if name == "append" and full.endswith("_to_reenqueue.append"):
                    return f"(AReenqueue :: {self.block(rest, k, env)})"
            raise Unsupported(f"{self.u.qualname}: statement outside the subset at line {s.lineno}: "
                              f"{ast.get_source_segment(self.src, s)!r}")
        if isinstance(s, ast.Assign) and len(s.targets) == 1:
            t, v = s.targets[0], s.value
            src_t = ast.get_source_segment(self.src, t)
            # err = error_type() / error = error_type(self.group_id): a local exception object
            if isinstance(t, ast.Name) and isinstance(v, ast.Call) and self.is_var(v.func):
                env2 = dict(env)
                env2[t.id] = "ARaiseSame"
                return self.block(rest, k, env2)
            if isinstance(t, ast.Name) and isinstance(v, ast.Call) and isinstance(v.func, ast.Attribute) \
                    and isinstance(v.func.value, ast.Name) and v.func.value.id == "Errors":
                env2 = dict(env)
                env2[t.id] = "ARaiseUnexpected" if v.func.attr == "KafkaError" else "ARaiseOther"
                return self.block(rest, k, env2)
            if isinstance(t, ast.Name) and isinstance(v, ast.Call) and isinstance(v.func, ast.Name) \
                    and (v.func.id in self.errno or v.func.id[:1].isupper()):
                env2 = dict(env)
                env2[t.id] = f"(ARaiseCode {self.z(self.errno[v.func.id])})" if v.func.id in self.errno else "ARaiseOther"
                return self.block(rest, k, env2)
            if src_t.endswith("member_id") and not self.mentions_var(v):
                return f"(ASetMemberId :: {self.block(rest, k, env)})"
            if isinstance(t, ast.Name) and t.id == "try_join" and isinstance(v, ast.Constant):
                return f"({'ARetryJoin' if v.value else 'ANoRetry'} :: {self.block(rest, k, env)})"
            if isinstance(t, ast.Subscript) and src_t.startswith("errored["):
                return f"(AErrored :: {self.block(rest, k, env)})"
            raise Unsupported(f"{self.u.qualname}: assignment outside the subset at line {s.lineno}: {src_t}")
        raise Unsupported(f"{self.u.qualname}: {type(s).__name__} outside the subset at line {s.lineno}")

    def pred_expr(self, e, argmap):
        """boolean expression of a predicate method: names of the unit's parameters, `error.retriable`,
        `X is None`, calls declared in unit.dispatch_atoms, and/or/not, constants"""
        atoms = getattr(self.u, "dispatch_atoms", {})
        src = ast.get_source_segment(self.src, e)
        if src in atoms:
            return atoms[src]
        if isinstance(e, ast.Constant) and isinstance(e.value, bool):
            return "true" if e.value else "false"
        if isinstance(e, ast.BoolOp):
            j = " && " if isinstance(e.op, ast.And) else " || "
            return "(" + j.join(self.pred_expr(v, argmap) for v in e.values) + ")"
        if isinstance(e, ast.UnaryOp) and isinstance(e.op, ast.Not):
            return f"(negb {self.pred_expr(e.operand, argmap)})"
        if isinstance(e, ast.Attribute) and isinstance(e.value, ast.Name) and e.value.id == argmap.get("error") \
                and e.attr in ("retriable", "invalid_metadata"):
            self.uses_flags.add(e.attr)
            return f"({e.attr} c)"
        raise Unsupported(f"{self.u.qualname}: predicate expression outside the subset: {src!r}")

    def pred_definitions(self):
        out = []
        for meth, coqname in getattr(self.u, "dispatch_preds", {}).items():
            cls = self.u.qualname.split(".")[0]
            fn, _ = find_function(self.tree, f"{cls}.{meth}", allow_async=True)
            args = [a.arg for a in fn.args.args]
            argmap = {"error": args[1]} if len(args) > 1 else {}
            # body: (if cond: return <bool>)* ; return <expr>
            term = None
            stmts = [s for s in fn.body if not (isinstance(s, ast.Expr) and isinstance(s.value, ast.Constant))]
            for st in reversed(stmts):
                if isinstance(st, ast.Return):
                    term = self.pred_expr(st.value, argmap)
                elif isinstance(st, ast.If) and len(st.body) == 1 and isinstance(st.body[0], ast.Return) and not st.orelse \
                        and term is not None:
                    term = f"(if {self.pred_expr(st.test, argmap)} then {self.pred_expr(st.body[0].value, argmap)} else {term})"
                else:
                    raise Unsupported(f"{cls}.{meth}: statement outside the predicate subset at line {st.lineno}")
            if term is None:
                raise Unsupported(f"{cls}.{meth}: no return")
            ptxt = "".join(f" ({p} : bool)" for p in self.u.dispatch_params)
            seg = ast.get_source_segment(self.src, fn)
            out.append(f"(* {cls}.{meth}, lines {fn.lineno}-{fn.end_lineno}, sha256 {hashlib.sha256(seg.encode()).hexdigest()[:16]} *)")
            out.append(f"Definition {coqname} (c : Z){ptxt} : bool := {term}.")
            out.append("")
        return out

    def bind(self, term):
        """Share a continuation through a let (keeps the generated term linear in the source size)."""
        if len(term) < 40:
            return term
        name = f"k{len(self.lets)}"
        self.lets.append((name, term))
        return name

    # ---------------------------------------------------------------- chain location
    def emit(self):
        u = self.u
        seg = ast.get_source_segment(self.src, self.fn)
        sha = hashlib.sha256(seg.encode()).hexdigest()
        skip = getattr(u, "dispatch_skip", 0)
        stmts = self.fn.body
        chain = None
        # `dispatch_skip` = number of earlier chains on the same variable to pass over
        found = []

        def collect(ss):
            for i, s in enumerate(ss):
                if isinstance(s, ast.If) and self.mentions_var(s.test):
                    found.append(ss[i:])
                    return
                for fld in ("body", "orelse", "finalbody"):
                    sub = getattr(s, fld, None)
                    if isinstance(sub, list) and sub and isinstance(sub[0], ast.stmt):
                        collect(sub)
                if isinstance(s, ast.Try):
                    for h in s.handlers:
                        collect(h.body)
        collect(stmts)
        if len(found) <= skip:
            raise Unsupported(f"{u.qualname}: dispatch chain #{skip} on `{self.var}` not found")
        chain = found[skip]
        tail = getattr(u, "dispatch_tail", "[AFallThrough]")
        self.lets = []
        term = self.block(chain, tail, {})
        L = [f"(* GENERATED by translator/dispatch2gallina.py — do not edit.",
             f"   source: {u.file}:{chain[0].lineno}-{chain[-1].end_lineno}  function {u.qualname}",
             f"   sha256 of the function text: {sha} *)", PRELUDE]
        name = u.module[0].lower() + u.module[1:]
        params = getattr(u, "dispatch_params", [])
        pred_defs = self.pred_definitions()          # may add to uses_flags
        for fl in sorted(self.uses_flags):
            tab = class_flags(u._repo, fl)
            codes = sorted(c for c, v in tab.items() if v)
            L.append(f"(* errno of the classes of aiokafka/errors.py whose `{fl}` attribute is True *)")
            L.append(f"Definition {fl} (c : Z) : bool := existsb (Z.eqb c) [{'; '.join(self.z(c) for c in codes)}].")
            L.append("")
        L.extend(pred_defs)
        ptxt = "".join(f" ({p} : bool)" for p in params)
        L.append(f"Definition {name} (c : Z){ptxt} : list act :=")
        for n, t in self.lets:
            L.append(f"  let {n} := {t} in")
        L.append(f"  {term}.")
        L.append("")
        codes = sorted({int(x) for x in __import__('re').findall(r"c =\? \(?(-?\d+)\)?", "\n".join(L))})
        L.append(f"(* the codes the source names in this chain *)")
        L.append(f"Definition {name}_named_codes : list Z := [{'; '.join(self.z(c) for c in codes)}].")
        L.append("")
        return "\n".join(L), sha, [chain[0].lineno, chain[-1].end_lineno]
