"""C08 — translated unit: PartitionRecords._consume_aborted_up_to (aiokafka/consumer/fetcher.py).

The function is outside the integer-only subset of py2gallina.Tr: it walks a *list of pairs*
that it pops from the front and adds to a set.  `QueueTr` below extends `Tr` (same compilation
scheme, same fail-closed rule: every node that is not one of the forms listed here is handed to
the base translator, which raises `Unsupported` for what it does not know) with exactly four
more forms, all about one declared "queue" (a Python list of int pairs held in an object
attribute, `Unit.queues = {"self._aborted_transactions": "q"}`):

  NAME = <queue>                 local alias of the same list object (reference semantics: the
                                 alias and the attribute denote the one state field `v_q`);
                                 NAME must be assigned exactly once in the function
  <queue> as a truth value       `negb (is_nil (v_q s))`      (while / if tests)
  A, B = <queue>[0]              guard `py_index_ok (v_q s) 0` (else IndexError), then
                                 A := fst (hd), B := snd (hd) (both become Z locals)
  <queue>.pop(0)   (statement)   guard non-empty (else IndexError), `v_q := tl (v_q s)`

The set insertion `self._aborted_producers.add(x)` is an ordinary effect call of the base
translator (`effects={...: ("out", 1)}`): the inserted producer ids are appended to `v_out` in
program order; the caller (model/C08_Log.v) adds them to its aborted-producer set.

The generated module exposes `post p_batch_offset in_q : list (Z*Z) * list Z` = (the queue
afterwards, the producer ids added, in order) and `py … : result unit` (exceptions, fuel).

How it is plugged in without touching py2gallina.py: gen.py calls
`py2gallina.translate_unit(unit, repo)`, which instantiates the module-level name `Tr`.  This
file rebinds `py2gallina.Tr` to a dispatcher that returns `unit.tr_class(unit, src)` when the
unit declares a `tr_class` and the original `Tr(unit, src)` otherwise, so every other unit is
translated exactly as before.  (Requested change for the shared translator, see the C08
report: `translate_unit` should honour `unit.tr_class` itself; this shim then becomes a no-op.)
"""
import ast
import hashlib
import textwrap

import py2gallina as _p
from py2gallina import RET, RET_DEFAULT, TYPES, Unit, Unsupported, fail, pname

_BaseTr = _p.Tr if isinstance(_p.Tr, type) else getattr(_p.Tr, "_base", None)


class QueueUnit(Unit):
    def __init__(self, *a, queues=None, **kw):
        super().__init__(*a, **kw)
        self.queues = queues or {}      # {python source of the attribute: state field name}
        if len(self.queues) != 1:
            raise Unsupported("QueueUnit: exactly one queue must be declared")
        self.tr_class = QueueTr


class QueueTr(_BaseTr):
    def __init__(self, unit, src):
        self.qfield = list(unit.queues.values())[0]
        self.qsrc = list(unit.queues.keys())[0]
        self.qnames = set()            # local names bound (once) to the queue object
        super().__init__(unit, src)

    # ------------------------------------------------------------------ recognisers
    def is_queue(self, node):
        if ast.unparse(node) == self.qsrc:
            return True
        return isinstance(node, ast.Name) and node.id in self.qnames

    def is_alias_assign(self, st):
        return (isinstance(st, ast.Assign) and len(st.targets) == 1
                and isinstance(st.targets[0], ast.Name) and ast.unparse(st.value) == self.qsrc)

    def is_head_unpack(self, st):
        if not (isinstance(st, ast.Assign) and len(st.targets) == 1):
            return False
        t, v = st.targets[0], st.value
        return (isinstance(t, ast.Tuple) and len(t.elts) == 2
                and all(isinstance(e, ast.Name) for e in t.elts)
                and t.elts[0].id != t.elts[1].id
                and isinstance(v, ast.Subscript) and self.is_queue(v.value)
                and isinstance(v.slice, ast.Constant) and v.slice.value == 0
                and type(v.slice.value) is int)

    def is_pop0(self, st):
        if not (isinstance(st, ast.Expr) and isinstance(st.value, ast.Call)):
            return False
        c = st.value
        return (isinstance(c.func, ast.Attribute) and c.func.attr == "pop"
                and self.is_queue(c.func.value) and len(c.args) == 1 and not c.keywords
                and isinstance(c.args[0], ast.Constant) and c.args[0].value == 0
                and type(c.args[0].value) is int)

    # ------------------------------------------------------------------ locals
    def collect_locals(self):
        # pass 1: names aliasing the queue (assigned exactly once, to the queue attribute)
        assigned = {}
        for node in ast.walk(self.fn):
            tg = []
            if isinstance(node, ast.Assign):
                tg = node.targets
            elif isinstance(node, ast.AugAssign):
                tg = [node.target]
            elif isinstance(node, (ast.For, ast.comprehension)):
                tg = [node.target]
            elif isinstance(node, (ast.With, ast.NamedExpr, ast.Global, ast.Nonlocal, ast.Delete,
                                   ast.Import, ast.ImportFrom, ast.Try, ast.Lambda,
                                   ast.FunctionDef, ast.AsyncFunctionDef, ast.ClassDef)) \
                    and node is not self.fn:
                fail(node, "construct not supported in a queue unit")
            for t in tg:
                for nm in ast.walk(t):
                    if isinstance(nm, ast.Name):
                        assigned[nm.id] = assigned.get(nm.id, 0) + 1
        for node in ast.walk(self.fn):
            if self.is_alias_assign(node):
                nm = node.targets[0].id
                if assigned.get(nm) != 1:
                    fail(node, "queue alias assigned more than once")
                if nm in self.u.params:
                    fail(node, "queue alias shadows a parameter")
                self.qnames.add(nm)
        # pass 2: int locals (as in the base class), plus the targets of `A, B = q[0]`
        loc = []

        def add(n):
            if n in self.qnames:
                fail(self.fn, f"{n} is both a queue alias and an int local")
            if n not in loc:
                loc.append(n)

        for v in self.u.state_in:
            add(v)
        for node in ast.walk(self.fn):
            if self.is_alias_assign(node):
                continue
            if self.is_head_unpack(node):
                for e in node.targets[0].elts:
                    add(e.id)
                continue
            targets = []
            if isinstance(node, ast.Assign):
                targets = node.targets
            elif isinstance(node, ast.AugAssign):
                targets = [node.target]
            elif isinstance(node, ast.For):
                targets = [node.target]
            for t in targets:
                if isinstance(t, ast.Name):
                    add(t.id)
                else:
                    a = self.alias_of(t)
                    if a is None:
                        fail(t, "assignment target not supported")
                    add(a)
        if self.qfield in loc or self.qfield == "out":
            fail(self.fn, "queue field name clashes with a local")
        return loc

    # ------------------------------------------------------------------ expressions
    def expr(self, e, s):
        if self.is_queue(e):
            return f"(v_{self.qfield} {s})", "queue", []
        return super().expr(e, s)

    def truth(self, c, t, node):
        if t == "queue":
            return f"(negb (is_nil {c}))"
        return super().truth(c, t, node)

    # ------------------------------------------------------------------ statements
    def block(self, stmts, s):
        stmts = [st for st in stmts
                 if not (isinstance(st, ast.Expr) and isinstance(st.value, ast.Constant)
                         and isinstance(st.value.value, str)) and not isinstance(st, ast.Pass)]
        if not stmts:
            return f"({s}, FNext)"
        st, rest = stmts[0], stmts[1:]
        q = self.qfield
        if self.is_alias_assign(st):
            # binding a second name to the same list object changes no state
            return self.block(rest, s)
        if self.is_head_unpack(st):
            a, b = (e.id for e in st.targets[0].elts)
            s2, s3 = self.new("s"), self.new("s")
            restc = self.block(rest, s3)
            body = (f"(let {s2} := set_{a} {s} (fst (py_index (0, 0) (v_{q} {s}) 0)) in "
                    f"(let {s3} := set_{b} {s2} (snd (py_index (0, 0) (v_{q} {s2}) 0)) in {restc}))")
            return self.wrap([("guard", f"(py_index_ok (v_{q} {s}) 0)", "IndexError")], s, body)
        if self.is_pop0(st):
            s2 = self.new("s")
            restc = self.block(rest, s2)
            body = f"(let {s2} := set_{q} {s} (tl (v_{q} {s})) in {restc})"
            return self.wrap([("guard", f"(negb (is_nil (v_{q} {s})))", "IndexError")], s, body)
        # any other use of the queue (slicing, append, passing it on, comparing, …) reaches the
        # base translator as a value of type "queue", which no base rule accepts
        return super().block(stmts, s)

    # ------------------------------------------------------------------ whole unit
    def emit(self):
        u = self.u
        fn = self.fn
        seg = ast.get_source_segment(self.src, fn)
        sha = hashlib.sha256(seg.encode()).hexdigest()
        argnames = [a.arg for a in fn.args.args]
        for a in argnames:
            if a not in u.params:
                raise Unsupported(f"{u.qualname}: parameter {a} not declared in unit")
        for a in u.params:
            if a not in argnames:
                raise Unsupported(f"{u.qualname}: declared parameter {a} not in source")
        if fn.args.vararg or fn.args.kwarg or fn.args.kwonlyargs or fn.args.defaults:
            raise Unsupported("varargs / defaults")
        if u.ret != "unit":
            raise Unsupported("queue units return None")
        for node in ast.walk(fn):
            if isinstance(node, ast.Return) and node.value is not None:
                fail(node, "queue unit must not return a value")
        q = self.qfield
        body = self.block(fn.body, "s0")
        fields = list(self.locals) + [q] + (["out"] if self.uses_out else [])

        def ftype(f):
            return "list (Z * Z)" if f == q else ("list Z" if f == "out" else "Z")

        L = []
        L.append("(* GENERATED by translator/units_c08.py (QueueTr over py2gallina.Tr) — do not edit.")
        L.append(f"   source: {u.file}:{fn.lineno}-{fn.end_lineno}  function {u.qualname}")
        L.append(f"   sha256 of the function text: {sha} *)")
        L.append("From Coq Require Import ZArith List String Bool.")
        L.append("From Verif Require Import Imp.")
        for r in u.requires:
            L.append(f"From Verif Require Import {r}.")
        L.append("Import ListNotations.")
        L.append("Open Scope list_scope.")
        L.append("Open Scope bool_scope.")
        L.append("Open Scope Z_scope.")
        L.append(f"Module {u.module}.")
        L.append("Record st := mk { " + "; ".join(f"v_{f} : {ftype(f)}" for f in fields) + " }.")
        for f in fields:
            L.append(f"Definition set_{f} (s : st) (x : {ftype(f)}) : st := mk "
                     + " ".join(("x" if g == f else f"(v_{g} s)") for g in fields) + ".")
        pars = []
        for a in argnames:
            t = u.params[a]
            if t == "skip":
                continue
            pars.append((pname(a), TYPES[t]))
        for v in u.state_in:
            pars.append((f"in_{v}", "Z"))
        pars.append((f"in_{q}", "list (Z * Z)"))
        parstr = " ".join(f"({n} : {t})" for n, t in pars)
        inits = []
        for f in fields:
            if f == "out":
                inits.append("[]")
            elif f == q:
                inits.append(f"in_{q}")
            elif f in u.state_in:
                inits.append(f"in_{f}")
            elif f in u.params and u.params[f] == "int":
                inits.append(pname(f))
            else:
                inits.append("0")
        L.append(f"Definition init {parstr} : st := mk {' '.join(inits)}.")
        argstr = " ".join(n for n, _ in pars)
        for (hn, hb, hbody, hty) in self.hoisted:
            hty = hty or f"st * flow {RET[u.ret]}"
            L.append(f"Definition {hn} {parstr} {hb} : {hty} :=")
            L.append(textwrap.fill(hbody.replace("@PARARGS@", argstr), 100, initial_indent="  ",
                                   subsequent_indent="  ", break_long_words=False,
                                   break_on_hyphens=False) + ".")
        body = body.replace("@PARARGS@", argstr)
        L.append(f"Definition body {parstr} (s0 : st) : st * flow {RET[u.ret]} :=")
        L.append(textwrap.fill(body, 100, initial_indent="  ", subsequent_indent="  ",
                               break_long_words=False, break_on_hyphens=False) + ".")
        L.append(f"Definition run {parstr} : st * flow {RET[u.ret]} := body {argstr} (init {argstr}).")
        L.append(f"Definition py {parstr} : result {RET[u.ret]} := "
                 f"finish {RET_DEFAULT[u.ret]} (run {argstr}).")
        outs = [q] + list(u.outputs) + (["out"] if self.uses_out else [])
        ty = " * ".join(ftype(o) for o in outs)
        val = ", ".join(f"v_{o} (fst (run {argstr}))" for o in outs)
        L.append(f"Definition post {parstr} : {ty} := ({val}).")
        L.append(f"End {u.module}.")
        return "\n".join(L) + "\n", sha, (fn.lineno, fn.end_lineno)


# ---- plug the extended translator into py2gallina.translate_unit -------------------------------
def _install():
    cur = _p.Tr
    if getattr(cur, "_dispatches_tr_class", False):
        return

    def dispatch(unit, src):
        cls = getattr(unit, "tr_class", None)
        return cls(unit, src) if cls is not None else cur(unit, src)

    dispatch._dispatches_tr_class = True
    dispatch._base = _BaseTr
    _p.Tr = dispatch


_install()

UNITS = [
    QueueUnit("ConsumeAborted", "aiokafka/consumer/fetcher.py",
              "PartitionRecords._consume_aborted_up_to",
              {"self": "skip", "batch_offset": "int"}, "unit",
              queues={"self._aborted_transactions": "q"},
              effects={"self._aborted_producers.add": ("out", 1)},
              # every iteration pops one element or leaves the loop
              fuel={0: "(S (List.length in_q))"}),
]
