"""C16/C07: the error-dispatch chains of the transactional request handlers of the sender (tie T)."""
from py2gallina import Unit
from dispatch2gallina import DispatchTr

SND = "aiokafka/producer/sender.py"


def _u(module, cls, params=None, atoms=None):
    u = Unit(module, SND, f"{cls}.handle_response", {}, "unit")
    u.tr_class = DispatchTr
    u.dispatch_skip = 0
    u.dispatch_tail = "[AFallThrough]"
    u.dispatch_params = params or []
    u.dispatch_atoms = atoms or {}
    return u


UNITS = [
    _u("TxnInitPidDispatch", "InitPIDHandler"),
    _u("TxnAddPartitionsDispatch", "AddPartitionsToTxnHandler", ["first_add"],
       {"not txn_manager.txn_partitions": "first_add"}),
    _u("TxnAddOffsetsDispatch", "AddOffsetsToTxnHandler"),
    _u("TxnOffsetCommitDispatch", "TxnOffsetCommitHandler"),
    _u("TxnEndDispatch", "EndTxnHandler"),
]
