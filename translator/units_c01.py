"""C01/C02: the Produce response dispatch of the sender (tie T, regenerated on every run)."""
from py2gallina import Unit
from dispatch2gallina import DispatchTr

u = Unit("ProduceDispatch", "aiokafka/producer/sender.py", "SendProduceReqHandler.handle_response", {}, "unit")
u.tr_class = DispatchTr
u.dispatch_var = "error"
u.dispatch_skip = 0
u.dispatch_tail = "[]"
u.dispatch_params = ["idem", "expired"]       # txn_manager is not None / batch.expired()
u.dispatch_preds = {"_can_retry": "canRetry"}
u.dispatch_atoms = {"self._sender._txn_manager is None": "(negb idem)", "batch.expired()": "expired"}
UNITS = [u]
