"""C06: the broker-error dispatch chains of the group coordinator (tie T, regenerated on every run)."""
from py2gallina import Unit
from dispatch2gallina import DispatchTr

GC = "aiokafka/consumer/group_coordinator.py"


def _u(module, qualname, skip=0, tail="[AFallThrough]"):
    u = Unit(module, GC, qualname, {}, "unit")
    u.tr_class = DispatchTr
    u.dispatch_skip = skip
    u.dispatch_tail = tail
    return u


UNITS = [
    _u("HeartbeatDispatch", "GroupCoordinator._do_heartbeat"),
    # perform_group_join: chain #0 is the MEMBER_ID_REQUIRED test inside the retry loop, #1 the main chain
    _u("JoinRetryDispatch", "CoordinatorGroupRebalance.perform_group_join", skip=0, tail="[]"),
    _u("JoinDispatch", "CoordinatorGroupRebalance.perform_group_join", skip=1),
    _u("SyncDispatch", "CoordinatorGroupRebalance._send_sync_group_request"),
    _u("CommitDispatch", "GroupCoordinator._do_commit_offsets"),
]
