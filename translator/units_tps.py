"""C03/C13 — translated unit: the position-keeping methods of TopicPartitionState
(aiokafka/consumer/subscription_state.py): await_reset, consumed_to, reset_to, seek, pause, resume.

Fail-closed symbolic execution of each method over the four fields of model/C03_TpState.v:
    self._position, self._reset_strategy, self._status, self._paused
Statement forms accepted (anything else: Unsupported):
    [docstring]
    assert <cond>                              -> the method yields None (AssertionError) when the condition fails
    self.<field> = <expr>                      -> field update
    if <cond>: <statements>   (no else)        -> conditional update
    statements that only touch the futures kept beside the fields (self._position_fut, self._resume_fut):
        assignments to them, calls of their methods, `assert self._resume_fut is None` - skipped; the `if` around
        them must test `self._position_fut.done()` (skipped as a whole) or be one of the forms above
Expressions: parameters, None, True/False, int literals, PartitionStatus.NAME (value read from the enum in the same
file), self.<field>, ==, `is None`, `is not None`, not.
Output gen/TpStateGen.v: `<method>_py : tps -> [Z ->] option tps`."""
import ast
import hashlib

from py2gallina import Unit, Unsupported

FILE = "aiokafka/consumer/subscription_state.py"
FIELDS = {"_position": ("t_position", "optZ"), "_reset_strategy": ("t_reset", "optZ"),
          "_status": ("t_status", "Z"), "_paused": ("t_paused", "bool")}
ORDER = ["_position", "_reset_strategy", "_status", "_paused"]
FUTS = ("self._position_fut", "self._resume_fut")
METHODS = [("await_reset", "strategy"), ("consumed_to", "position"), ("reset_to", "position"), ("seek", "position"),
           ("pause", None), ("resume", None)]


def fail(node, msg):
    raise Unsupported(f"units_tps: line {getattr(node, 'lineno', '?')}: {msg}: {ast.unparse(node)[:150]}")


class TpsTr:
    def __init__(self, unit, src):
        self.src = src
        self.tree = ast.parse(src)
        self.enum = {}
        for n in ast.walk(self.tree):
            if isinstance(n, ast.ClassDef) and n.name == "PartitionStatus":
                for st in n.body:
                    if isinstance(st, ast.Assign) and isinstance(st.value, ast.Constant) and type(st.value.value) is int:
                        self.enum[st.targets[0].id] = st.value.value
        if not self.enum:
            raise Unsupported("units_tps: PartitionStatus enum not found")

    def only_futures(self, st):
        """A statement that reads/writes nothing but the futures beside the fields."""
        txt = ast.unparse(st)
        if not any(f in txt for f in FUTS):
            return False
        for n in ast.walk(st):
            if isinstance(n, ast.Attribute) and isinstance(n.value, ast.Name) and n.value.id == "self" \
                    and n.attr in FIELDS:
                return False
        return True

    def value(self, e, env, param, typ):
        """Expression of Gallina type `typ` in {'optZ','Z','bool'}."""
        if isinstance(e, ast.Constant) and e.value is None and typ == "optZ":
            return "None"
        if isinstance(e, ast.Constant) and isinstance(e.value, bool) and typ == "bool":
            return "true" if e.value else "false"
        if isinstance(e, ast.Name) and e.id == param:
            return f"(Some p_{param})" if typ == "optZ" else f"p_{param}"
        if isinstance(e, ast.Attribute) and ast.unparse(e.value) == "PartitionStatus" and e.attr in self.enum \
                and typ == "Z":
            return f"({self.enum[e.attr]})"
        if isinstance(e, ast.Attribute) and isinstance(e.value, ast.Name) and e.value.id == "self" and e.attr in FIELDS \
                and FIELDS[e.attr][1] == typ:
            return env[e.attr]
        fail(e, f"expression of type {typ} outside the subset")

    def cond(self, e, env, param):
        if isinstance(e, ast.UnaryOp) and isinstance(e.op, ast.Not):
            return f"(negb {self.cond(e.operand, env, param)})"
        if isinstance(e, ast.Attribute) and isinstance(e.value, ast.Name) and e.value.id == "self" \
                and e.attr in FIELDS and FIELDS[e.attr][1] == "bool":
            return env[e.attr]
        if isinstance(e, ast.Compare) and len(e.ops) == 1:
            l, r = e.left, e.comparators[0]
            if isinstance(l, ast.Attribute) and isinstance(l.value, ast.Name) and l.value.id == "self" and l.attr in FIELDS:
                typ = FIELDS[l.attr][1]
                if isinstance(e.ops[0], ast.Eq) and typ == "Z":
                    return f"({env[l.attr]} =? {self.value(r, env, param, 'Z')})"
                if typ == "optZ" and isinstance(r, ast.Constant) and r.value is None:
                    isnone = f"(match {env[l.attr]} with None => true | Some _ => false end)"
                    if isinstance(e.ops[0], ast.Is):
                        return isnone
                    if isinstance(e.ops[0], ast.IsNot):
                        return f"(negb {isnone})"
        fail(e, "condition outside the subset")

    def block(self, stmts, env, guards, param):
        for st in stmts:
            if isinstance(st, ast.Expr) and isinstance(st.value, ast.Constant) and isinstance(st.value.value, str):
                continue
            if self.only_futures(st):
                continue
            if isinstance(st, ast.Assert):
                guards.append(self.cond(st.test, env, param))
                continue
            if isinstance(st, ast.Assign) and len(st.targets) == 1 and isinstance(st.targets[0], ast.Attribute) \
                    and ast.unparse(st.targets[0].value) == "self" and st.targets[0].attr in FIELDS:
                f = st.targets[0].attr
                env[f] = self.value(st.value, env, param, FIELDS[f][1])
                continue
            if isinstance(st, ast.If) and not st.orelse:
                c = self.cond(st.test, env, param)
                env2 = dict(env)
                g2 = []
                self.block(st.body, env2, g2, param)
                for g in g2:
                    guards.append(f"(negb {c} || {g})")
                for f in ORDER:
                    if env2[f] != env[f]:
                        env[f] = f"(if {c} then {env2[f]} else {env[f]})"
                continue
            fail(st, "statement outside the subset")

    def emit(self):
        cls = None
        for n in ast.walk(self.tree):
            if isinstance(n, ast.ClassDef) and n.name == "TopicPartitionState":
                cls = n
        if cls is None:
            raise Unsupported("units_tps: TopicPartitionState not found")
        out = []
        h = hashlib.sha256()
        for name, param in METHODS:
            fn = None
            for st in cls.body:
                if isinstance(st, ast.FunctionDef) and st.name == name:
                    fn = st
            if fn is None:
                raise Unsupported(f"units_tps: method {name} not found")
            args = [a.arg for a in fn.args.args]
            if args != (["self", param] if param else ["self"]):
                fail(fn, "unexpected parameters")
            h.update(ast.get_source_segment(self.src, fn).encode())
            env = {f: f"({FIELDS[f][0]} s)" for f in ORDER}
            guards = []
            self.block(fn.body, env, guards, param)
            new = "mkT " + " ".join(env[f] for f in ORDER)
            body = f"Some ({new})"
            if guards:
                body = f"if {' && '.join(guards)} then {body} else None"
            sig = f"(s : tps) (p_{param} : Z)" if param else "(s : tps)"
            out.append(f"(* {FILE}:{fn.lineno}-{fn.end_lineno} *)\nDefinition {name}_py {sig} : option tps :=\n  {body}.")
        sha = h.hexdigest()
        text = ("(* GENERATED by translator/units_tps.py — do not edit.\n"
                f"   source: {FILE} TopicPartitionState.{{{', '.join(m for m, _ in METHODS)}}}\n"
                f"   sha256 of the method texts: {sha} *)\n"
                "From Coq Require Import ZArith Bool.\nFrom Verif Require Import C03_TpState.\nOpen Scope Z_scope.\n"
                "Module TpStateGen.\n" + "\n".join(out) + "\nEnd TpStateGen.\n")
        return text, sha, [0, 0]


_u = Unit("TpStateGen", FILE, "TopicPartitionState.seek", {}, "unit")
_u.tr_class = TpsTr
UNITS = [_u]
