"""C03/C13: the per-partition error dispatch of a Fetch response (Fetcher._proc_fetch_request), tie T."""
from py2gallina import Unit
from dispatch2gallina import DispatchTr

u = Unit("FetchDispatch", "aiokafka/consumer/fetcher.py", "Fetcher._proc_fetch_request", {}, "unit")
u.tr_class = DispatchTr
u.dispatch_var = "error_type"
u.dispatch_skip = 0
u.dispatch_tail = "[]"
u.dispatch_params = ["has_policy"]          # auto_offset_reset is not "none"
u.dispatch_atoms = {"self._default_reset_strategy != OffsetResetStrategy.NONE": "has_policy"}
u.dispatch_ignore = ("self._preferred_read_replica.pop(tp, None)", "needs_wakeup = True")
UNITS = [u]
