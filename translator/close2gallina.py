"""close2gallina — fail-closed translator of the client's shutdown paths into the task calculus of
coq/model/C19_Tasks.v (tie T for C19).

Two kinds of source text are read from /repo on every run:

* the BACKGROUND ROUTINES (coroutines run as tasks).  For each one every `await` of the routine's own
  body becomes an await point, classified by what a cancellation delivered there leads to:
    PNormal     an enclosing handler for CancelledError (or BaseException / bare except /
                contextlib.suppress(CancelledError)) absorbs it and the routine then returns without a
                further await (`return`, or `break`/fall-through with nothing but await-free code up to the
                end of the function; a handler may first drain a set of sub-tasks: `for x in NAME: await x`);
    PCancelled  no such handler, or the handler re-raises: the task ends cancelled;
    PSwallow    the handler absorbs it and the routine goes on to further awaits (the loop continues).
  `r_catch_all` says whether every statement with an await sits under a handler for Exception that does
  not raise.  Handlers of any other shape, `finally` blocks containing awaits, `async with/for` are refused.

* the CLOSE PROCEDURES.  Statements are translated in order into steps:
    CancelAwait slot guard style   X.cancel() followed by `await X` (SBare),
                                   `try: await X / except asyncio.CancelledError: pass` or
                                   `with contextlib.suppress(asyncio.CancelledError): await X` (SCatch);
                                   `if not X.done():` around it sets the guard; `for x in COLL:` ranges over
                                   the slots of a task collection
    WaitFor slot guard style       `await X` of a slot that was not cancelled
    Opaque k                       an await listed (by its exact source text) in OPAQUE below, assumed not to
                                   raise into the procedure
    inlining                       `await self.<attr>.close()` / `await self.<helper>()` listed in INLINE
  `if X is not None` / `if X` / `if X is not None and ...` over slots are empty-slot guards (the model's
  environment holds an empty list for an empty slot); statements without an await are skipped; the
  idempotence guards `if self._closed: return`, `if self._closing.done(): return` are skipped.
  Everything else is refused (Unsupported).

The output gen/CloseShapes.v defines `slots`, the programs `consumer_group_stop`,
`consumer_nogroup_stop`, `producer_stop`, and `point_lines` (slot -> [(first line, last line)] of each
await point; used by the correspondence to map an observed suspended frame to a point index).
"""
import ast
import hashlib

from py2gallina import Unit, Unsupported

GC = "aiokafka/consumer/group_coordinator.py"
FE = "aiokafka/consumer/fetcher.py"
CL = "aiokafka/client.py"
CO = "aiokafka/consumer/consumer.py"
PR = "aiokafka/producer/producer.py"
SE = "aiokafka/producer/sender.py"

# slot name -> (file, routine qualname, attribute source in close procedures, may_unstarted, may_cancelled)
# may_unstarted: the procedure can reach the task before its first step.  True where the task is created by a
#   constructor / start() and nothing forces a loop iteration before stop() (hand-justified; the correspondence
#   checks that no other slot is ever observed unstarted at a stop() call).
# may_fail: the task can end with an exception other than cancellation in executions WITHOUT an internal
#   error of the client (a deliberate `raise` of a broker error: GROUP_AUTHORIZATION_FAILED from the heartbeat or
#   the committed-offset refresh, fencing errors from the sender).  The other routines only fail through their
#   "Unexpected error" paths; `slots_crash` below is the state space that includes those.
SLOTS = [
    ("heartbeat", GC, "GroupCoordinator._heartbeat_routine", "self._heartbeat_task", False, False, True),
    ("commit_refresh", GC, "GroupCoordinator._commit_refresh_routine", "self._commit_refresh_task", False, False, True),
    ("coordination", GC, "GroupCoordinator._coordination_routine", "self._coordination_task", True, False, False),
    ("reset_committed", GC, "NoGroupCoordinator._reset_committed_routine", "self._reset_committed_task", True, False, False),
    ("fetch", FE, "Fetcher._fetch_requests_routine", "self._fetch_task", True, False, False),
    ("pending_fetch", FE, "Fetcher._proc_fetch_request", "self._pending_tasks", True, True, False),
    ("pending_update", FE, "Fetcher._update_fetch_positions", "self._pending_tasks", True, True, False),
    ("md_sync", CL, "AIOKafkaClient._md_synchronizer", "self._sync_task", True, False, False),
    ("sender", SE, "Sender._sender_routine", "self._sender_task", False, False, True),
]
SLOT_INDEX = {s[0]: i for i, s in enumerate(SLOTS)}

# awaits of close procedures that are not task joins: exact source text -> tag.  Assumed not to raise into the
# procedure (trusted base: asyncio.wait never raises for its members' exceptions; connection closes and
# LeaveGroup are wrapped by the library so that only KafkaError can come out, which the procedure catches).
OPAQUE = {
    "asyncio.gather(*futs)": 1,
    "self._send_req(request)": 2,
    "asyncio.wait([create_task(self._message_accumulator.close()), self._sender.sender_task], return_when=asyncio.FIRST_COMPLETED)": 3,
}

# awaited calls that are inlined: source text -> list of (file, qualname) alternatives
INLINE = {
    "self._stop_heartbeat_task()": [(GC, "GroupCoordinator._stop_heartbeat_task")],
    "self._stop_commit_offsets_refresh_task()": [(GC, "GroupCoordinator._stop_commit_offsets_refresh_task")],
    "self._maybe_leave_group()": [(GC, "GroupCoordinator._maybe_leave_group")],
    "self._fetcher.close()": [(FE, "Fetcher.close")],
    "self._client.close()": [(CL, "AIOKafkaClient.close")],
    "self.client.close()": [(CL, "AIOKafkaClient.close")],
    "self._sender.close()": [(SE, "Sender.close")],
}
COORD_CLOSE = {"group": (GC, "GroupCoordinator.close"), "nogroup": (GC, "NoGroupCoordinator.close")}
SKIP_GUARDS = {"if self._closed:\n    return", "if self._closing.done():\n    return"}


def fail(node, msg):
    raise Unsupported(f"close2gallina: line {getattr(node, 'lineno', '?')}: {msg}: {ast.unparse(node)[:160]}")


def find(tree, qualname):
    body = tree.body
    node = None
    for part in qualname.split("."):
        node = None
        for n in body:
            if isinstance(n, (ast.ClassDef, ast.FunctionDef, ast.AsyncFunctionDef)) and n.name == part:
                node = n
        if node is None:
            raise Unsupported(f"close2gallina: cannot find {qualname}")
        body = node.body
    if not isinstance(node, ast.AsyncFunctionDef):
        raise Unsupported(f"close2gallina: {qualname} is not a coroutine function")
    return node


def has_await(node):
    """An await inside `node`, not counting nested function definitions."""
    stack = [node]
    while stack:
        n = stack.pop()
        if isinstance(n, (ast.Await, ast.AsyncWith, ast.AsyncFor)):
            return True
        for c in ast.iter_child_nodes(n):
            if not isinstance(c, (ast.FunctionDef, ast.AsyncFunctionDef, ast.Lambda)):
                stack.append(c)
    return False


def catches(handler, what):
    """Does an except clause catch `what` in {'cancel','exception'}?"""
    t = handler.type
    if t is None:
        return True
    names = [ast.unparse(e) for e in (t.elts if isinstance(t, ast.Tuple) else [t])]
    for n in names:
        if n == "BaseException":
            return True
        if what == "cancel" and n in ("asyncio.CancelledError", "CancelledError"):
            return True
        if what == "exception" and n == "Exception":
            return True
    return False


def is_suppress_cancel(w):
    return (isinstance(w, ast.With) and len(w.items) == 1
            and ast.unparse(w.items[0].context_expr) in ("contextlib.suppress(asyncio.CancelledError)",
                                                         "suppress(asyncio.CancelledError)"))


# ------------------------------------------------------------------------------------------ routines
class Routine:
    def __init__(self, fn):
        self.fn = fn
        self.parent = {}
        self.field = {}
        for p in ast.walk(fn):
            for name, val in ast.iter_fields(p):
                kids = val if isinstance(val, list) else [val]
                for c in kids:
                    if isinstance(c, ast.AST):
                        self.parent[c] = p
                        self.field[c] = name
        self.points = []
        for n in self.walk_own(fn):
            if isinstance(n, (ast.AsyncWith, ast.AsyncFor)):
                fail(n, "async with / async for in a background routine")
            if isinstance(n, ast.Try) and any(has_await(s) for s in n.finalbody):
                fail(n, "await inside a finally block of a background routine")
            if isinstance(n, ast.Await) and not self.in_cancel_handler(n):
                self.points.append(n)
        self.points.sort(key=lambda a: (a.lineno, a.col_offset))

    def in_cancel_handler(self, node):
        """Awaits inside a handler that catches the cancellation are reached only after a cancellation: a task
        cannot be parked there when the (single) close procedure arrives."""
        while node is not self.fn:
            node = self.parent[node]
            if isinstance(node, ast.ExceptHandler) and catches(node, "cancel") \
                    and ast.unparse(node.type) in ("asyncio.CancelledError", "CancelledError"):
                return True
        return False

    def walk_own(self, node):
        stack = [node]
        while stack:
            n = stack.pop()
            yield n
            for c in ast.iter_child_nodes(n):
                if not isinstance(c, (ast.FunctionDef, ast.AsyncFunctionDef, ast.Lambda)):
                    stack.append(c)

    def stmt_of(self, node):
        while not isinstance(node, ast.stmt):
            node = self.parent[node]
        return node

    def tail_await_free(self, st):
        """After statement `st` completes normally, is the end of the function reached without an await?"""
        while st is not self.fn:
            p = self.parent[st]
            f = self.field[st]
            block = getattr(p, f)
            if isinstance(block, list):
                after = block[block.index(st) + 1:]
                if any(has_await(s) for s in after):
                    return False
                if any(isinstance(s, (ast.Continue,)) for s in after):
                    return False
            if isinstance(p, (ast.For, ast.While)) and f == "body":
                return False                      # the loop goes round again
            if isinstance(p, ast.Try) and f in ("body", "handlers", "orelse"):
                if f == "body" and any(has_await(s) for s in p.orelse):
                    return False
            if isinstance(p, ast.ExceptHandler):
                pass
            st = p
        return True

    def classify_handler(self, try_node, body):
        """Class of a cancellation absorbed by a handler with statements `body` attached to `try_node`."""
        last = body[-1] if body else None
        for s in body[:-1] if isinstance(last, (ast.Break, ast.Return, ast.Raise, ast.Continue, ast.Pass)) else body:
            if isinstance(s, ast.For) and len(s.body) == 1 and isinstance(s.body[0], ast.Expr) \
                    and isinstance(s.body[0].value, ast.Await) and isinstance(s.iter, ast.Name) \
                    and ast.unparse(s.body[0].value.value) == ast.unparse(s.target):
                continue                          # drains its own sub-tasks
            if has_await(s):
                fail(s, "await inside a cancellation handler")
            if isinstance(s, (ast.Expr, ast.Assign, ast.Pass, ast.If, ast.For)):
                continue
            fail(s, "statement not supported inside a cancellation handler")
        if isinstance(last, ast.Raise):
            return "PCancelled"
        if isinstance(last, ast.Return):
            return "PNormal"
        if isinstance(last, ast.Continue):
            return "PSwallow"
        if isinstance(last, ast.Break):
            loop = try_node
            while not isinstance(loop, (ast.For, ast.While)):
                if loop is self.fn:
                    fail(last, "break outside a loop")
                loop = self.parent[loop]
            return "PNormal" if self.tail_await_free(loop) else "PSwallow"
        return "PNormal" if self.tail_await_free(try_node) else "PSwallow"

    def classify(self, aw):
        node = aw
        while node is not self.fn:
            p = self.parent[node]
            f = self.field[node]
            if isinstance(p, ast.Try) and f == "body":
                for h in p.handlers:
                    if catches(h, "cancel"):
                        return self.classify_handler(p, h.body)
            if is_suppress_cancel(p) and f == "body":
                return self.classify_handler(p, [])
            node = p
        return "PCancelled"

    def catch_all(self):
        """Every top-level statement that contains an await (or a raise) is a Try with a non-raising handler
        for Exception/BaseException."""
        for s in self.fn.body:
            risky = has_await(s) or any(isinstance(n, ast.Raise) for n in self.walk_own(s))
            if not risky:
                continue
            if not isinstance(s, ast.Try):
                return False
            ok = False
            for h in s.handlers:
                if catches(h, "exception"):
                    ok = not any(isinstance(n, ast.Raise) for n in self.walk_own(h))
            if not ok:
                return False
            for h in s.handlers:
                if any(isinstance(n, ast.Raise) for n in self.walk_own(h)):
                    return False
        return True


# ---------------------------------------------------------------------------------------- procedures
class Proc:
    def __init__(self, trees, coord_kind):
        self.trees = trees
        self.coord_kind = coord_kind
        self.depth = 0

    def slots_of(self, src, aliases):
        src = aliases.get(src, src)
        out = [i for i, s in enumerate(SLOTS) if s[3] == src]
        return out

    def is_slot_guard(self, test, aliases):
        """`X is not None`, `X`, `not X.done()` and conjunctions; returns (ok, guard_notdone)."""
        parts = test.values if isinstance(test, ast.BoolOp) and isinstance(test.op, ast.And) else [test]
        notdone = False
        for p in parts:
            s = ast.unparse(p)
            if s.endswith(" is not None") or isinstance(p, (ast.Attribute, ast.Name)):
                continue
            if isinstance(p, ast.UnaryOp) and isinstance(p.op, ast.Not) and s.endswith(".done()"):
                tgt = s[len("not "):-len(".done()")]
                if not self.slots_of(tgt, aliases):
                    return False, False
                notdone = True
                continue
            return False, False
        return True, notdone

    def await_style(self, st, aliases):
        """If `st` awaits a slot: (slot source, style)."""
        if isinstance(st, ast.Expr) and isinstance(st.value, ast.Await):
            return ast.unparse(st.value.value), "SBare"
        if isinstance(st, ast.Try) and len(st.body) == 1 and not st.orelse and not st.finalbody \
                and len(st.handlers) == 1 and catches(st.handlers[0], "cancel") \
                and ast.unparse(st.handlers[0].type) in ("asyncio.CancelledError", "CancelledError") \
                and all(isinstance(x, ast.Pass) for x in st.handlers[0].body):
            inner = self.await_style(st.body[0], aliases)
            if inner and inner[1] == "SBare":
                return inner[0], "SCatch"
        if is_suppress_cancel(st) and len(st.body) == 1:
            inner = self.await_style(st.body[0], aliases)
            if inner and inner[1] == "SBare":
                return inner[0], "SCatch"
        return None

    def block(self, stmts, aliases, guard):
        steps = []
        i = 0
        while i < len(stmts):
            st = stmts[i]
            i += 1
            if not has_await(st):
                if isinstance(st, ast.Expr) and isinstance(st.value, ast.Call) \
                        and isinstance(st.value.func, ast.Attribute) and st.value.func.attr == "cancel":
                    tgt = ast.unparse(st.value.func.value)
                    slots = self.slots_of(tgt, aliases)
                    if slots:
                        if i >= len(stmts):
                            fail(st, "cancel() of a task slot not followed by an await of it")
                        nxt = self.await_style(stmts[i], aliases)
                        if not nxt or self.slots_of(nxt[0], aliases) != slots:
                            fail(stmts[i], "cancel() of a task slot not followed by an await of it")
                        i += 1
                        for s in slots:
                            steps.append(f"CancelAwait {s} {'true' if guard else 'false'} {nxt[1]}")
                        continue
                if ast.unparse(st) in SKIP_GUARDS or not isinstance(st, (ast.Return, ast.Raise)):
                    if isinstance(st, ast.If) and ast.unparse(st) not in SKIP_GUARDS \
                            and any(isinstance(n, (ast.Return, ast.Raise)) for n in ast.walk(st)):
                        fail(st, "early exit from a close procedure")
                    continue
                fail(st, "early exit from a close procedure")
            aw = self.await_style(st, aliases)
            if aw:
                slots = self.slots_of(aw[0], aliases)
                if slots:
                    for s in slots:
                        steps.append(f"WaitFor {s} {'true' if guard else 'false'} {aw[1]}")
                    continue
                if aw[1] == "SBare":
                    steps += self.call(st, aw[0])
                    continue
                fail(st, "guarded await of something that is not a task slot")
            if isinstance(st, ast.If) and not st.orelse:
                ok, nd = self.is_slot_guard(st.test, aliases)
                if ok:
                    steps += self.block(st.body, aliases, guard or nd)
                    continue
                inner = self.block(st.body, aliases, guard)
                if all(x.startswith("Opaque") for x in inner):
                    steps += inner            # a condition over plain data around joins of no task
                    continue
                fail(st, "condition not understood around a task join")
            if isinstance(st, ast.For) and not st.orelse and isinstance(st.target, ast.Name):
                coll = ast.unparse(st.iter)
                if self.slots_of(coll, aliases):
                    al = dict(aliases)
                    al[st.target.id] = coll
                    steps += self.block(st.body, al, guard)
                    continue
            if isinstance(st, ast.Try) and not st.finalbody and len(st.body) == 1 \
                    and all(not has_await(h) for h in st.handlers) and not any(has_await(s) for s in st.orelse):
                inner = self.block(st.body, aliases, guard)
                if all(x.startswith("Opaque") for x in inner):
                    steps += inner
                    continue
            fail(st, "statement not supported in a close procedure")
        return steps

    def call(self, st, src):
        if src in OPAQUE:
            return [f"Opaque {OPAQUE[src]}"]
        if src == "self._coordinator.close()":
            alts = [COORD_CLOSE[self.coord_kind]]
        elif src in INLINE:
            alts = INLINE[src]
        else:
            fail(st, "await of something that is neither a task slot, an inlined procedure nor a listed opaque call")
        self.depth += 1
        if self.depth > 6:
            fail(st, "inlining too deep")
        file, qn = alts[0]
        fn = find(self.trees[file], qn)
        body = fn.body
        if body and isinstance(body[0], ast.Expr) and isinstance(body[0].value, ast.Constant):
            body = body[1:]
        out = self.block(body, {}, False)
        self.depth -= 1
        return out


class CloseTr:
    """tr_class for py2gallina.translate_unit: emits gen/CloseShapes.v."""

    def __init__(self, unit, src):
        self.u = unit

    def emit(self):
        import os
        repo = self.u._repo
        trees, texts = {}, {}
        for f in (GC, FE, CL, CO, PR, SE):
            with open(os.path.join(repo, f)) as fh:
                texts[f] = fh.read()
            trees[f] = ast.parse(texts[f])
        h = hashlib.sha256()
        lines = []
        slot_terms = []
        crash_terms = []
        point_lines = []
        for name, file, qn, attr, mu, mc, mf in SLOTS:
            fn = find(trees[file], qn)
            h.update(ast.get_source_segment(texts[file], fn).encode())
            r = Routine(fn)
            classes = [r.classify(a) for a in r.points]
            ca = r.catch_all()
            lines.append(f"(* slot {SLOT_INDEX[name]} {name}: {file}:{fn.lineno} {qn}; await points at lines "
                         f"{[a.lineno for a in r.points]} *)")
            lines.append(f"Definition r_{name} : routine := mkRoutine [{'; '.join(classes)}] "
                         f"{'true' if ca else 'false'}.")
            b = lambda x: "true" if x else "false"
            slot_terms.append(f"mkSlot r_{name} {b(mu)} {b(mc)} {b(mf)}")
            crash_terms.append(f"mkSlot r_{name} {b(mu)} {b(mc)} {b(mf or not ca)}")
            point_lines.append("[" + "; ".join(f"({a.lineno}, {a.end_lineno})" for a in r.points) + "]")
        lines.append("Definition slots : list slot := [" + ";\n  ".join(slot_terms) + "].")
        lines.append("(* the state space that also contains internal errors of the client: a routine may end with an\n"
                     "   exception unless all its awaits sit under a non-raising handler for Exception *)")
        lines.append("Definition slots_crash : list slot := [" + ";\n  ".join(crash_terms) + "].")
        lines.append("Definition point_lines : list (list (nat * nat)) := [" + ";\n  ".join(point_lines) + "].")
        progs = {}
        for pname, file, qn, kind in (("consumer_group_stop", CO, "AIOKafkaConsumer.stop", "group"),
                                      ("consumer_nogroup_stop", CO, "AIOKafkaConsumer.stop", "nogroup"),
                                      ("producer_stop", PR, "AIOKafkaProducer.stop", "group")):
            fn = find(trees[file], qn)
            h.update(ast.get_source_segment(texts[file], fn).encode())
            body = fn.body
            if body and isinstance(body[0], ast.Expr) and isinstance(body[0].value, ast.Constant):
                body = body[1:]
            steps = Proc(trees, kind).block(body, {}, False)
            progs[pname] = steps
            lines.append(f"Definition {pname} : list step := [" + ";\n  ".join(steps) + "].")
        for (file, qn) in list(COORD_CLOSE.values()) + [a for v in INLINE.values() for a in v]:
            h.update(ast.get_source_segment(texts[file], find(trees[file], qn)).encode())
        sha = h.hexdigest()
        text = ("(* GENERATED by translator/close2gallina.py — do not edit.\n"
                "   sources: the background routines and close procedures listed in that file\n"
                f"   sha256 of their source texts: {sha} *)\n"
                "From Coq Require Import List Bool.\nFrom Verif Require Import C19_Tasks.\nImport ListNotations.\n"
                "Module CloseShapes.\n" + "\n".join(lines) + "\nEnd CloseShapes.\n")
        return text, sha, [0, 0]


def make_unit():
    u = Unit("CloseShapes", GC, "GroupCoordinator.close", {}, "unit")
    u.tr_class = CloseTr
    return u


def shapes(repo):
    """For the correspondence harness: per slot, the routine's qualified name and the (first, last) source lines
    and classes of its await points, as the translator sees them in `repo`."""
    import os
    out = []
    for name, file, qn, attr, mu, mc, mf in SLOTS:
        with open(os.path.join(repo, file)) as fh:
            tree = ast.parse(fh.read())
        r = Routine(find(tree, qn))
        out.append({"slot": name, "qualname": qn, "file": file,
                    "lines": [(a.lineno, a.end_lineno) for a in r.points],
                    "classes": [r.classify(a) for a in r.points]})
    return out
