"""C19: the shutdown paths (background routines' await points, close procedures) as data of the task calculus."""
from close2gallina import make_unit

UNITS = [make_unit()]
