"""The translated units (tie T).  One entry per Python function regenerated on every run."""
from py2gallina import Unit

UNITS = {}


def reg(u):
    UNITS[u.module] = u
    return u


# ---- C17 -----------------------------------------------------------------------------
reg(Unit("Murmur2", "aiokafka/partitioner.py", "murmur2", {"data": "bytes"}, "Z"))
reg(Unit("Partitioner", "aiokafka/partitioner.py", "DefaultPartitioner.__call__",
         {"cls": "skip", "key": "optbytes", "all_partitions": "listZ", "available": "listZ"},
         "Z", calls={"murmur2": ("Murmur2.py", "int")}, requires=["Murmur2"]))

# ---- C01 -----------------------------------------------------------------------------
reg(Unit("IncrSeq", "aiokafka/producer/transaction_manager.py",
         "TransactionManager.increment_sequence_number",
         {"self": "skip", "tp": "skip", "increment": "int"}, "unit",
         aliases={"self._sequence_numbers[tp]": "seqtp"}, state_in=["seqtp"], outputs=["seqtp"]))

# ---- C12 -----------------------------------------------------------------------------
reg(Unit("NextCorr", "aiokafka/conn.py", "AIOKafkaConnection._next_correlation_id",
         {"self": "skip"}, "Z",
         aliases={"self._correlation_id": "corr"}, state_in=["corr"], outputs=["corr"]))

# ---- C16 -----------------------------------------------------------------------------
reg(Unit("TxnTable", "aiokafka/producer/transaction_manager.py",
         "TransactionState.is_transition_valid",
         {"cls": "skip", "source": "int", "target": "int"}, "bool",
         consts_from="TransactionState"))

# ---- C09 (record/util.py varints) ----------------------------------------------------
reg(Unit("VarintEnc", "aiokafka/record/util.py", "encode_varint_py",
         {"value": "int", "write": "skip"}, "Z",
         effects={"write": ("out", 1)}, fuel={0: "80%nat"}))
reg(Unit("VarintSize", "aiokafka/record/util.py", "size_of_varint_py", {"value": "int"}, "Z"))
reg(Unit("VarintDec", "aiokafka/record/util.py", "decode_varint_py",
         {"buffer": "bytes", "pos": "int"}, "ZZ", fuel={0: "11%nat"}))


# ---- further units live in translator/units_*.py (one file per property) ------------------
import glob as _glob
import importlib as _importlib
import os as _os

for _f in sorted(_glob.glob(_os.path.join(_os.path.dirname(_os.path.abspath(__file__)), "units_*.py"))):
    _m = _importlib.import_module(_os.path.basename(_f)[:-3])
    for _u in getattr(_m, "UNITS", []):
        reg(_u)
