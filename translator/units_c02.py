"""C02 — translated units: MessageBatch.done / done_noack / failure (aiokafka/producer/message_accumulator.py).

Fail-closed translation of the three resolution methods into Gallina over the types of model/C02_Done.v.
Recognised shape of each method (anything else: Unsupported):

    [docstring] [simple bindings NAME = <attr/name>] [if/else assigning one NAME in both branches]*
    if not self.future.done(): self.future.set_result(X) | self.future.set_exception(E)      (the batch's own future)
    for future, <metadata|_> in self._msg_futures:
        if future.done(): continue
        [comments] [NAME = expr | if/else assigning one NAME]*
        future.set_result(X) | future.set_exception(copy.copy(E))
    [trailing statements of failure(): consuming the batch future's exception, failing the drain waiter]

X is `None` (-> RNone) or `_record_metadata_class(topic, partition, tp, OFFSET, TS, TS_TYPE, LOG_START)` (-> RMeta of the
four translated expressions); an exception -> RErr.  Expressions: parameters, bound names, int literals, + - *,
one comparison (==, !=, <, <=, >, >=), `metadata.offset` -> f_rel f, `metadata.timestamp` -> f_ts f.
Output: gen/DoneGen.v with done_py / done_noack_py / failure_py (per-record effects through C02_Done.for_pending) and
done_main_py (what the batch's own future gets)."""
import ast
import hashlib
import os

from py2gallina import Unit, Unsupported

FILE = "aiokafka/producer/message_accumulator.py"
PARAMS = {"base_offset": "p_base", "timestamp": "p_ts", "log_start_offset": "p_ls"}
META = {"offset": "(f_rel f)", "timestamp": "(f_ts f)"}
CMP = {ast.Eq: "=?", ast.Lt: "<?", ast.LtE: "<=?", ast.Gt: ">?", ast.GtE: ">=?"}
BIN = {ast.Add: "+", ast.Sub: "-", ast.Mult: "*"}


def fail(node, msg):
    raise Unsupported(f"units_c02: line {getattr(node, 'lineno', '?')}: {msg}: {ast.unparse(node)[:150]}")


class DoneTr:
    def __init__(self, unit, src):
        self.u = unit
        self.src = src
        self.tree = ast.parse(src)

    def method(self, name):
        for n in ast.walk(self.tree):
            if isinstance(n, ast.ClassDef) and n.name == "MessageBatch":
                for st in n.body:
                    if isinstance(st, ast.FunctionDef) and st.name == name:
                        return st
        raise Unsupported(f"units_c02: MessageBatch.{name} not found")

    def expr(self, e, env, meta):
        if isinstance(e, ast.Name):
            if e.id in env:
                return env[e.id]
            if e.id in PARAMS:
                return PARAMS[e.id]
            fail(e, "unknown name")
        if isinstance(e, ast.Constant) and type(e.value) is int:
            return f"({e.value})"
        if isinstance(e, ast.UnaryOp) and isinstance(e.op, ast.USub) and isinstance(e.operand, ast.Constant) \
                and type(e.operand.value) is int:
            return f"(-{e.operand.value})"
        if isinstance(e, ast.BinOp) and type(e.op) in BIN:
            return f"({self.expr(e.left, env, meta)} {BIN[type(e.op)]} {self.expr(e.right, env, meta)})"
        if isinstance(e, ast.Compare) and len(e.ops) == 1:
            a, b = self.expr(e.left, env, meta), self.expr(e.comparators[0], env, meta)
            if isinstance(e.ops[0], ast.NotEq):
                return f"(negb ({a} =? {b}))"
            if type(e.ops[0]) in CMP:
                return f"({a} {CMP[type(e.ops[0])]} {b})"
        if isinstance(e, ast.Attribute) and isinstance(e.value, ast.Name) and meta and e.value.id == meta \
                and e.attr in META:
            return META[e.attr]
        fail(e, "expression outside the subset")

    def binding(self, st, env, meta):
        """NAME = expr, or if/else assigning the same NAME in both branches; returns True when consumed."""
        if isinstance(st, ast.Assign) and len(st.targets) == 1 and isinstance(st.targets[0], ast.Name):
            nm = st.targets[0].id
            if isinstance(st.value, ast.Attribute) or (isinstance(st.value, ast.Name) and st.value.id not in PARAMS
                                                       and st.value.id not in env):
                env[nm] = None        # an object (tp, topic, partition): not an integer, may only be passed through
                return True
            env[nm] = self.expr(st.value, env, meta)
            return True
        if isinstance(st, ast.If) and len(st.body) == 1 and len(st.orelse) == 1 \
                and all(isinstance(b, ast.Assign) and len(b.targets) == 1 and isinstance(b.targets[0], ast.Name)
                        for b in (st.body[0], st.orelse[0])) \
                and st.body[0].targets[0].id == st.orelse[0].targets[0].id:
            c = self.expr(st.test, env, meta)
            a = self.expr(st.body[0].value, env, meta)
            b = self.expr(st.orelse[0].value, env, meta)
            env[st.body[0].targets[0].id] = f"(if {c} then {a} else {b})"
            return True
        return False

    def result(self, call, fut, env, meta):
        """fut.set_result(X) / fut.set_exception(E) -> Gallina res."""
        if not (isinstance(call, ast.Expr) and isinstance(call.value, ast.Call)
                and isinstance(call.value.func, ast.Attribute) and ast.unparse(call.value.func.value) == fut
                and len(call.value.args) == 1 and not call.value.keywords):
            return None
        kind = call.value.func.attr
        arg = call.value.args[0]
        if kind == "set_exception":
            return "RErr"
        if kind != "set_result":
            return None
        if isinstance(arg, ast.Constant) and arg.value is None:
            return "RNone"
        if isinstance(arg, ast.Call) and ast.unparse(arg.func) == "_record_metadata_class" and len(arg.args) == 7 \
                and not arg.keywords:
            for a, want in zip(arg.args[:3], ("topic", "partition", "tp")):
                if not (isinstance(a, ast.Name) and a.id == want and env.get(want, 0) is None):
                    fail(a, f"RecordMetadata argument is not the batch's {want}")
            o, ts, ty, ls = (self.expr(a, env, meta) for a in arg.args[3:])
            return f"(RMeta {o} {ts} {ty} {ls})"
        fail(call, "future resolved with something else than None / RecordMetadata / an exception")

    def translate(self, name):
        fn = self.method(name)
        body = list(fn.body)
        if body and isinstance(body[0], ast.Expr) and isinstance(body[0].value, ast.Constant):
            body = body[1:]
        env = {}
        main = None
        per = None
        i = 0
        while i < len(body):
            st = body[i]
            i += 1
            if self.binding(st, env, None):
                continue
            if isinstance(st, ast.If) and ast.unparse(st.test) == "not self.future.done()" and len(st.body) == 1 \
                    and not st.orelse and main is None and per is None:
                main = self.result(st.body[0], "self.future", env, None)
                if main is None:
                    fail(st, "batch future branch not understood")
                continue
            if isinstance(st, ast.For) and ast.unparse(st.iter) == "self._msg_futures" and per is None \
                    and isinstance(st.target, ast.Tuple) and len(st.target.elts) == 2 and not st.orelse:
                fut, meta = (e.id for e in st.target.elts)
                lb = list(st.body)
                if not (lb and isinstance(lb[0], ast.If) and ast.unparse(lb[0].test) == f"{fut}.done()"
                        and len(lb[0].body) == 1 and isinstance(lb[0].body[0], ast.Continue) and not lb[0].orelse):
                    fail(st, "loop does not start with `if future.done(): continue`")
                lenv = dict(env)
                for s2 in lb[1:-1]:
                    if not self.binding(s2, lenv, meta):
                        fail(s2, "statement not supported inside the futures loop")
                per = self.result(lb[-1], fut, lenv, meta)
                if per is None:
                    fail(lb[-1], "the futures loop does not end by resolving the future")
                continue
            if per is not None and name == "failure":
                # trailing bookkeeping of failure(): no per-record future is touched any more
                txt = ast.unparse(st)
                if "_msg_futures" in txt and "set_" in txt:
                    fail(st, "per-record futures touched after the loop")
                continue
            fail(st, "statement not supported")
        if per is None or main is None:
            raise Unsupported(f"units_c02: MessageBatch.{name}: batch future branch or futures loop missing")
        return fn, main, per

    def emit(self):
        out = []
        h = hashlib.sha256()
        spans = []
        for name, args in (("done", "(p_base p_ts p_ls : Z) "), ("done_noack", ""), ("failure", "")):
            fn, main, per = self.translate(name)
            h.update(ast.get_source_segment(self.src, fn).encode())
            spans.append(f"{name}:{fn.lineno}-{fn.end_lineno}")
            out.append(f"Definition {name}_main_py {args}: res := {main}.")
            out.append(f"Definition {name}_py {args}(fs : list mfut) : list (nat * res) :=\n"
                       f"  for_pending (fun f : mfut => {per}) fs.")
        sha = h.hexdigest()
        text = (f"(* GENERATED by translator/units_c02.py — do not edit.\n   source: {FILE} MessageBatch {', '.join(spans)}\n"
                f"   sha256 of the three method texts: {sha} *)\n"
                "From Coq Require Import ZArith List Bool.\nFrom Verif Require Import C02_Done.\nImport ListNotations.\n"
                "Open Scope Z_scope.\nModule DoneGen.\n" + "\n".join(out) + "\nEnd DoneGen.\n")
        return text, sha, [0, 0]


_u = Unit("DoneGen", FILE, "MessageBatch.done", {}, "unit")
_u.tr_class = DoneTr
UNITS = [_u]
