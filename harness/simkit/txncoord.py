"""Simulated transaction coordinator + marker writing (Kafka's TransactionCoordinator).

Reviewed against Kafka's TransactionCoordinator / TransactionMetadata / TransactionMarkerChannel
semantics (pre KIP-890 brokers, which is what the client speaks) — see REVIEW notes inline:
 * InitProducerId on an Ongoing transaction fences: the epoch is bumped FIRST and the abort markers
   carry the bumped epoch (prepareFenceProducerEpoch); with marker_delay > 0 the caller gets
   CONCURRENT_TRANSACTIONS until the markers are written (as in Kafka, where the abort is
   asynchronous) and only then a further bumped epoch;
 * a marker updates the partition leader's producer epoch (ProducerStateManager), so leaders fence
   zombies on their own;
 * EndTxn during PrepareCommit/PrepareAbort: CONCURRENT_TRANSACTIONS for the same result,
   INVALID_TXN_STATE for the other one;
 * pending transactional offsets are materialised only for groups registered with AddOffsetsToTxn
   (the commit marker is written only to those __consumer_offsets partitions);
 * `move(node)` (coordinator fail-over, state survives: it is in the transaction log) and
   `expire(tid)` (transaction.timeout.ms: coordinator-side abort with epoch bump).
"""
from __future__ import annotations

from . import cluster as C
from . import refcodec

T_EMPTY, T_ONGOING, T_PREP_COMMIT, T_PREP_ABORT, T_COMMITTED, T_ABORTED = (
    "Empty", "Ongoing", "PrepareCommit", "PrepareAbort", "CompleteCommit", "CompleteAbort")


class Txn:
    def __init__(self, tid, pid):
        self.tid = tid
        self.pid = pid
        self.epoch = -1
        self.state = T_EMPTY
        self.partitions = set()
        self.groups = set()
        self.pending_offsets = []      # (group, topic, partition, offset)
        self.history = []              # ended transactions: dict


class TxnCoordinator:
    def __init__(self, cluster):
        self.c = cluster
        self.by_id = {}
        self.by_pid = {}
        self.marker_delay = 0.0
        self.loading = False
        self.client_violations = []    # protocol obligations the client broke (for monitors)
        self.txn_seq = 0

    def _check_node(self, node):
        if self.loading:
            return C.COORDINATOR_LOAD_IN_PROGRESS
        if node != self.c.txn_coordinator_node:
            return C.NOT_COORDINATOR
        return 0

    def init_producer_id(self, node, cls, obj, info):
        tid = obj.get("transactional_id")
        if tid is None:
            self.c.next_pid += 1
            self.c.ev("init_pid", tid=None, pid=self.c.next_pid, epoch=0)
            return {"error_code": 0, "producer_id": self.c.next_pid, "producer_epoch": 0}
        err = self._check_node(node)
        if err:
            return {"error_code": err, "producer_id": -1, "producer_epoch": -1}
        t = self.by_id.get(tid)
        if t is None:
            self.c.next_pid += 1
            t = Txn(tid, self.c.next_pid)
            self.by_id[tid] = t
            self.by_pid[t.pid] = t
        if t.state in (T_PREP_COMMIT, T_PREP_ABORT):
            return {"error_code": C.CONCURRENT_TRANSACTIONS, "producer_id": -1, "producer_epoch": -1}
        if t.state == T_ONGOING:
            # fence: bump the epoch, then abort what the previous incarnation left open; the
            # markers carry the bumped epoch
            t.epoch += 1
            self.c.ev("txn_fence", tid=tid, epoch=t.epoch)
            if self.marker_delay > 0:
                t.state = T_PREP_ABORT
                self.c.ev("txn_prepare", tid=t.tid, commit=False, fenced=True)
                self.c.loop.call_later(self.marker_delay, self._end, t, False, True)
                return {"error_code": C.CONCURRENT_TRANSACTIONS, "producer_id": -1, "producer_epoch": -1}
            self._end(t, commit=False, fenced=True)
        t.epoch += 1
        t.state = T_EMPTY
        self.c.ev("init_pid", tid=tid, pid=t.pid, epoch=t.epoch)
        return {"error_code": 0, "producer_id": t.pid, "producer_epoch": t.epoch}

    def _validate(self, node, obj):
        err = self._check_node(node)
        if err:
            return None, err
        t = self.by_id.get(obj["transactional_id"])
        if t is None or t.pid != obj["producer_id"]:
            return None, C.INVALID_PRODUCER_ID_MAPPING
        if obj["producer_epoch"] != t.epoch:
            return None, C.INVALID_PRODUCER_EPOCH
        if t.state in (T_PREP_COMMIT, T_PREP_ABORT):
            return None, C.CONCURRENT_TRANSACTIONS
        return t, 0

    def add_partitions(self, node, cls, obj, info):
        t, err = self._validate(node, obj)
        if not err:
            if t.state != T_ONGOING:
                self.txn_seq += 1
                t.current = self.txn_seq
            t.state = T_ONGOING
            for tp in obj["topics"]:
                for p in tp["partitions"]:
                    t.partitions.add((tp["topic"], p))
            self.c.ev("txn_add_partitions", tid=t.tid, partitions=sorted(t.partitions))
        return {"errors": [{"topic": tp["topic"], "partition_errors": [
            {"partition": p, "error_code": err} for p in tp["partitions"]]} for tp in obj["topics"]]}

    def add_offsets(self, node, cls, obj, info):
        t, err = self._validate(node, obj)
        if not err:
            if t.state != T_ONGOING:
                self.txn_seq += 1
                t.current = self.txn_seq
            t.state = T_ONGOING
            t.groups.add(obj["group_id"])
            self.c.ev("txn_add_offsets", tid=t.tid, group=obj["group_id"])
        return {"error_code": err}

    def txn_offset_commit(self, node, cls, obj, info):
        # handled by the group coordinator node
        err = self.c.gc._check_node(node)
        t = self.by_id.get(obj["transactional_id"])
        if not err:
            if t is None or t.pid != obj["producer_id"]:
                err = C.INVALID_PRODUCER_ID_MAPPING
            elif obj["producer_epoch"] != t.epoch:
                err = C.INVALID_PRODUCER_EPOCH
        if not err:
            if t.state != T_ONGOING or obj["group_id"] not in t.groups:
                self.client_violations.append({"what": "TxnOffsetCommit before AddOffsetsToTxn was acknowledged",
                                               "tid": t.tid, "group": obj["group_id"]})
            for tp in obj["topics"]:
                for p in tp["partitions"]:
                    t.pending_offsets.append((obj["group_id"], tp["topic"], p["partition"], p["offset"]))
            self.c.ev("txn_offset_commit", tid=t.tid, group=obj["group_id"],
                      offsets=[(tp["topic"], p["partition"], p["offset"]) for tp in obj["topics"] for p in tp["partitions"]])
        return {"errors": [{"topic": tp["topic"], "partition_errors": [
            {"partition": p["partition"], "error_code": err} for p in tp["partitions"]]} for tp in obj["topics"]]}

    def end_txn(self, node, cls, obj, info):
        t, err = self._validate(node, obj)
        commit = bool(obj["transaction_result"])
        if err == C.CONCURRENT_TRANSACTIONS:
            t0 = self.by_id.get(obj["transactional_id"])
            # retry of the request being completed: CONCURRENT_TRANSACTIONS; the other result:
            # INVALID_TXN_STATE (TransactionCoordinator.endTransaction)
            if t0 is not None and t0.state == (T_PREP_ABORT if commit else T_PREP_COMMIT):
                err = C.INVALID_TXN_STATE
        if err:
            return {"error_code": err}
        if t.state == T_ONGOING:
            # obligation: no batch of the transaction may still be unacknowledged — observed by monitors
            if self.marker_delay > 0:
                t.state = T_PREP_COMMIT if commit else T_PREP_ABORT
                self.c.ev("txn_prepare", tid=t.tid, commit=commit)
                self.c.loop.call_later(self.marker_delay, self._end, t, commit)
            else:
                self._end(t, commit)
            return {"error_code": 0}
        if t.state == T_COMMITTED and commit:
            return {"error_code": 0}
        if t.state == T_ABORTED and not commit:
            return {"error_code": 0}
        if t.state == T_EMPTY:
            # nothing was added: Kafka answers INVALID_TXN_STATE for commit of an empty txn? It
            # accepts EndTxn only from Ongoing; an empty transaction is not sent by clients.
            return {"error_code": C.INVALID_TXN_STATE}
        return {"error_code": C.INVALID_TXN_STATE}

    def _end(self, t, commit, fenced=False):
        now_ms = int(self.c.loop.time() * 1000)
        for (topic, p) in sorted(t.partitions):
            lg = self.c.topics[topic][p]
            first = lg.open_txn.pop(t.pid, None)
            marker = refcodec.control_batch(lg.next_offset, t.pid, t.epoch, commit, ts=now_ms)
            b = refcodec.parse_v2(marker)
            b.append_time = now_ms
            lg.batches.append(b)
            lg.next_offset = b.last_offset + 1
            if not commit and first is not None:
                lg.aborted.append((t.pid, first, b.base_offset))
            # the marker carries the (possibly bumped) epoch: the leader learns it
            st = lg.pstate.get(t.pid)
            if st is not None and st["epoch"] < t.epoch:
                st["epoch"] = t.epoch
        unregistered = [x for x in t.pending_offsets if x[0] not in t.groups]
        if commit:
            for (gid, topic, p, off) in t.pending_offsets:
                if gid not in t.groups:
                    continue        # no marker reaches that group's offsets partition
                g = self.c.gc.group(gid)
                g.offsets[(topic, p)] = (off, "")
                g.commit_log.append({"t": self.c.loop.time(), "group": gid, "member": f"txn:{t.tid}",
                                     "generation": -1, "topic": topic, "partition": p, "offset": off,
                                     "accepted": True, "error": 0, "ordinal": -1, "txn": getattr(t, "current", None)})
        t.history.append({"txn": getattr(t, "current", None), "commit": commit, "fenced": fenced,
                          "partitions": sorted(t.partitions), "offsets": list(t.pending_offsets),
                          "groups": sorted(t.groups), "unregistered_offsets": unregistered,
                          "epoch": t.epoch, "t": self.c.loop.time()})
        self.c.ev("txn_end", tid=t.tid, commit=commit, fenced=fenced, partitions=sorted(t.partitions))
        t.partitions = set()
        t.groups = set()
        t.pending_offsets = []
        t.state = T_COMMITTED if commit else T_ABORTED

    def move(self, new_node):
        """Coordinator fail-over: the transaction state survives (it lives in __transaction_state)."""
        self.c.txn_coordinator_node = new_node
        self.c.ev("txn_coordinator_move", node=new_node)

    def expire(self, tid):
        """transaction.timeout.ms elapsed: the coordinator aborts on its own and bumps the epoch,
        the client finds out with INVALID_PRODUCER_EPOCH on its next request."""
        t = self.by_id.get(tid)
        if t is None or t.state != T_ONGOING:
            return False
        t.epoch += 1
        self.c.ev("txn_timeout", tid=tid, epoch=t.epoch)
        self._end(t, commit=False, fenced=True)
        return True

    def check_produce(self, txn_id, batch, topic, partition):
        """Called by the partition leader for every batch with a producer id."""
        t = self.by_pid.get(batch.pid)
        if t is None:
            return 0
        if batch.epoch < t.epoch:
            return C.INVALID_PRODUCER_EPOCH
        if batch.transactional:
            if t.state != T_ONGOING or (topic, partition) not in t.partitions:
                self.client_violations.append({
                    "what": "transactional batch written to a partition the coordinator has not "
                            "acknowledged for an open transaction",
                    "tid": t.tid, "topic": topic, "partition": partition, "state": t.state,
                    "seq": batch.base_seq})
        elif t.tid is not None:
            self.client_violations.append({"what": "non-transactional batch from a transactional producer",
                                           "tid": t.tid, "topic": topic, "partition": partition})
        return 0
