"""Deterministic virtual-time asyncio loop + in-memory transports (DESIGN.md §2.3, App. A).

Rules: (1) select() jumps the virtual clock exactly to the next timer; (2) every positive
delay is at least 1 µs; (3) library reads of time.monotonic()/time.time() tick the clock by
1 ns so that `now > deadline` eventually holds.  All deterministic functions of the run.
"""
from __future__ import annotations

import asyncio
import selectors
import time as _time
from unittest import mock


class SimDeadlock(Exception):
    pass


class FakeSelector(selectors.BaseSelector):
    def __init__(self):
        self._map = {}
        self.loop = None

    def register(self, fileobj, events, data=None):
        key = selectors.SelectorKey(fileobj, fileobj if isinstance(fileobj, int) else fileobj.fileno(), events, data)
        self._map[key.fd] = key
        return key

    def unregister(self, fileobj):
        fd = fileobj if isinstance(fileobj, int) else fileobj.fileno()
        return self._map.pop(fd, None)

    def modify(self, fileobj, events, data=None):
        self.unregister(fileobj)
        return self.register(fileobj, events, data)

    def select(self, timeout=None):
        loop = self.loop
        if timeout is None:
            raise SimDeadlock("simulation deadlock: nothing scheduled and nothing ready")
        if timeout > 0 and loop._scheduled:
            loop._vtime = max(loop._vtime, loop._scheduled[0]._when)
        loop.idle_hook()
        return []

    def close(self):
        self._map.clear()

    def get_map(self):
        return self._map


class SimLoop(asyncio.SelectorEventLoop):
    QUANTUM = 1e-6

    def __init__(self):
        sel = FakeSelector()
        super().__init__(selector=sel)
        sel.loop = self
        self._vtime = 1000.0
        self.net = None
        self.max_vtime = None
        self.steps = 0
        self.max_steps = 5_000_000
        self._spin_mark_t = 1000.0
        self._spin_mark_step = 0
        self.spin_steps = 0
        self._clock_resolution = 1e-9

    def idle_hook(self):
        if self.max_vtime is not None and self._vtime > self.max_vtime:
            raise SimDeadlock(f"virtual time limit {self.max_vtime} exceeded")

    def time(self):
        return self._vtime

    def tick_time(self):
        self._vtime += 1e-9
        return self._vtime

    def _run_once(self):
        self.steps += 1
        if self.steps > self.max_steps:
            raise SimDeadlock("step limit exceeded (livelock?)")
        # A task that busy-spins (e.g. asyncio.wait over an already finished future in a loop) would freeze
        # virtual time: after 20000 iterations within one virtual millisecond every further iteration costs
        # 0.5 ms, so that timers, peers and the monitors still see what the spinning client does next.
        if self._vtime - self._spin_mark_t > 1e-3:
            self._spin_mark_t = self._vtime
            self._spin_mark_step = self.steps
        elif self.steps - self._spin_mark_step > 20000:
            self.spin_steps += 1
            self._vtime += 5e-4
            self._spin_mark_t = self._vtime
        super()._run_once()

    def call_later(self, delay, callback, *args, context=None):
        if delay is not None and delay > 0:
            delay = max(delay, self.QUANTUM)
        return super().call_later(delay, callback, *args, context=context)

    def call_at(self, when, callback, *args, context=None):
        if when > self._vtime:
            when = max(when, self._vtime + self.QUANTUM)
        return super().call_at(when, callback, *args, context=context)

    async def create_connection(self, protocol_factory, host=None, port=None, **kw):
        if self.net is None:
            raise ConnectionRefusedError("no simulated network")
        return await self.net.connect(self, protocol_factory, host, port)

    async def getaddrinfo(self, host, port, **kw):
        return [(2, 1, 6, "", (host, port))]

    def run_in_executor(self, executor, func, *args):
        fut = self.create_future()
        try:
            fut.set_result(func(*args))
        except BaseException as e:  # noqa: BLE001
            fut.set_exception(e)
        return fut


class SimTransport(asyncio.Transport):
    """Client side of an in-memory connection to a simulated broker endpoint."""

    def __init__(self, loop, protocol, endpoint, net, cid):
        super().__init__()
        self._loop = loop
        self._protocol = protocol
        self.endpoint = endpoint      # object with on_bytes(transport, data), on_client_close(transport)
        self.net = net
        self.cid = cid
        self._closing = False
        self._lost = False
        self.in_buf = b""

    # --- client -> broker
    def write(self, data):
        if self._closing:
            return
        self.endpoint.on_bytes(self, bytes(data))

    def writelines(self, lst):
        for d in lst:
            self.write(d)

    def can_write_eof(self):
        return False

    def is_closing(self):
        return self._closing

    def get_write_buffer_size(self):
        return 0

    def set_write_buffer_limits(self, high=None, low=None):
        pass

    def get_extra_info(self, name, default=None):
        if name == "peername":
            return self.endpoint.addr
        return default

    def pause_reading(self):
        pass

    def resume_reading(self):
        pass

    def is_reading(self):
        return not self._closing

    def close(self):
        if self._closing:
            return
        self._closing = True
        self.endpoint.on_client_close(self)
        self._loop.call_soon(self._call_lost, None)

    def abort(self):
        self.close()

    def _call_lost(self, exc):
        if self._lost:
            return
        self._lost = True
        self.net.open_transports.discard(self)
        self._protocol.connection_lost(exc)

    # --- broker -> client
    def deliver(self, data, delay=0.0):
        def cb():
            if not self._closing and not self._lost:
                self._protocol.data_received(data)
        if delay > 0:
            self._loop.call_later(delay, cb)
        else:
            self._loop.call_soon(cb)

    def server_drop(self, delay=0.0, exc=None):
        """Broker side (or the network) kills the connection."""
        def cb():
            if self._lost:
                return
            self._closing = True
            self._call_lost(exc)
        if delay > 0:
            self._loop.call_later(delay, cb)
        else:
            self._loop.call_soon(cb)


_real_time, _real_monotonic = _time.time, _time.monotonic
_current = [None]


def _vtime():
    lp = _current[0]
    return lp.tick_time() if lp is not None else _real_time()


def _vmono():
    lp = _current[0]
    return lp.tick_time() if lp is not None else _real_monotonic()


def install_virtual_time():
    """Replace time.time / time.monotonic process-wide by readers of the current SimLoop's
    clock.  MUST be called before aiokafka is imported: the record builders bind
    `time.time` as a default argument at import time."""
    _time.time = _vtime
    _time.monotonic = _vmono


class patched_time:
    """Context manager: while active, clock reads go to `loop`'s virtual clock (ticking)."""

    def __init__(self, loop):
        self.loop = loop

    def __enter__(self):
        if _time.time is not _vtime:
            raise RuntimeError("install_virtual_time() must be called before importing aiokafka")
        self.prev = _current[0]
        _current[0] = self.loop
        return self

    def __exit__(self, *a):
        _current[0] = self.prev


def run_sim(coro_fn, net_factory, max_vtime=3600.0, seed=0):
    """Run `await coro_fn(loop, net)` to completion under virtual time. Returns its result."""
    import random
    random.seed(seed)
    loop = SimLoop()
    loop.max_vtime = loop._vtime + max_vtime
    net = net_factory(loop)
    loop.net = net
    asyncio.set_event_loop(loop)
    try:
        with patched_time(loop):
            try:
                return loop.run_until_complete(coro_fn(loop, net))
            except SimDeadlock as e:
                # diagnostics: where is every pending task waiting?
                stacks = []
                for t in asyncio.all_tasks(loop):
                    if t.done():
                        continue
                    chain = []
                    co = t.get_coro()
                    while co is not None and len(chain) < 10:
                        fr = getattr(co, "cr_frame", None) or getattr(co, "gi_frame", None)
                        if fr is None:
                            break
                        chain.append(f"{fr.f_code.co_name}:{fr.f_lineno}")
                        co = getattr(co, "cr_await", None) or getattr(co, "gi_yieldfrom", None)
                    stacks.append(" -> ".join(chain))
                e.stacks = sorted(stacks)
                raise
    finally:
        try:
            # cancel leftovers quietly
            pending = [t for t in asyncio.all_tasks(loop) if not t.done()]
            for t in pending:
                t.cancel()
            if pending:
                with patched_time(loop):
                    loop.max_vtime = None
                    loop.run_until_complete(asyncio.gather(*pending, return_exceptions=True))
        except BaseException:  # noqa: BLE001
            pass
        asyncio.set_event_loop(None)
        loop.close()
