"""Simulated group coordinator (Kafka's GroupCoordinator semantics, classic protocol)."""
from __future__ import annotations

from . import cluster as C

EMPTY, PREPARING, COMPLETING, STABLE = "Empty", "PreparingRebalance", "CompletingRebalance", "Stable"


class Group:
    def __init__(self, gid):
        self.gid = gid
        self.state = EMPTY
        self.generation = 0
        self.members = {}       # member_id -> dict
        self.pending_ids = set()
        self.leader = None
        self.protocol = None
        self.protocol_type = None
        self.offsets = {}       # (topic, partition) -> (offset, metadata)
        self.commit_log = []    # accepted commits: dict
        self.history = []       # per generation: dict(gen, members, assignments)
        self.rebalance_timer = None
        self.member_seq = 0


class GroupCoordinator:
    def __init__(self, cluster):
        self.c = cluster
        self.groups = {}
        self.initial_delay = 0.0
        self.loading = False
        self.deny = False      # group ACL revoked: every group request answers GROUP_AUTHORIZATION_FAILED

    def group(self, gid):
        if gid not in self.groups:
            self.groups[gid] = Group(gid)
        return self.groups[gid]

    def _check_node(self, node, api=None):
        if self.deny:
            return C.GROUP_AUTHORIZATION_FAILED
        if self.loading:
            # GroupCoordinator.scala: while the group is loading Heartbeat is answered blindly with NONE and
            # SyncGroup with REBALANCE_IN_PROGRESS (the member has to start over at JoinGroup); the other
            # requests get COORDINATOR_LOAD_IN_PROGRESS
            if api == "heartbeat":
                return -1
            if api == "sync":
                return C.REBALANCE_IN_PROGRESS
            return C.COORDINATOR_LOAD_IN_PROGRESS
        if node != self.c.group_coordinator_node:
            return C.NOT_COORDINATOR
        return 0

    def move(self, new_node, keep_state=True):
        """Coordinator failover.  Offsets survive (they are in the offsets topic); membership
        survives only when keep_state."""
        self.c.group_coordinator_node = new_node
        self.c.ev("coordinator_move", node=new_node, keep_state=keep_state)
        for g in self.groups.values():
            for m in g.members.values():
                for key in ("join_cb", "sync_cb"):
                    m[key] = None
            g.pending_ids = set()       # member ids handed out with MEMBER_ID_REQUIRED live in memory only
            if not keep_state:
                for m in g.members.values():
                    if m.get("timer"):
                        m["timer"].cancel()
                g.members = {}
                g.pending_ids = set()
                g.state = EMPTY
                g.leader = None
                if g.rebalance_timer:
                    g.rebalance_timer.cancel()
                    g.rebalance_timer = None

    # ------------------------------------------------------------------ sessions
    def _arm(self, g, mid):
        m = g.members.get(mid)
        if m is None:
            return
        if m.get("timer"):
            m["timer"].cancel()
        m["last_hb"] = self.c.loop.time()
        m["timer"] = self.c.loop.call_later(m["session_timeout"], self._expire, g, mid)

    def _expire(self, g, mid):
        m = g.members.get(mid)
        if m is None:
            return
        if m.get("join_cb") is not None or m.get("sync_cb") is not None:
            # a pending join/sync keeps the session alive
            self._arm(g, mid)
            return
        self.c.ev("session_expired", group=g.gid, member=mid)
        self._remove_member(g, mid)

    def _remove_member(self, g, mid):
        m = g.members.pop(mid, None)
        if m and m.get("timer"):
            m["timer"].cancel()
        if g.leader == mid:
            g.leader = None
        if not g.members:
            if g.state != EMPTY:
                g.generation += 1
            g.state = EMPTY
            if g.rebalance_timer:
                g.rebalance_timer.cancel()
                g.rebalance_timer = None
            return
        if g.state in (STABLE, COMPLETING):
            self._prepare_rebalance(g, f"member {mid} left")
        elif g.state == PREPARING:
            self._maybe_complete_join(g)

    # ------------------------------------------------------------------ join
    def join(self, node, cls, obj, info):
        err = self._check_node(node)
        base = {"error_code": err, "generation_id": -1, "group_protocol": "", "leader_id": "",
                "member_id": obj["member_id"], "members": []}
        if err:
            return base
        g = self.group(obj["group"])
        mid = obj["member_id"]
        protocols = [(p["protocol_name"], bytes(p["protocol_metadata"])) for p in obj["group_protocols"]]
        self.c.ev("join_request", group=g.gid, member=mid, protocols=[p[0] for p in protocols],
                  state=g.state, version=cls.API_VERSION, client=info.get("client"))
        inst = obj.get("group_instance_id") if cls.API_VERSION >= 5 else None
        if mid == "" and inst:
            # static member (KIP-345): it is given a member id at once (no MEMBER_ID_REQUIRED round); a member
            # that registered the same group.instance.id before is replaced by the new member id
            g.member_seq += 1
            mid = f"{inst}-{g.member_seq}"
            self.c.ev("member_id_assigned", group=g.gid, member=mid, client=info.get("client"), static=inst)
            for x in [x for x, mm in g.members.items() if mm.get("instance_id") == inst]:
                mm = g.members.pop(x)
                if mm.get("timer"):
                    mm["timer"].cancel()
                for cbn in ("join_cb", "sync_cb"):
                    if mm.get(cbn):
                        cbx, mm[cbn] = mm[cbn], None
                        cbx({"error_code": C.FENCED_INSTANCE_ID, "generation_id": -1, "group_protocol": "",
                             "leader_id": "", "member_id": x, "members": [], "member_assignment": b""})
                if g.leader == x:
                    g.leader = None
                self.c.ev("static_member_replaced", group=g.gid, old=x, new=mid)
            g.pending_ids.add(mid)
        elif mid == "":
            g.member_seq += 1
            mid = f"m{g.member_seq}-{info['cid']}"
            self.c.ev("member_id_assigned", group=g.gid, member=mid, client=info.get("client"))
            if cls.API_VERSION >= 4:
                g.pending_ids.add(mid)
                base["error_code"] = C.MEMBER_ID_REQUIRED
                base["member_id"] = mid
                return base
        elif mid not in g.members and mid not in g.pending_ids:
            base["error_code"] = C.UNKNOWN_MEMBER_ID
            return base
        g.pending_ids.discard(mid)
        if g.members and g.protocol_type is not None and obj["protocol_type"] != g.protocol_type:
            base["error_code"] = C.INCONSISTENT_GROUP_PROTOCOL
            return base
        if g.members:
            common = set(n for n, _ in protocols)
            for m in g.members.values():
                if m is not g.members.get(mid):
                    common &= set(n for n, _ in m["protocols"])
            if not common:
                base["error_code"] = C.INCONSISTENT_GROUP_PROTOCOL
                return base
        g.protocol_type = obj["protocol_type"]
        new = mid not in g.members
        old = g.members.get(mid)
        changed = old is not None and old["protocols"] != protocols
        m = old or {"join_cb": None, "sync_cb": None, "assignment": b"", "timer": None}
        m.update({"protocols": protocols, "session_timeout": obj["session_timeout"] / 1000.0,
                  "rebalance_timeout": obj.get("rebalance_timeout", obj["session_timeout"]) / 1000.0,
                  "instance_id": obj.get("group_instance_id")})
        g.members[mid] = m
        self._arm(g, mid)
        # The coordinator's state changes when it PROCESSES the request, whether or not the reply
        # ever reaches the member (lost reply / dropped connection).
        holder = {"send": None, "early": None}

        def cb(reply):
            if holder["send"] is not None:
                holder["send"](reply)
            else:
                holder["early"] = reply
        m["join_cb"] = cb
        if g.state in (EMPTY,):
            self._prepare_rebalance(g, "first member")
            self._maybe_complete_join(g)
        elif g.state == STABLE:
            if new or changed or mid == g.leader:
                self._prepare_rebalance(g, f"join of {mid}")
                self._maybe_complete_join(g)
            else:
                m["join_cb"] = None
                cb(self._join_reply(g, mid))
        elif g.state == COMPLETING:
            if new or changed:
                self._prepare_rebalance(g, f"join of {mid} while completing")
                self._maybe_complete_join(g)
            else:
                m["join_cb"] = None
                cb(self._join_reply(g, mid))
        else:
            self._maybe_complete_join(g)

        def deferred(send):
            holder["send"] = send
            if holder["early"] is not None:
                r, holder["early"] = holder["early"], None
                send(r)
        return deferred

    def _prepare_rebalance(self, g, why):
        self.c.ev("prepare_rebalance", group=g.gid, why=why, generation=g.generation)
        for mid, m in g.members.items():
            if m.get("sync_cb"):
                cb, m["sync_cb"] = m["sync_cb"], None
                cb({"error_code": C.REBALANCE_IN_PROGRESS, "member_assignment": b""})
        was_empty = g.state == EMPTY
        g.state = PREPARING
        if g.rebalance_timer:
            g.rebalance_timer.cancel()
        tmo = max([m["rebalance_timeout"] for m in g.members.values()] or [1.0])
        if was_empty and self.initial_delay > 0:
            tmo = self.initial_delay
        g.rebalance_timer = self.c.loop.call_later(tmo, self._rebalance_timeout, g)
        g.initial = was_empty and self.initial_delay > 0

    def _maybe_complete_join(self, g):
        if g.state != PREPARING:
            return
        if getattr(g, "initial", False):
            return      # wait for the initial delay
        if g.members and all(m.get("join_cb") is not None for m in g.members.values()):
            self._complete_join(g)

    def _rebalance_timeout(self, g):
        g.rebalance_timer = None
        g.initial = False
        if g.state != PREPARING:
            return
        for mid in [mid for mid, m in g.members.items() if m.get("join_cb") is None]:
            self.c.ev("member_dropped_at_rebalance_timeout", group=g.gid, member=mid)
            m = g.members.pop(mid)
            if m.get("timer"):
                m["timer"].cancel()
            if g.leader == mid:
                g.leader = None
        if g.members:
            self._complete_join(g)
        else:
            g.state = EMPTY

    def _complete_join(self, g):
        if g.rebalance_timer:
            g.rebalance_timer.cancel()
            g.rebalance_timer = None
        g.generation += 1
        mids = sorted(g.members)
        if g.leader not in g.members:
            g.leader = mids[0]
        # protocol selection: every member votes for its first protocol supported by all
        common = None
        for m in g.members.values():
            names = [n for n, _ in m["protocols"]]
            common = set(names) if common is None else common & set(names)
        votes = {}
        for m in g.members.values():
            for n, _ in m["protocols"]:
                if n in common:
                    votes[n] = votes.get(n, 0) + 1
                    break
        g.protocol = sorted(votes.items(), key=lambda kv: (-kv[1], kv[0]))[0][0]
        g.state = COMPLETING
        g.history.append({"generation": g.generation, "members": list(mids), "leader": g.leader,
                          "protocol": g.protocol, "assignments": None})
        self.c.ev("join_complete", group=g.gid, generation=g.generation, members=mids, leader=g.leader,
                  protocol=g.protocol)
        for mid in mids:
            m = g.members[mid]
            cb, m["join_cb"] = m["join_cb"], None
            self._arm(g, mid)
            cb(self._join_reply(g, mid))

    def _join_reply(self, g, mid):
        members = []
        if mid == g.leader:
            for x in sorted(g.members):
                md = dict(g.members[x]["protocols"])[g.protocol]
                members.append({"member_id": x, "group_instance_id": g.members[x].get("instance_id"),
                                "member_metadata": md})
        return {"error_code": 0, "generation_id": g.generation, "group_protocol": g.protocol,
                "leader_id": g.leader, "member_id": mid, "members": members}

    # ------------------------------------------------------------------ sync
    def _validate(self, g, mid, gen):
        if mid not in g.members:
            return C.UNKNOWN_MEMBER_ID
        if gen != g.generation:
            return C.ILLEGAL_GENERATION
        return 0

    def sync(self, node, cls, obj, info):
        err = self._check_node(node, "sync")
        if err:
            return {"error_code": err, "member_assignment": b""}
        g = self.group(obj["group"])
        mid = obj["member_id"]
        err = self._validate(g, mid, obj["generation_id"])
        self.c.ev("sync_request", group=g.gid, member=mid, generation=obj["generation_id"], state=g.state,
                  error=err)
        if err:
            return {"error_code": err, "member_assignment": b""}
        if g.state == PREPARING:
            return {"error_code": C.REBALANCE_IN_PROGRESS, "member_assignment": b""}
        if g.state == STABLE:
            self._arm(g, mid)
            return {"error_code": 0, "member_assignment": g.members[mid]["assignment"]}
        m = g.members[mid]
        holder = {"send": None, "early": None}

        def cb(reply):
            if holder["send"] is not None:
                holder["send"](reply)
            else:
                holder["early"] = reply
        m["sync_cb"] = cb
        if mid == g.leader:
            asg = {a["member_id"]: bytes(a["member_metadata"]) for a in obj["group_assignment"]}
            for x, mm in g.members.items():
                mm["assignment"] = asg.get(x, b"")
            g.state = STABLE
            g.history[-1]["assignments"] = {x: mm["assignment"] for x, mm in g.members.items()}
            self.c.ev("sync_complete", group=g.gid, generation=g.generation)
            for x, mm in g.members.items():
                if mm.get("sync_cb"):
                    c2, mm["sync_cb"] = mm["sync_cb"], None
                    self._arm(g, x)
                    c2({"error_code": 0, "member_assignment": mm["assignment"]})

        def deferred(send):
            holder["send"] = send
            if holder["early"] is not None:
                r, holder["early"] = holder["early"], None
                send(r)
        return deferred

    def heartbeat(self, node, cls, obj, info):
        err = self._check_node(node, "heartbeat")
        if err:
            return {"error_code": max(err, 0)}
        g = self.group(obj["group"])
        mid = obj["member_id"]
        err = self._validate(g, mid, obj["generation_id"])
        if err:
            self.c.ev("heartbeat", group=g.gid, member=mid, error=err)
            return {"error_code": err}
        self._arm(g, mid)
        code = C.REBALANCE_IN_PROGRESS if g.state in (PREPARING, COMPLETING) else 0
        self.c.ev("heartbeat", group=g.gid, member=mid, error=code, generation=g.generation)
        return {"error_code": code}

    def leave(self, node, cls, obj, info):
        err = self._check_node(node)
        if err:
            return {"error_code": err}
        g = self.group(obj["group"])
        mid = obj["member_id"]
        self.c.ev("leave_request", group=g.gid, member=mid)
        if mid not in g.members:
            return {"error_code": C.UNKNOWN_MEMBER_ID}
        self._remove_member(g, mid)
        return {"error_code": 0}

    def kill_member(self, gid, mid):
        """Scenario helper: nothing to do on the coordinator — the member just stops talking."""

    # ------------------------------------------------------------------ offsets
    def offset_commit(self, node, cls, obj, info):
        err = self._check_node(node)
        g = self.group(obj["consumer_group"])
        gen = obj.get("consumer_group_generation_id", -1)
        mid = obj.get("consumer_id", "")
        if not err:
            if gen < 0 and mid == "":
                if g.state != EMPTY:
                    err = C.UNKNOWN_MEMBER_ID
            else:
                err = self._validate(g, mid, gen)
                if not err and g.state == COMPLETING:
                    err = C.REBALANCE_IN_PROGRESS
        topics = []
        for t in obj["topics"]:
            parts = []
            for p in t["partitions"]:
                parts.append({"partition": p["partition"], "error_code": err})
                entry = {"t": self.c.loop.time(), "group": g.gid, "member": mid, "generation": gen,
                         "topic": t["topic"], "partition": p["partition"], "offset": p["offset"],
                         "accepted": not err, "error": err, "ordinal": info["ordinal"]}
                g.commit_log.append(entry)
                if not err:
                    g.offsets[(t["topic"], p["partition"])] = (p["offset"], p.get("metadata") or "")
            topics.append({"topic": t["topic"], "partitions": parts})
        self.c.ev("offset_commit", group=g.gid, member=mid, generation=gen, error=err, client=info.get("client"),
                  offsets=[(t["topic"], p["partition"], p["offset"]) for t in obj["topics"] for p in t["partitions"]])
        if not err and mid in g.members:
            self._arm(g, mid)
        return {"topics": topics}

    def offset_fetch(self, node, cls, obj, info):
        err = self._check_node(node)
        g = self.group(obj["consumer_group"])
        req = obj.get("topics")
        topics = []
        if err and cls.API_VERSION >= 2:
            # since v2 Kafka reports group-level errors in the top-level field only
            self.c.ev("offset_fetch", group=g.gid, error=err)
            return {"topics": [], "error_code": err}
        if req is None:
            bytopic = {}
            for (t, p), (off, md) in sorted(g.offsets.items()):
                bytopic.setdefault(t, []).append({"partition": p, "offset": off, "metadata": md, "error_code": 0})
            topics = [{"topic": t, "partitions": ps} for t, ps in bytopic.items()]
        else:
            for t in req:
                parts = []
                for p in t["partitions"]:
                    off, md = g.offsets.get((t["topic"], p), (-1, ""))
                    parts.append({"partition": p, "offset": off if not err else -1, "metadata": md,
                                  "error_code": err})
                topics.append({"topic": t["topic"], "partitions": parts})
        self.c.ev("offset_fetch", group=g.gid, error=err)
        return {"topics": topics, "error_code": err}
