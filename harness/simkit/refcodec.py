"""Independent reference reader/writer for Kafka record batches (v0/v1 message sets, v2
batches), written from the Kafka format with struct/zlib only — never uses aiokafka.record.
Used by the simulated brokers (ground truth of what was appended) and by monitors."""
from __future__ import annotations

import gzip
import io
import struct
import zlib


def _crc32c_table():
    tbl = []
    for i in range(256):
        c = i
        for _ in range(8):
            c = (c >> 1) ^ 0x82F63B78 if c & 1 else c >> 1
        tbl.append(c)
    return tbl


_T = _crc32c_table()


def crc32c(data: bytes) -> int:
    c = 0xFFFFFFFF
    for b in data:
        c = _T[(c ^ b) & 0xFF] ^ (c >> 8)
    return c ^ 0xFFFFFFFF


def read_uvarint(buf, pos):
    shift = 0
    res = 0
    while True:
        b = buf[pos]
        pos += 1
        res |= (b & 0x7F) << shift
        if not b & 0x80:
            return res, pos
        shift += 7


def read_varint(buf, pos):
    u, pos = read_uvarint(buf, pos)
    return (u >> 1) ^ -(u & 1), pos


def write_varint(v):
    u = (v << 1) ^ (v >> 63)
    u &= (1 << 64) - 1
    out = bytearray()
    while True:
        b = u & 0x7F
        u >>= 7
        if u:
            out.append(b | 0x80)
        else:
            out.append(b)
            return bytes(out)


def _decompress(codec, data):
    if codec == 0:
        return data
    if codec == 1:
        return gzip.decompress(data)
    import cramjam
    if codec == 2:
        # kafka snappy may use xerial framing
        if data[:8] == b"\x82SNAPPY\x00":
            out = b""
            pos = 16
            while pos < len(data):
                (n,) = struct.unpack(">i", data[pos:pos + 4])
                pos += 4
                out += bytes(cramjam.snappy.decompress_raw(data[pos:pos + n]))
                pos += n
            return out
        return bytes(cramjam.snappy.decompress_raw(data))
    if codec == 3:
        return bytes(cramjam.lz4.decompress(data))
    if codec == 4:
        return bytes(cramjam.zstd.decompress(data))
    raise ValueError("codec")


class Batch:
    __slots__ = ("magic", "base_offset", "last_offset", "pid", "epoch", "base_seq", "count",
                 "transactional", "control", "ts_type", "max_ts", "first_ts", "records", "raw",
                 "codec", "append_time")

    def __repr__(self):
        return (f"Batch(magic={self.magic} off={self.base_offset}..{self.last_offset} pid={self.pid} "
                f"seq={self.base_seq} n={self.count} txn={self.transactional} ctl={self.control})")


def parse_v2(raw: bytes) -> Batch:
    (base_offset, length, _epoch, magic, crc, attrs, last_delta, first_ts, max_ts, pid, pepoch,
     base_seq, count) = struct.unpack(">qiibIhiqqqhii", raw[:61])
    assert magic == 2
    assert length + 12 == len(raw), "batch length field"
    assert crc32c(raw[21:]) == crc, "batch crc"
    b = Batch()
    b.magic = 2
    b.base_offset = base_offset
    b.last_offset = base_offset + last_delta
    b.pid, b.epoch, b.base_seq, b.count = pid, pepoch, base_seq, count
    b.codec = attrs & 7
    b.ts_type = (attrs >> 3) & 1
    b.transactional = bool(attrs & 0x10)
    b.control = bool(attrs & 0x20)
    b.first_ts, b.max_ts = first_ts, max_ts
    body = _decompress(b.codec, raw[61:])
    pos = 0
    recs = []
    for _ in range(count):
        ln, pos = read_varint(body, pos)
        end = pos + ln
        pos += 1  # attributes
        ts_delta, pos = read_varint(body, pos)
        off_delta, pos = read_varint(body, pos)
        klen, pos = read_varint(body, pos)
        key = None
        if klen >= 0:
            key = bytes(body[pos:pos + klen])
            pos += klen
        vlen, pos = read_varint(body, pos)
        val = None
        if vlen >= 0:
            val = bytes(body[pos:pos + vlen])
            pos += vlen
        nh, pos = read_varint(body, pos)
        hdrs = []
        for _h in range(nh):
            hk, pos = read_varint(body, pos)
            hkey = bytes(body[pos:pos + hk]).decode()
            pos += hk
            hv, pos = read_varint(body, pos)
            hval = None
            if hv >= 0:
                hval = bytes(body[pos:pos + hv])
                pos += hv
            hdrs.append((hkey, hval))
        assert pos == end, "record length"
        ts = max_ts if b.ts_type == 1 else first_ts + ts_delta
        recs.append({"offset": base_offset + off_delta, "ts": ts, "key": key, "value": val,
                     "headers": hdrs, "ts_type": b.ts_type})
    b.records = recs
    b.raw = raw
    return b


def parse_legacy(raw: bytes):
    """Parse a v0/v1 message set -> list of message dicts (shallow + deep for wrappers)."""
    out = []
    pos = 0
    while pos + 12 <= len(raw):
        offset, size = struct.unpack(">qi", raw[pos:pos + 12])
        if pos + 12 + size > len(raw):
            break
        m = raw[pos + 12:pos + 12 + size]
        crc, magic, attrs = struct.unpack(">IbB", m[:6])
        assert zlib.crc32(m[4:]) & 0xFFFFFFFF == crc, "legacy crc"
        p = 6
        ts = None
        if magic == 1:
            (ts,) = struct.unpack(">q", m[p:p + 8])
            p += 8
        (klen,) = struct.unpack(">i", m[p:p + 4])
        p += 4
        key = None
        if klen >= 0:
            key = m[p:p + klen]
            p += klen
        (vlen,) = struct.unpack(">i", m[p:p + 4])
        p += 4
        val = None
        if vlen >= 0:
            val = m[p:p + vlen]
            p += vlen
        codec = attrs & 7
        out.append({"offset": offset, "magic": magic, "attrs": attrs, "ts": ts, "key": key,
                    "value": val, "codec": codec, "ts_type": (attrs >> 3) & 1, "start": pos,
                    "end": pos + 12 + size})
        pos += 12 + size
    return out


def legacy_records(raw: bytes):
    """Deep iteration over a message set: (absolute_offset?, ts, key, value) per message.
    For compressed wrappers inner offsets: magic 0 absolute, magic 1 relative to wrapper."""
    res = []
    for m in parse_legacy(raw):
        if m["codec"]:
            inner = parse_legacy(_decompress(m["codec"], m["value"]))
            if m["magic"] == 1 and inner:
                last_rel = inner[-1]["offset"]
                for im in inner:
                    ts = m["ts"] if m["ts_type"] == 1 else im["ts"]
                    res.append({"offset": m["offset"] - (last_rel - im["offset"]), "ts": ts,
                                "key": im["key"], "value": im["value"], "headers": [],
                                "ts_type": m["ts_type"]})
            else:
                for im in inner:
                    res.append({"offset": im["offset"], "ts": im["ts"], "key": im["key"],
                                "value": im["value"], "headers": [], "ts_type": 0})
        else:
            res.append({"offset": m["offset"], "ts": m["ts"], "key": m["key"], "value": m["value"],
                        "headers": [], "ts_type": m["ts_type"]})
    return res


def split_batches(raw: bytes):
    """Split produce payload / log bytes into (magic, bytes) units (v2 batch or one legacy msg)."""
    out = []
    pos = 0
    while pos + 17 <= len(raw):
        (_off, size) = struct.unpack(">qi", raw[pos:pos + 12])
        magic = raw[pos + 16]
        end = pos + 12 + size
        if end > len(raw):
            break
        out.append((magic, raw[pos:end]))
        pos = end
    return out


# ------------------------------------------------------------------------------- writers
def build_v2(base_offset, records, pid=-1, epoch=-1, base_seq=-1, transactional=False,
             control=False, ts_type=0, codec=0):
    """records: list of (offset_delta, ts, key, value, headers)."""
    first_ts = records[0][1] if records else 0
    max_ts = max((r[1] for r in records), default=0)
    body = bytearray()
    for (od, ts, key, val, hdrs) in records:
        r = bytearray()
        r += b"\x00"
        r += write_varint(ts - first_ts)
        r += write_varint(od)
        if key is None:
            r += write_varint(-1)
        else:
            r += write_varint(len(key)) + key
        if val is None:
            r += write_varint(-1)
        else:
            r += write_varint(len(val)) + val
        r += write_varint(len(hdrs))
        for hk, hv in hdrs:
            hk = hk.encode()
            r += write_varint(len(hk)) + hk
            if hv is None:
                r += write_varint(-1)
            else:
                r += write_varint(len(hv)) + hv
        body += write_varint(len(r)) + r
    attrs = codec | (ts_type << 3) | (0x10 if transactional else 0) | (0x20 if control else 0)
    payload = bytes(body)
    if codec == 1:
        payload = gzip.compress(payload)
    last_delta = records[-1][0] if records else 0
    tail = struct.pack(">hiqqqhii", attrs, last_delta, first_ts, max_ts, pid, epoch, base_seq,
                       len(records)) + payload
    crc = crc32c(tail)
    head = struct.pack(">qiibI", base_offset, 4 + 1 + 4 + len(tail), 0, 2, crc)
    return head + tail


def control_batch(base_offset, pid, epoch, commit: bool, ts=0):
    key = struct.pack(">hh", 0, 1 if commit else 0)
    val = struct.pack(">hi", 0, 0)
    return build_v2(base_offset, [(0, ts, key, val, [])], pid=pid, epoch=epoch, base_seq=-1,
                    transactional=True, control=True)


def build_legacy_msg(offset, magic, ts, key, value, attrs=0):
    body = struct.pack(">bB", magic, attrs)
    if magic == 1:
        body += struct.pack(">q", ts)
    body += struct.pack(">i", -1 if key is None else len(key)) + (key or b"")
    body += struct.pack(">i", -1 if value is None else len(value)) + (value or b"")
    crc = zlib.crc32(body) & 0xFFFFFFFF
    msg = struct.pack(">I", crc) + body
    return struct.pack(">qi", offset, len(msg)) + msg


def set_base_offset_v2(raw: bytes, base_offset: int) -> bytes:
    return struct.pack(">q", base_offset) + raw[8:]


def set_log_append_time_v2(raw: bytes, ts: int) -> bytes:
    """Broker-side rewrite for LogAppendTime topics: attribute bit 3, max timestamp, new crc."""
    attrs = struct.unpack(">h", raw[21:23])[0] | 0x08
    tail = struct.pack(">h", attrs) + raw[23:27] + raw[27:35] + struct.pack(">q", ts) + raw[43:]
    crc = crc32c(tail)
    return raw[:17] + struct.pack(">I", crc) + tail
