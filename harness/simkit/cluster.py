"""Simulated Kafka cluster: brokers, partition logs with idempotence and transaction markers,
group coordinator, transaction coordinator, fault injection.  Requests are decoded with the
library's own structs (wire layer is C11's business), record batches with the independent
reference reader (refcodec).  Everything is deterministic given the scenario and fault plan.
"""
from __future__ import annotations

import asyncio
import io
import struct

from aiokafka.protocol.api import RequestStruct
from aiokafka.protocol.types import Array, Schema

from . import refcodec
from .loop import SimTransport

# error codes
NONE = 0
OFFSET_OUT_OF_RANGE = 1
UNKNOWN_TOPIC_OR_PARTITION = 3
LEADER_NOT_AVAILABLE = 5
NOT_LEADER = 6
REQUEST_TIMED_OUT = 7
COORDINATOR_LOAD_IN_PROGRESS = 14
COORDINATOR_NOT_AVAILABLE = 15
NOT_COORDINATOR = 16
NOT_ENOUGH_REPLICAS = 19
ILLEGAL_GENERATION = 22
INCONSISTENT_GROUP_PROTOCOL = 23
UNKNOWN_MEMBER_ID = 25
REBALANCE_IN_PROGRESS = 27
TOPIC_AUTHORIZATION_FAILED = 29
GROUP_AUTHORIZATION_FAILED = 30
OUT_OF_ORDER_SEQUENCE = 45
DUPLICATE_SEQUENCE = 46
INVALID_PRODUCER_EPOCH = 47
INVALID_TXN_STATE = 48
INVALID_PRODUCER_ID_MAPPING = 49
CONCURRENT_TRANSACTIONS = 51
TRANSACTIONAL_ID_AUTHORIZATION_FAILED = 53
MEMBER_ID_REQUIRED = 79
FENCED_INSTANCE_ID = 82

API_NAMES = {0: "Produce", 1: "Fetch", 2: "ListOffsets", 3: "Metadata", 8: "OffsetCommit",
             9: "OffsetFetch", 10: "FindCoordinator", 11: "JoinGroup", 12: "Heartbeat",
             13: "LeaveGroup", 14: "SyncGroup", 17: "SaslHandshake", 18: "ApiVersions",
             22: "InitProducerId", 24: "AddPartitionsToTxn", 25: "AddOffsetsToTxn", 26: "EndTxn",
             28: "TxnOffsetCommit", 36: "SaslAuthenticate"}


def _all_subclasses(c):
    out = []
    for s in c.__subclasses__():
        out.append(s)
        out += _all_subclasses(s)
    return out


def request_classes():
    import aiokafka.protocol.admin  # noqa: F401
    import aiokafka.protocol.commit  # noqa: F401
    import aiokafka.protocol.coordination  # noqa: F401
    import aiokafka.protocol.fetch  # noqa: F401
    import aiokafka.protocol.group  # noqa: F401
    import aiokafka.protocol.metadata  # noqa: F401
    import aiokafka.protocol.offset  # noqa: F401
    import aiokafka.protocol.produce  # noqa: F401
    import aiokafka.protocol.transaction  # noqa: F401
    tbl = {}
    for c in sorted(_all_subclasses(RequestStruct), key=lambda c: c.__name__):
        k = (c.API_KEY, c.API_VERSION)
        # on duplicates keep the class whose name carries the version
        if k not in tbl or c.__name__.endswith(f"_v{c.API_VERSION}"):
            tbl[k] = c
    return tbl


def default_for(ty):
    if isinstance(ty, Schema):
        return tuple(default_for(f) for f in ty.fields)
    if isinstance(ty, Array):
        return []
    name = ty.__name__ if isinstance(ty, type) else type(ty).__name__
    if name in ("String", "CompactString"):
        return ""
    if name in ("Bytes", "CompactBytes"):
        return b""
    if name == "Boolean":
        return False
    if name == "TaggedFields":
        return {}
    return 0


def build(schema, obj):
    """dict (by field name) -> positional tuple for `schema`, defaults for missing fields."""
    vals = []
    for name, ty in zip(schema.names, schema.fields):
        if isinstance(obj, dict) and name in obj:
            v = obj[name]
            if isinstance(ty, Schema):
                v = build(ty, v)
            elif isinstance(ty, Array) and isinstance(ty.array_of, Schema) and v is not None:
                v = [build(ty.array_of, x) for x in v]
            vals.append(v)
        else:
            vals.append(default_for(ty))
    return tuple(vals)


def mk_response(req_cls, obj):
    rc = req_cls.RESPONSE_TYPE
    return rc(*build(rc.SCHEMA, obj))


class Fault:
    """what happens to one request: kind in
       drop_before  – connection dies before the broker applies the request
       drop_after   – broker applies, connection dies before the reply
       no_reply     – broker applies, reply never sent (client request timeout)
       no_reply_before – not applied, reply never sent
       error        – not applied, reply carries `code` for every partition / top level
       delay        – applied, reply delayed by `delay` seconds
    """

    def __init__(self, kind, code=0, delay=0.0):
        self.kind, self.code, self.delay = kind, code, delay

    def __repr__(self):
        return f"Fault({self.kind},{self.code},{self.delay})"

    def to_json(self):
        return {"kind": self.kind, "code": self.code, "delay": self.delay}


class PartitionLog:
    def __init__(self, topic, partition, leader, ts_type=0):
        self.topic, self.partition = topic, partition
        self.leader = leader
        self.ts_type = ts_type          # 0 CreateTime, 1 LogAppendTime
        self.batches = []               # refcodec.Batch (with assigned offsets), append-only
        self.log_start = 0
        self.next_offset = 0
        self.pstate = {}                # pid -> dict(epoch, last_seq, last_count, last_offset)
        self.arrivals = []              # every produce arrival: dict(...verdict)
        self.open_txn = {}              # pid -> first offset of the open transaction
        self.aborted = []               # (pid, first_offset, last_offset) of aborted transactions
        self.hw_lag = 0

    @property
    def high_watermark(self):
        return self.next_offset

    @property
    def lso(self):
        if self.open_txn:
            # Kafka: the first unstable offset is never below the log start (retention that removes the
            # beginning of an open transaction moves it along)
            return max(min(self.open_txn.values()), self.log_start)
        return self.next_offset

    def records(self):
        out = []
        for b in self.batches:
            if not b.control:
                out += b.records
        return out


class SimCluster:
    def __init__(self, loop, n_brokers=1, rng=None):
        import random
        self.loop = loop
        self.rng = rng or random.Random(0)
        self.brokers = {i: {"host": f"b{i}", "port": 9092, "up": True} for i in range(n_brokers)}
        self.topics = {}               # topic -> {partition: PartitionLog}
        self.open_transports = set()
        self.req_classes = request_classes()
        self.api_ranges = {}           # api_key -> (min,max) override advertised by brokers
        self.latency = lambda node, api: 0.001
        self.fault_for = lambda info: None     # info dict -> Fault | None
        self.trace = []                # boundary events (dicts)
        self.req_ordinal = 0
        self.conn_counter = 0
        self.auto_create = False
        self.groups = {}
        self.group_coordinator_node = 0
        self.txn_coordinator_node = 0
        self.txns = {}
        self.next_pid = 1000
        self.metadata_hook = None
        self.metadata_shuffle = None   # random.Random: order of partitions inside Metadata replies
        self.stale_metadata = {}       # node -> {(topic,partition): leader} view override
        self.on_request = None         # callback(info) after decode (for schedulers)
        from .groupcoord import GroupCoordinator
        from .txncoord import TxnCoordinator
        self.gc = GroupCoordinator(self)
        self.tc = TxnCoordinator(self)

    # ----------------------------------------------------------------- topology
    def add_topic(self, topic, n_partitions, ts_type=0, leaders=None):
        self.topics[topic] = {}
        nb = len(self.brokers)
        for p in range(n_partitions):
            leader = leaders[p] if leaders else p % nb
            self.topics[topic][p] = PartitionLog(topic, p, leader, ts_type)

    def log(self, topic, partition):
        return self.topics[topic][partition]

    def bootstrap(self):
        return [f"{b['host']}:{b['port']}" for b in self.brokers.values()]

    def node_of(self, host, port):
        for i, b in self.brokers.items():
            if b["host"] == host and b["port"] == port:
                return i
        return None

    def set_up(self, node, up):
        self.brokers[node]["up"] = up
        if not up:
            for t in list(self.open_transports):
                if t.endpoint.node == node:
                    t.server_drop()

    def ev(self, kind, **kw):
        e = {"t": round(self.loop.time(), 9), "ev": kind}
        e.update(kw)
        self.trace.append(e)
        return e

    # ----------------------------------------------------------------- connections
    async def connect(self, loop, protocol_factory, host, port):
        node = self.node_of(host, port)
        await _sleep0(loop)
        if node is None or not self.brokers[node]["up"]:
            self.ev("connect_refused", host=host)
            # a refused connection costs a network round trip: without it, client code that
            # retries a failed connect without backoff would spin at frozen virtual time
            await asyncio.sleep(self.connect_refused_delay)
            raise ConnectionRefusedError(f"{host}:{port} unreachable (simulated)")
        proto = protocol_factory()
        self.conn_counter += 1
        ep = Endpoint(self, node, self.conn_counter)
        tr = SimTransport(loop, proto, ep, self, self.conn_counter)
        self.open_transports.add(tr)
        proto.connection_made(tr)
        self.ev("connect", node=node, cid=tr.cid)
        return tr, proto

    # ----------------------------------------------------------------- request dispatch
    def handle(self, ep, tr, api_key, version, corr, client_id, body, flexible_hdr_len):
        cls = self.req_classes.get((api_key, version))
        name = API_NAMES.get(api_key, str(api_key))
        if cls is None:
            self.ev("unknown_request", api=name, version=version)
            tr.server_drop()
            return
        req = cls.decode(io.BytesIO(body))
        obj = req.to_object()
        self.req_ordinal += 1
        info = {"ordinal": self.req_ordinal, "node": ep.node, "api": name, "version": version,
                "cid": tr.cid, "req": obj, "cls": cls, "client": client_id}
        fault = self.fault_for(info)
        e = self.ev("request", ordinal=info["ordinal"], node=ep.node, api=name, version=version,
                    cid=tr.cid, client=client_id, fault=fault.to_json() if fault else None,
                    summary=summarize(name, obj))
        info["event"] = e
        if self.on_request:
            self.on_request(info)
        info["ep"] = ep
        if fault and fault.kind == "drop_before":
            tr.server_drop()
            return
        if fault and fault.kind == "no_reply_before":
            self.stall(tr)
            return
        handler = getattr(self, "h_" + name, None)
        if handler is None:
            tr.server_drop()
            return
        if fault and fault.kind == "error":
            resp = self.error_reply(name, cls, obj, fault.code)
        else:
            resp = handler(ep.node, cls, obj, info)
        if fault and fault.kind == "drop_after":
            tr.server_drop()
            return
        if fault and fault.kind == "no_reply":
            self.stall(tr)
            return
        if resp is None:          # acks=0: no reply is due, next request may proceed
            ep.done(tr)
            return
        delay = self.latency(ep.node, name) + (fault.delay if fault and fault.kind in ("delay", "error") else 0.0)
        if callable(resp):        # deferred: handler will call send later
            resp(lambda r: self.send_reply(tr, cls, corr, r, self.latency(ep.node, name), info))
            return
        self.send_reply(tr, cls, corr, resp, delay, info)

    stall_reset_after = 5.0
    connect_refused_delay = 0.001

    def stall(self, tr):
        """A reply that is never sent: the connection stays blocked (head of line) and the
        broker resets it after `stall_reset_after` seconds."""
        if self.stall_reset_after is not None:
            tr.server_drop(delay=self.stall_reset_after)

    def send_reply(self, tr, cls, corr, resp_obj, delay, info):
        resp = mk_response(cls, resp_obj) if isinstance(resp_obj, dict) else resp_obj
        hdr = struct.pack(">i", corr)
        if cls.FLEXIBLE_VERSION:
            hdr += b"\x00"
        payload = hdr + resp.encode()
        self.ev("reply", ordinal=info["ordinal"], api=info["api"], summary=summarize_resp(info["api"], resp_obj))
        tr.deliver(struct.pack(">i", len(payload)) + payload, delay)
        ep = info.get("ep")
        if ep is not None:
            # the next request of this connection is processed once this reply is on its way
            if delay > 0:
                self.loop.call_later(delay, ep.done, tr)
            else:
                self.loop.call_soon(ep.done, tr)

    def error_reply(self, name, cls, obj, code):
        if name == "Produce":
            return {"topics": [{"topic": t["topic"], "partitions": [
                {"partition": p["partition"], "error_code": code, "offset": -1, "timestamp": -1,
                 "log_start_offset": -1} for p in t["partitions"]]} for t in obj["topics"]]}
        if name == "Fetch":
            return {"topics": [{"topics": t["topic"], "partitions": [
                {"partition": p["partition"], "error_code": code, "highwater_offset": -1,
                 "last_stable_offset": -1, "log_start_offset": -1, "aborted_transactions": None,
                 "preferred_read_replica": -1, "message_set": b""} for p in t["partitions"]]}
                for t in obj["topics"]]}
        if name == "ListOffsets":
            return {"topics": [{"topic": t["topic"], "partitions": [
                {"partition": p["partition"], "error_code": code, "timestamp": -1, "offset": -1,
                 "offsets": []} for p in t["partitions"]]} for t in obj["topics"]]}
        if name == "OffsetCommit":
            return {"topics": [{"topic": t["topic"], "partitions": [
                {"partition": p["partition"], "error_code": code} for p in t["partitions"]]}
                for t in obj["topics"]]}
        if name == "OffsetFetch":
            if cls.API_VERSION >= 2:
                return {"topics": [], "error_code": code}     # Kafka's shape since v2
            return {"topics": [{"topic": t["topic"], "partitions": [
                {"partition": p, "offset": -1, "metadata": "", "error_code": code}
                for p in t["partitions"]]} for t in (obj["topics"] or [])], "error_code": code}
        if name in ("AddPartitionsToTxn",):
            return {"errors": [{"topic": t["topic"], "partition_errors": [
                {"partition": p, "error_code": code} for p in t["partitions"]]} for t in obj["topics"]]}
        if name == "TxnOffsetCommit":
            return {"errors": [{"topic": t["topic"], "partition_errors": [
                {"partition": p["partition"], "error_code": code} for p in t["partitions"]]}
                for t in obj["topics"]]}
        if name == "Metadata":
            return self.h_Metadata(0, cls, obj, None)
        return {"error_code": code, "coordinator_id": -1, "host": "", "port": -1,
                "producer_id": -1, "producer_epoch": -1, "generation_id": -1, "member_id": "",
                "leader_id": "", "group_protocol": "", "members": [], "member_assignment": b""}

    # ----------------------------------------------------------------- handlers: basics
    def h_ApiVersions(self, node, cls, obj, info):
        maxv = {}
        for (k, v) in self.req_classes:
            lo, hi = maxv.get(k, (v, v))
            maxv[k] = (min(lo, v), max(hi, v))
        maxv.update(self.api_ranges)
        return {"error_code": 0, "api_versions": [
            {"api_key": k, "min_version": lo, "max_version": hi} for k, (lo, hi) in sorted(maxv.items())]}

    def leader_view(self, node, topic, p):
        ov = self.stale_metadata.get(node, {})
        return ov.get((topic, p), self.topics[topic][p].leader)

    def h_Metadata(self, node, cls, obj, info):
        names = obj.get("topics")
        if names is None or (cls.API_VERSION == 0 and not names):
            names = list(self.topics)
        topics = []
        for t in names:
            if t not in self.topics:
                if self.auto_create and obj.get("allow_auto_topic_creation", True):
                    self.add_topic(t, 1)
                else:
                    topics.append({"error_code": UNKNOWN_TOPIC_OR_PARTITION, "topic": t,
                                   "is_internal": False, "partitions": []})
                    continue
            parts = []
            for p, lg in sorted(self.topics[t].items()):
                ld = self.leader_view(node, t, p)
                # a partition whose leader is alive can still carry a partition-level error in the reply (a follower
                # replica or listener is down: REPLICA_NOT_AVAILABLE 9, LISTENER_NOT_FOUND 72)
                perr = (getattr(self, "metadata_partition_errors", None) or {}).get((t, p), 0)
                parts.append({"error_code": (perr if ld >= 0 else LEADER_NOT_AVAILABLE), "partition": p,
                              "leader": ld, "replicas": [ld] if ld >= 0 else [], "isr": [ld] if ld >= 0 else [],
                              "offline_replicas": []})
            if self.metadata_shuffle is not None:
                self.metadata_shuffle.shuffle(parts)     # brokers list partitions in no particular order
            topics.append({"error_code": 0, "topic": t, "is_internal": False, "partitions": parts})
        brokers = [{"node_id": i, "host": b["host"], "port": b["port"], "rack": None}
                   for i, b in self.brokers.items()]
        return {"brokers": brokers, "cluster_id": "sim", "controller_id": 0, "topics": topics}

    def h_FindCoordinator(self, node, cls, obj, info):
        ctype = obj.get("coordinator_type", 0)
        n = self.group_coordinator_node if ctype == 0 else self.txn_coordinator_node
        if n is None or not self.brokers[n]["up"]:
            return {"error_code": COORDINATOR_NOT_AVAILABLE, "coordinator_id": -1, "host": "", "port": -1}
        b = self.brokers[n]
        return {"error_code": 0, "coordinator_id": n, "host": b["host"], "port": b["port"]}

    # ----------------------------------------------------------------- produce
    def h_Produce(self, node, cls, obj, info):
        acks = obj["required_acks"]
        txn_id = obj.get("transactional_id")
        out_topics = []
        for t in obj["topics"]:
            parts = []
            for p in t["partitions"]:
                res = self.produce_partition(node, t["topic"], p["partition"], p["messages"],
                                             cls.API_VERSION, txn_id, info)
                parts.append(res)
            out_topics.append({"topic": t["topic"], "partitions": parts})
        if acks == 0:
            return None
        return {"topics": out_topics}

    def produce_partition(self, node, topic, partition, data, version, txn_id, info):
        err = lambda c: {"partition": partition, "error_code": c, "offset": -1, "timestamp": -1,  # noqa: E731
                         "log_start_offset": -1}
        if topic not in self.topics or partition not in self.topics[topic]:
            return err(UNKNOWN_TOPIC_OR_PARTITION)
        lg = self.topics[topic][partition]
        if lg.leader != node:
            self.ev("arrive", topic=topic, partition=partition, verdict="not_leader", ordinal=info["ordinal"])
            return err(NOT_LEADER)
        units = refcodec.split_batches(bytes(data))
        now_ms = int(self.loop.time() * 1000)
        first_offset = None
        resp_ts = -1
        for magic, raw in units:
            if magic == 2:
                b = refcodec.parse_v2(raw)
                arrival = {"ordinal": info["ordinal"], "pid": b.pid, "epoch": b.epoch, "seq": b.base_seq,
                           "count": b.count, "transactional": b.transactional, "txn_id": txn_id,
                           "keys": [r["key"] for r in b.records], "t": self.loop.time()}
                lg.arrivals.append(arrival)
                if b.pid >= 0:
                    st = lg.pstate.get(b.pid)
                    if st is not None and b.epoch < st["epoch"]:
                        arrival["verdict"] = "fenced"
                        self.ev("arrive", topic=topic, partition=partition, verdict="fenced", seq=b.base_seq)
                        return err(INVALID_PRODUCER_EPOCH)
                    tcode = self.tc.check_produce(txn_id, b, topic, partition)
                    if tcode:
                        arrival["verdict"] = f"txn_error_{tcode}"
                        self.ev("arrive", topic=topic, partition=partition, verdict=arrival["verdict"], seq=b.base_seq)
                        return err(tcode)
                    if st is None or b.epoch > st["epoch"]:
                        expected = 0
                        st_last = None
                    else:
                        expected = (st["last_seq"] + st["last_count"]) % 2**31
                        st_last = st
                    arrival["expected"] = expected
                    if b.base_seq == expected:
                        pass
                    elif st_last is not None and b.base_seq == st_last["last_seq"] and b.count == st_last["last_count"]:
                        arrival["verdict"] = "duplicate"
                        self.ev("arrive", topic=topic, partition=partition, verdict="duplicate", seq=b.base_seq,
                                count=b.count, ordinal=info["ordinal"])
                        if first_offset is None:
                            first_offset = st_last["last_offset"]
                            resp_ts = st_last.get("resp_ts", -1)   # same reply as the original append
                        continue
                    else:
                        arrival["verdict"] = "out_of_order"
                        self.ev("arrive", topic=topic, partition=partition, verdict="out_of_order",
                                seq=b.base_seq, expected=expected, ordinal=info["ordinal"])
                        return err(OUT_OF_ORDER_SEQUENCE)
                base = lg.next_offset
                raw2 = refcodec.set_base_offset_v2(raw, base)
                if lg.ts_type == 1:
                    raw2 = refcodec.set_log_append_time_v2(raw2, now_ms)
                    resp_ts = now_ms
                b2 = refcodec.parse_v2(raw2)
                b2.append_time = now_ms
                lg.batches.append(b2)
                lg.next_offset = b2.last_offset + 1
                if b.pid >= 0:
                    lg.pstate[b.pid] = {"epoch": b.epoch, "last_seq": b.base_seq, "last_count": b.count,
                                        "last_offset": base, "resp_ts": resp_ts}
                    if b.transactional and b.pid not in lg.open_txn:
                        lg.open_txn[b.pid] = base
                arrival["verdict"] = "appended"
                arrival["base_offset"] = base
                self.ev("arrive", topic=topic, partition=partition, verdict="appended", seq=b.base_seq,
                        count=b.count, base_offset=base, pid=b.pid, ordinal=info["ordinal"])
                if first_offset is None:
                    first_offset = base
            else:
                # legacy message (possibly a compressed wrapper): assign offsets
                recs = refcodec.legacy_records(raw)
                base = lg.next_offset
                b = refcodec.Batch()
                b.magic = magic
                b.base_offset = base
                b.pid, b.epoch, b.base_seq = -1, -1, -1
                b.transactional = b.control = False
                b.count = len(recs)
                b.codec = 0
                b.ts_type = lg.ts_type if magic == 1 else 0
                b.first_ts = b.max_ts = 0
                out = []
                rawparts = []
                for i, r in enumerate(recs):
                    ts = r["ts"]
                    if magic == 1 and lg.ts_type == 1:
                        ts = now_ms
                        resp_ts = now_ms
                    out.append({"offset": base + i, "ts": ts, "key": r["key"], "value": r["value"],
                                "headers": [], "ts_type": b.ts_type})
                    rawparts.append(refcodec.build_legacy_msg(base + i, magic, ts if ts is not None else 0,
                                                              r["key"], r["value"],
                                                              attrs=(0x08 if b.ts_type else 0)))
                b.records = out
                b.last_offset = base + len(recs) - 1
                b.raw = b"".join(rawparts)
                b.append_time = now_ms
                lg.batches.append(b)
                lg.next_offset = base + len(recs)
                lg.arrivals.append({"ordinal": info["ordinal"], "pid": -1, "seq": None, "count": len(recs),
                                    "verdict": "appended", "base_offset": base,
                                    "keys": [r["key"] for r in recs], "t": self.loop.time()})
                self.ev("arrive", topic=topic, partition=partition, verdict="appended", seq=None,
                        count=len(recs), base_offset=base, pid=-1, ordinal=info["ordinal"])
                if first_offset is None:
                    first_offset = base
        return {"partition": partition, "error_code": 0,
                "offset": first_offset if first_offset is not None else -1,
                "timestamp": resp_ts, "log_start_offset": lg.log_start}

    def append_raw(self, topic, partition, raw_batch_fn):
        """Direct append by the scenario (loggen): raw_batch_fn(base_offset) -> v2 bytes."""
        lg = self.topics[topic][partition]
        raw = raw_batch_fn(lg.next_offset)
        b = refcodec.parse_v2(raw)
        b.append_time = int(self.loop.time() * 1000)
        lg.batches.append(b)
        lg.next_offset = b.last_offset + 1
        return b

    # ----------------------------------------------------------------- fetch / offsets
    def h_Fetch(self, node, cls, obj, info):
        iso = obj.get("isolation_level", 0)
        wait = obj.get("max_wait_time", 0) / 1000.0
        topics = []
        any_data = False
        for t in obj["topics"]:
            parts = []
            for p in t["partitions"]:
                r = self.fetch_partition(node, t["topic"], p["partition"], p.get("fetch_offset", p.get("offset")),
                                         p.get("max_bytes", 1 << 20), iso)
                if r["message_set"]:
                    any_data = True
                if r["error_code"]:
                    any_data = True
                parts.append(r)
            topics.append({"topics": t["topic"], "partitions": parts})
        resp = {"topics": topics, "error_code": 0, "session_id": 0}
        if any_data or wait <= 0:
            return resp

        # long poll: answer after max_wait (re-evaluated then)
        def deferred(send):
            def fire():
                topics2 = []
                for t in obj["topics"]:
                    parts = [self.fetch_partition(node, t["topic"], p["partition"], p.get("fetch_offset", p.get("offset")),
                                                  p.get("max_bytes", 1 << 20), iso) for p in t["partitions"]]
                    topics2.append({"topics": t["topic"], "partitions": parts})
                send({"topics": topics2, "error_code": 0, "session_id": 0})
            self.loop.call_later(wait, fire)
        return deferred

    fetch_cut = None   # optional callable(topic, partition, batches) -> how many batches to return

    def fetch_partition(self, node, topic, partition, offset, max_bytes, iso):
        base = {"partition": partition, "error_code": 0, "highwater_offset": -1, "last_stable_offset": -1,
                "log_start_offset": -1, "aborted_transactions": None, "preferred_read_replica": -1,
                "message_set": b""}
        if topic not in self.topics or partition not in self.topics[topic]:
            base["error_code"] = UNKNOWN_TOPIC_OR_PARTITION
            return base
        lg = self.topics[topic][partition]
        if lg.leader != node:
            base["error_code"] = NOT_LEADER
            return base
        base["highwater_offset"] = lg.high_watermark
        base["last_stable_offset"] = lg.lso
        base["log_start_offset"] = lg.log_start
        if offset < lg.log_start or offset > lg.next_offset:
            base["error_code"] = OFFSET_OUT_OF_RANGE
            return base
        bound = lg.lso if iso == 1 else lg.high_watermark
        sel = [b for b in lg.batches if b.last_offset >= offset and b.base_offset < bound
               and b.last_offset < bound]
        if self.fetch_cut is not None and sel:
            sel = sel[: max(1, self.fetch_cut(topic, partition, sel))]
        else:
            size = 0
            cut = []
            for b in sel:
                if cut and size + len(b.raw) > max_bytes:
                    break
                cut.append(b)
                size += len(b.raw)
            sel = cut
        base["message_set"] = b"".join(b.raw for b in sel)
        if iso == 1 and sel:
            lo, hi = sel[0].base_offset, sel[-1].last_offset
            base["aborted_transactions"] = [
                {"producer_id": pid, "first_offset": first}
                for (pid, first, last) in lg.aborted if last >= lo and first <= hi]
        self.ev("fetch", topic=topic, partition=partition, offset=offset,
                returned=[(b.base_offset, b.last_offset) for b in sel])
        return base

    def h_ListOffsets(self, node, cls, obj, info):
        iso = obj.get("isolation_level", 0)
        topics = []
        for t in obj["topics"]:
            parts = []
            for p in t["partitions"]:
                part = p["partition"]
                if t["topic"] not in self.topics or part not in self.topics[t["topic"]]:
                    parts.append({"partition": part, "error_code": UNKNOWN_TOPIC_OR_PARTITION,
                                  "timestamp": -1, "offset": -1, "offsets": []})
                    continue
                lg = self.topics[t["topic"]][part]
                if lg.leader != node:
                    parts.append({"partition": part, "error_code": NOT_LEADER, "timestamp": -1,
                                  "offset": -1, "offsets": []})
                    continue
                ts = p["timestamp"]
                if ts == -2:
                    off, rts = lg.log_start, -1
                elif ts == -1:
                    off, rts = (lg.lso if iso == 1 else lg.high_watermark), -1
                else:
                    off, rts = -1, -1
                    for b in lg.batches:
                        for r in ([] if b.control else b.records):
                            if r["ts"] is not None and r["ts"] >= ts and r["offset"] >= lg.log_start:
                                off, rts = r["offset"], r["ts"]
                                break
                        if off >= 0:
                            break
                parts.append({"partition": part, "error_code": 0, "timestamp": rts, "offset": off,
                              "offsets": [off] if off >= 0 else [], "leader_epoch": -1})
                self.ev("list_offsets", topic=t["topic"], partition=part, ts=ts, offset=off, iso=iso)
            topics.append({"topic": t["topic"], "partitions": parts})
        return {"topics": topics}

    # group + txn handlers are delegated
    def h_JoinGroup(self, node, cls, obj, info):
        return self.gc.join(node, cls, obj, info)

    def h_SyncGroup(self, node, cls, obj, info):
        return self.gc.sync(node, cls, obj, info)

    def h_Heartbeat(self, node, cls, obj, info):
        return self.gc.heartbeat(node, cls, obj, info)

    def h_LeaveGroup(self, node, cls, obj, info):
        return self.gc.leave(node, cls, obj, info)

    def h_OffsetCommit(self, node, cls, obj, info):
        return self.gc.offset_commit(node, cls, obj, info)

    def h_OffsetFetch(self, node, cls, obj, info):
        return self.gc.offset_fetch(node, cls, obj, info)

    def h_InitProducerId(self, node, cls, obj, info):
        return self.tc.init_producer_id(node, cls, obj, info)

    def h_AddPartitionsToTxn(self, node, cls, obj, info):
        return self.tc.add_partitions(node, cls, obj, info)

    def h_AddOffsetsToTxn(self, node, cls, obj, info):
        return self.tc.add_offsets(node, cls, obj, info)

    def h_EndTxn(self, node, cls, obj, info):
        return self.tc.end_txn(node, cls, obj, info)

    def h_TxnOffsetCommit(self, node, cls, obj, info):
        return self.tc.txn_offset_commit(node, cls, obj, info)


class Endpoint:
    """Broker side of one connection: reassembles frames and dispatches."""

    def __init__(self, cluster, node, cid):
        self.cluster = cluster
        self.node = node
        self.cid = cid
        self.buf = b""
        b = cluster.brokers[node]
        self.addr = (b["host"], b["port"])
        self.queue = []       # complete request frames not yet processed
        self.busy = False     # a request is being processed / its reply not yet handed over

    def on_bytes(self, tr, data):
        """A Kafka broker processes the requests of one connection strictly one at a time
        and in order (the channel is muted until the response is sent)."""
        self.buf += data
        while len(self.buf) >= 4:
            (size,) = struct.unpack(">i", self.buf[:4])
            if len(self.buf) < 4 + size:
                break
            frame, self.buf = self.buf[4:4 + size], self.buf[4 + size:]
            self.queue.append(frame)
        self.pump(tr)

    def done(self, tr):
        self.busy = False
        self.pump(tr)

    def pump(self, tr):
        while not self.busy and self.queue:
            frame = self.queue.pop(0)
            self.busy = True
            api_key, version, corr = struct.unpack(">hhi", frame[:8])
            (cl,) = struct.unpack(">h", frame[8:10])
            pos = 10
            client_id = None
            if cl >= 0:
                client_id = frame[pos:pos + cl].decode()
                pos += cl
            cls = self.cluster.req_classes.get((api_key, version))
            if cls is not None and cls.FLEXIBLE_VERSION:
                pos += 1      # empty tagged fields
            if not self.cluster.brokers[self.node]["up"]:
                tr.server_drop()
                return
            self.cluster.handle(self, tr, api_key, version, corr, client_id, frame[pos:], 0)
            # handle() calls ep.done(tr) when the reply has been handed over (or none is due);
            # after no_reply faults the connection stays busy: head-of-line blocking until the
            # client gives up and closes it.

    def on_client_close(self, tr):
        self.cluster.ev("client_close", cid=tr.cid, node=self.node)


async def _sleep0(loop):
    fut = loop.create_future()
    loop.call_soon(fut.set_result, None)
    await fut


def summarize(name, obj):
    try:
        if name == "Produce":
            return {"acks": obj["required_acks"], "txn": obj.get("transactional_id"),
                    "parts": [(t["topic"], p["partition"], len(p["messages"])) for t in obj["topics"]
                              for p in t["partitions"]]}
        if name == "Fetch":
            return {"iso": obj.get("isolation_level", 0),
                    "parts": [(t["topic"], p["partition"], p.get("fetch_offset", p.get("offset"))) for t in obj["topics"]
                              for p in t["partitions"]]}
        if name == "JoinGroup":
            return {"group": obj["group"], "member": obj["member_id"],
                    "protocols": [g["protocol_name"] for g in obj["group_protocols"]]}
        if name == "SyncGroup":
            return {"group": obj["group"], "member": obj["member_id"], "gen": obj["generation_id"],
                    "n_assign": len(obj["group_assignment"])}
        if name in ("Heartbeat",):
            return {"member": obj["member_id"], "gen": obj["generation_id"]}
        if name == "LeaveGroup":
            return {"member": obj["member_id"]}
        if name == "OffsetCommit":
            return {"member": obj.get("consumer_id"), "gen": obj.get("consumer_group_generation_id"),
                    "offsets": [(t["topic"], p["partition"], p["offset"]) for t in obj["topics"]
                                for p in t["partitions"]]}
        if name == "ListOffsets":
            return {"parts": [(t["topic"], p["partition"], p["timestamp"]) for t in obj["topics"]
                              for p in t["partitions"]]}
        if name in ("InitProducerId", "AddOffsetsToTxn", "EndTxn", "AddPartitionsToTxn", "TxnOffsetCommit"):
            return {k: v for k, v in obj.items() if k != "topics"} | (
                {"topics": obj["topics"]} if "topics" in obj else {})
        if name == "Metadata":
            return {"topics": obj.get("topics")}
        if name == "FindCoordinator":
            return dict(obj)
    except Exception:  # noqa: BLE001
        pass
    return {}


def summarize_resp(name, r):
    if not isinstance(r, dict):
        return {}
    try:
        if name == "Produce":
            return {"parts": [(t["topic"], p["partition"], p["error_code"], p["offset"]) for t in r["topics"]
                              for p in t["partitions"]]}
        if "error_code" in r:
            return {"error_code": r["error_code"]}
    except Exception:  # noqa: BLE001
        pass
    return {}
