"""Highest request versions of released Kafka brokers (from the protocol documentation of each release), for the
'old broker' scenario families: the client negotiates min(its own maximum, the broker's maximum) per API, so every
profile selects another set of request/response layouts and another branch of the version-dependent client code.
Keys are API keys: 0 Produce, 1 Fetch, 2 ListOffsets, 3 Metadata, 8 OffsetCommit, 9 OffsetFetch, 10 FindCoordinator,
11 JoinGroup, 12 Heartbeat, 13 LeaveGroup, 14 SyncGroup, 22 InitProducerId, 24 AddPartitionsToTxn, 25 AddOffsetsToTxn,
26 EndTxn, 28 TxnOffsetCommit."""

BROKER_PROFILES = {
    "0.10.0": {0: 2, 1: 2, 2: 0, 3: 1, 8: 2, 9: 1, 10: 0, 11: 0, 12: 0, 13: 0, 14: 0},
    "0.10.1": {0: 2, 1: 3, 2: 1, 3: 2, 8: 2, 9: 1, 10: 0, 11: 1, 12: 0, 13: 0, 14: 0},
    "0.10.2": {0: 2, 1: 3, 2: 1, 3: 2, 8: 2, 9: 2, 10: 0, 11: 1, 12: 0, 13: 0, 14: 0},
    "0.11.0": {0: 3, 1: 5, 2: 2, 3: 4, 8: 3, 9: 3, 10: 1, 11: 2, 12: 1, 13: 1, 14: 1, 22: 0, 24: 0, 25: 0, 26: 0, 28: 0},
    "1.0": {0: 5, 1: 6, 2: 2, 3: 5, 8: 3, 9: 3, 10: 1, 11: 2, 12: 1, 13: 1, 14: 1, 22: 0, 24: 0, 25: 0, 26: 0, 28: 0},
    "1.1": {0: 5, 1: 7, 2: 2, 3: 5, 8: 3, 9: 3, 10: 1, 11: 2, 12: 1, 13: 1, 14: 1, 22: 0, 24: 0, 25: 0, 26: 0, 28: 0},
    "2.0": {0: 6, 1: 8, 2: 3, 3: 6, 8: 4, 9: 4, 10: 2, 11: 3, 12: 2, 13: 2, 14: 2, 22: 1, 24: 1, 25: 1, 26: 1, 28: 1},
    "2.1": {0: 7, 1: 10, 2: 4, 3: 7, 8: 6, 9: 5, 10: 2, 11: 4, 12: 2, 13: 2, 14: 2, 22: 1, 24: 1, 25: 1, 26: 1, 28: 2},
    "2.3": {0: 7, 1: 11, 2: 5, 3: 8, 8: 7, 9: 5, 10: 2, 11: 5, 12: 3, 13: 2, 14: 3, 22: 1, 24: 1, 25: 1, 26: 1, 28: 2},
}
TRANSACTIONAL = [k for k, v in BROKER_PROFILES.items() if 22 in v]


def api_ranges(profile):
    """scenario field "api_ranges" for a profile name"""
    return {str(k): [0, v] for k, v in BROKER_PROFILES[profile].items()}
