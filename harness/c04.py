"""C04 — committed offsets never pass undelivered records; no loss across crash/rebalance."""
import random

import conssim
from c05 import member_clients
from common import Check, parse_coq_value, parse_eval_outputs


def project(sc, r):
    """Per-partition traces as Offsets.ev constructors. Incarnation = (consumer, generation)."""
    mc = member_clients(r["trace"])
    out = {}
    incs = {}
    owner = {}     # (topic,p) -> incarnation id currently owning (per consumer)
    cur = {}       # consumer -> {tp: inc id}

    def tr(tp):
        return out.setdefault(tp, [])

    counters = {}

    def inc_id(tp, c, g):
        # every adoption is a new incarnation (a member may adopt the same generation twice after
        # a failed SyncGroup); commits of (client, generation) belong to the latest one
        counters[tp] = counters.get(tp, -1) + 1
        incs[(tp, c, g)] = counters[tp]
        return counters[tp]
    for t, parts in (sc.get("preload") or {}).items():
        for p, n in parts.items():
            if n:
                tr((t, int(p))).append(f"Append {n}")
    for e in r["trace"]:
        k = e["ev"]
        if k == "cluster_event" and e.get("op") == "append":
            tr((e["topic"], e["p"])).append(f"Append {e.get('n', 1)}")
        elif k == "cb_assigned_begin":
            cur[e["c"]] = {}
            for t, p in e["tps"]:
                i = inc_id((t, p), e["c"], e["gen"])
                cur[e["c"]][(t, p)] = i
                tr((t, p)).append(f"Takeover {i}")
        elif k in ("cb_revoked_begin", "kill", "stop_ret"):
            for tp, i in (cur.get(e["c"]) or {}).items():
                tr(tp).append(f"Release {i}")
            cur[e["c"]] = {}
        elif k == "deliver":
            i = (cur.get(e["c"]) or {}).get((e["topic"], e["p"]))
            if i is None:
                tr((e["topic"], e["p"])).append("Deliver 999 0")      # delivery by a non-owner: rejected
            else:
                tr((e["topic"], e["p"])).append(f"Deliver {i} {e['offset']}")
        elif k == "offset_commit" and e.get("error") == 0:
            c = mc.get(e["member"]) or e.get("client")
            for t, p, off in e["offsets"]:
                key = ((t, p), c, e["generation"])
                if key in incs:
                    tr((t, p)).append(f"Commit {incs[key]} {off}")
                elif e["generation"] < 0 and (t, p) in (cur.get(c) or {}):
                    # generation-less commit (member lost its generation, group empty at the
                    # coordinator): attributed to the committing client's current incarnation
                    tr((t, p)).append(f"Commit {cur[c][(t, p)]} {off}")
                else:
                    tr((t, p)).append(f"Commit 999 {off}")         # commit by a non-owner accepted: rejected
    return out


def monitor(ck, sc, r):
    bad = 0

    def viol(what, extra=None):
        nonlocal bad
        bad += 1
        rp = {"scenario": sc, "what": what}
        rp.update(extra or {})
        ck.violation(f"{what} (scenario {sc['id']})", rp, signature=f"sim:{what[:70]}")
    delivered = {}
    for e in r["trace"]:
        if e["ev"] == "deliver":
            delivered.setdefault((e["topic"], e["p"]), set()).add(e["offset"])
        elif e["ev"] == "offset_commit" and e.get("error") == 0:
            for t, p, off in e["offsets"]:
                have = delivered.get((t, p), set())
                missing = [o for o in range(off) if o not in have]
                if missing:
                    viol("a committed offset lies beyond records never handed to the application",
                         {"tp": [t, p], "committed": off, "undelivered_below": missing[:5], "commit": e})
    return bad


def takeover_late_partition(rng, base_id):
    """a second member takes the partitions over from a first one that committed part of them; at the takeover
    one partition is leaderless for a few ms while the OffsetFetch (for the others) is slow, so it asks for its
    committed offset while another OffsetFetch is in flight.  With auto_offset_reset=latest a lookup answered
    'nothing committed' would start at the log end and the next commit would pass records nobody was handed."""
    out = []
    for k in range(12):
        gap = [0.02, 0.05, 0.1, 0.2][k % 4]
        slow = [0.1, 0.3][k % 2]
        t1 = 2.0
        sc = {"id": base_id + k, "seed": rng.randrange(1 << 30), "brokers": 2, "topics": {"t0": 2},
              "preload": {"t0": {"0": 30, "1": 30}},
              "consumers": [
                  {"name": "c0", "group": "g", "topics": ["t0"], "assignors": ["range"], "auto_commit": True,
                   "auto_commit_interval_ms": 100, "cb_delay": 0, "auto_offset_reset": "earliest",
                   "program": [["sleep", 0], ["start"], ["consume", 1.0, 0.1, 2, 0.05], ["stop"]]},
                  {"name": "c1", "group": "g", "topics": ["t0"], "assignors": ["range"], "auto_commit": True,
                   "auto_commit_interval_ms": 100, "cb_delay": 0, "auto_offset_reset": ["latest", "earliest"][k % 3 == 2],
                   "program": [["sleep", t1], ["start"], ["consume", 3.0, 0.1, None, 0], ["stop"]]}],
              "cluster_events": [{"at": t1 - 0.001, "op": "leaderless", "topic": "t0", "p": 1, "for": gap},
                                 {"at": t1 + 1.0, "op": "append", "topic": "t0", "p": 1, "n": 2},
                                 {"at": t1 + 1.0, "op": "append", "topic": "t0", "p": 0, "n": 2}],
              "api_latency": {"OffsetFetch": slow}, "metadata_max_age_ms": 50,
              "faults": {"apis": [], "plan": {}}, "coordinator": 0, "max_vtime": 600.0}
        out.append(sc)
    return out


def takeover_offsetfetch_errors(rng, base_id):
    """a second member takes the partitions over from a first one that committed part of them, and its FIRST
    OffsetFetch requests are answered with coordinator errors (NOT_COORDINATOR, LOAD_IN_PROGRESS,
    COORDINATOR_NOT_AVAILABLE) - in whichever shape the negotiated OffsetFetch version puts them (v0/v1: on every
    partition with offset -1; v2+: top level).  The new owner has to retry, not fall back on its reset policy."""
    from simkit import profiles
    out = []
    k = 0
    for prof in ("0.10.0", "0.10.1", "0.10.2", "0.11.0", "2.1", None):
        for code in (16, 14, 15):
            for nfail in (1, 3):
                t1 = 2.0
                sc = {"id": base_id + k, "seed": rng.randrange(1 << 30), "brokers": 2, "topics": {"t0": 2},
                      "preload": {"t0": {"0": 30, "1": 30}},
                      "consumers": [
                          {"name": "c0", "group": "g", "topics": ["t0"], "assignors": ["range"], "auto_commit": True,
                           "auto_commit_interval_ms": 100, "cb_delay": 0, "auto_offset_reset": "earliest",
                           "program": [["sleep", 0], ["start"], ["consume", 1.0, 0.1, 2, 0.05], ["stop"]]},
                          {"name": "c1", "group": "g", "topics": ["t0"], "assignors": ["range"], "auto_commit": True,
                           "auto_commit_interval_ms": 100, "cb_delay": 0,
                           "auto_offset_reset": ["latest", "earliest"][k % 2],
                           "program": [["sleep", t1], ["start"], ["consume", 4.0, 0.1, None, 0], ["stop"]]}],
                      "cluster_events": [{"at": t1 + 1.5, "op": "append", "topic": "t0", "p": 1, "n": 2},
                                         {"at": t1 + 1.5, "op": "append", "topic": "t0", "p": 0, "n": 2}],
                      "api_faults": [{"client": "c1", "api": "OffsetFetch", "nth": n + 1, "kind": "error", "code": code}
                                     for n in range(nfail)],
                      "faults": {"apis": [], "plan": {}}, "coordinator": 0, "max_vtime": 600.0,
                      "family": "takeover-offsetfetch-errors:" + str(prof)}
                if prof:
                    sc["api_ranges"] = profiles.api_ranges(prof)
                out.append(sc)
                k += 1
    return out


def stop_beside_pending_poll(rng, base_id):
    """stop() called from another task while the application's getmany() is pending; records arrive during the
    shutdown (slow OffsetCommit round trips keep an auto-commit in flight around the stop): whatever the final
    commit covers has been handed to the application"""
    out = []
    k = 0
    for t_stop in (1.0, 1.03, 1.07, 1.15):
        for dt in (0.0, 0.005, 0.02, 0.05, 0.1, 0.15):
            sc = {"id": base_id + k, "seed": rng.randrange(1 << 30), "brokers": 1, "topics": {"t0": 1},
                  "preload": {"t0": {"0": 5}},
                  "consumers": [
                      {"name": "c0", "group": "g", "topics": ["t0"], "assignors": ["range"], "auto_commit": True,
                       "auto_commit_interval_ms": 100, "cb_delay": 0, "auto_offset_reset": "earliest",
                       "program": [["sleep", 0], ["start"], ["consume_stop", t_stop, 0.5]]},
                      {"name": "c1", "group": "g", "topics": ["t0"], "assignors": ["range"], "auto_commit": True,
                       "auto_commit_interval_ms": 100, "cb_delay": 0, "auto_offset_reset": "latest",
                       "program": [["sleep", t_stop + 2.0], ["start"], ["consume", 2.0, 0.1, None, 0], ["stop"]]}],
                  "cluster_events": [{"at": t_stop + dt, "op": "append", "topic": "t0", "p": 0, "n": 3},
                                     {"at": t_stop + 3.0, "op": "append", "topic": "t0", "p": 0, "n": 2}],
                  "api_latency": {"OffsetCommit": 0.12},
                  "faults": {"apis": [], "plan": {}}, "coordinator": 0, "max_vtime": 600.0,
                  "family": "stop-beside-pending-poll"}
            out.append(sc)
            k += 1
    return out


def run(ck: Check):
    ck.trusted += [
        "Coq 8.16.1 kernel; vm_compute for trace replay and Examples",
        "model/Offsets.v hand-written; tied to the code by acceptance of per-partition traces of real consumer groups",
        "simulated group coordinator (generation check on OffsetCommit) and partition logs as oracle; all offsets "
        "of the generated logs are visible data records (invisible offsets are C03/C08)",
    ]
    ck.cov["rule"] = ("group scenarios as in C05 (1-4 members killed/stopped/rebalanced at random points, auto-commit "
                      "timers 100-1000 ms, commit faults, coordinator failover); one evaluation = one partition "
                      "trace; non-trivial = at least one accepted commit and two incarnations")
    ok_p, _ = ck.coq_props("C04")
    rng = random.Random(ck.seed * 65537 + 4)
    n = ck.n(48, 800)
    scs = [conssim.gen_scenario(rng, i) for i in range(n)]
    for sc in scs:
        sc["faults"]["apis"] = ["OffsetCommit", "OffsetCommit", "Heartbeat", "JoinGroup", "SyncGroup", "FindCoordinator"]
        # a third of the runs: a user deserializer failing transiently on a few records (getmany() raises,
        # the application keeps polling)
        if rng.random() < 0.35:
            total = sum(n for parts in sc["preload"].values() for n in parts.values())
            for c in sc["consumers"]:
                if total and rng.random() < 0.7:
                    c["bad_rids"] = rng.sample(range(total), min(total, rng.choice([1, 2, 3])))
    scs += takeover_late_partition(rng, n)
    scs += takeover_offsetfetch_errors(random.Random(ck.seed * 7121 + 424), 900000)
    scs += stop_beside_pending_poll(random.Random(ck.seed * 7121 + 434), 950000)
    # the application commits by hand (commit() without arguments) after every batch, with and without the auto-commit
    # timer running beside it
    rng_mc = random.Random(ck.seed * 7121 + 414)
    for i in range(ck.n(18, 200)):
        sc = conssim.gen_scenario(rng_mc, 800000 + i)
        sc["faults"]["apis"] = ["OffsetCommit", "OffsetCommit", "Heartbeat", "JoinGroup", "SyncGroup", "FindCoordinator"]
        for c in sc["consumers"]:
            # commit() without arguments only: with explicit offsets the application chooses what to commit (e.g. what
            # it was handed before a rebalance) - C04 speaks of the offsets the consumer chooses
            c["manual_commit"] = "all"
            c["auto_commit"] = rng_mc.random() < 0.3
        sc["family"] = "manual-commit"
        scs.append(sc)
    # the same kind of scenarios against older broker releases (other request / response versions of every group API)
    rng_old = random.Random(ck.seed * 7121 + 404)
    for i in range(ck.n(18, 200)):
        sc = conssim.old_broker(conssim.gen_scenario(rng_old, 700000 + i), rng_old)
        sc["faults"]["apis"] = ["OffsetCommit", "OffsetCommit", "Heartbeat", "JoinGroup", "SyncGroup", "FindCoordinator"]
        scs.append(sc)
    results = conssim.run_scenarios(scs, timeout=ck.n(900, 3000))
    traces = []
    nbad = 0
    hist = {"commits": 0, "incarnations": 0, "failed_runs": 0}
    for sc, r in zip(scs, results):
        if not r.get("ok"):
            hist["failed_runs"] += 1
            ck.obligation(f"correspondence:simulation-ran:{sc['id']}", False, (r.get("error", "") + r.get("tb", ""))[-400:])
            continue
        nbad += monitor(ck, sc, r)
        for tp, tr in project(sc, r).items():
            nc = sum(1 for x in tr if x.startswith("Commit"))
            ni = sum(1 for x in tr if x.startswith("Takeover"))
            hist["commits"] += nc
            hist["incarnations"] += ni
            traces.append((sc, tp, tr))
            ck.count(key=tuple(tr), nontrivial=nc >= 1 and ni >= 2,
                     sample={"scenario": sc["id"], "tp": list(tp), "trace": tr[:50]} if ni >= 3 and nc >= 2 else None)
    ck.extra["input_distribution"] = hist
    ck.log(f"simulated {len(scs)} scenarios, {len(traces)} partition traces; monitor violations {nbad}; {hist}")
    per = 120
    bodies = []
    for i in range(0, len(traces), per):
        bodies.append("Local Open Scope nat_scope.\n" + "\n".join(
            f"Eval vm_compute in (replay [{'; '.join(t[2])}])." for t in traces[i:i + per]) + "\n")
    res = ck.coq_eval_sharded("c04_traces", ["Offsets"], bodies)
    rejected = fail = 0
    for ci, (okc, out) in enumerate(res):
        chunk = traces[ci * per:(ci + 1) * per]
        vals = [parse_coq_value(v) for v in parse_eval_outputs(out)] if okc else []
        if len(vals) != len(chunk):
            fail += 1
            continue
        for (sc, tp, tr), v in zip(chunk, vals):
            if v != 0:
                rejected += 1
                if rejected <= 4:
                    ck.obligation(f"correspondence:trace-accepted:scenario{sc['id']}-{tp[0]}-{tp[1]}", False,
                                  f"model rejects event #{v - 1}: {tr[v - 1] if v - 1 < len(tr) else None}; "
                                  f"context {tr[max(0, v - 8):v + 1]}")
                    # the rejected history is the concrete failing input: the scenario replays it on the real code
                    ck.violation(f"the real consumer group did something the offsets model (whose guards are the "
                                 f"property's clauses) does not allow: partition {tp[0]}-{tp[1]} of scenario {sc['id']}, "
                                 f"event #{v - 1} {tr[v - 1] if v - 1 < len(tr) else None} after {tr[max(0, v - 6):v - 1]}",
                                 {"scenario": sc, "partition": list(tp), "rejected_event_index": v - 1,
                                  "context": tr[max(0, v - 8):v + 1]},
                                 signature=f"trace-rejected:{(tr[v - 1] if v - 1 < len(tr) else '').split(' ')[0]}")
    ck.obligation("correspondence:all-partition-traces-accepted-by-model", rejected == 0 and fail == 0,
                  f"{rejected} rejected, {fail} case files failed")
    ck.cov["traces_validated_against_impl"] = len(traces) - rejected
