"""C09 — record batches round-trip and both codec implementations agree.

(1) proofs: props/C09.v over the models coq/model/C09_*.v and the varint functions translated
    from aiokafka/record/util.py on every run (tie T);
(2) correspondence, four-way: pure-Python classes, Cython classes compiled on this run from the
    current .pyx, the Gallina models (extracted OCaml runner for volume + a sample evaluated
    inside Coq by vm_compute), and an independent reference codec (harness/impl/c09_ref.py);
(3) independent monitor: the property itself, stated in plain Python over the real classes.
"""
import concurrent.futures as cf
import glob
import json
import os
import shutil
import subprocess
import sys
import tempfile

import common
from common import Check, run_impl, sh

sys.path.insert(0, os.path.join(common.VERIF, "harness", "impl"))
import c09_ref as ref  # noqa: E402  (pure-Python parts only are used in this process)

I64MAX = 2 ** 63 - 1
CODEC_NAMES = {0: "none", 1: "gzip", 2: "snappy", 3: "lz4", 4: "zstd"}


import time as _time


def tick(ck, label):
    now = _time.time()
    last = getattr(ck, "_c09_last", ck.t0)
    ck.extra.setdefault("timing_s", {})[label] = round(now - last, 1)
    ck._c09_last = now


# ============================================================================ extension build
SETUP_PY = r'''
from Cython.Build import cythonize
from setuptools import Extension, setup
d = "aiokafka/record/_crecords/"
L = ["z"]
F = ["-O2"]
exts = [
    Extension("aiokafka.record._crecords.legacy_records", [d + "legacy_records.pyx"], libraries=L, extra_compile_args=F),
    Extension("aiokafka.record._crecords.default_records", [d + "crc32c.c", d + "default_records.pyx"], libraries=L, extra_compile_args=F),
    Extension("aiokafka.record._crecords.memory_records", [d + "memory_records.pyx"], libraries=L, extra_compile_args=F),
    Extension("aiokafka.record._crecords.cutil", [d + "crc32c.c", d + "cutil.pyx"], libraries=L, extra_compile_args=F),
]
setup(name="aiokafka_c09", ext_modules=cythonize(exts, nthreads=4, quiet=True, force=True),
      script_args=["build_ext", "--inplace", "-j", "4"])
'''


def build_extension(ck):
    """Copy <repo>/aiokafka to a fresh temporary directory (outside /repo and /verif), cythonize
    and compile the four extension modules from the CURRENT .pyx there.  Returns the directory
    (to be put on PYTHONPATH) — the caller deletes it."""
    tmp = tempfile.mkdtemp(prefix="c09ext.")
    src = os.path.join(common.REPO, "aiokafka")
    rc, out = sh(["rsync", "-a", "--exclude", "*.so", "--exclude", "__pycache__",
                  "--exclude", "_crecords/cutil.c", "--exclude", "_crecords/default_records.c",
                  "--exclude", "_crecords/legacy_records.c", "--exclude", "_crecords/memory_records.c",
                  src, tmp + "/"], timeout=120)
    if rc != 0:
        raise RuntimeError("rsync failed: " + out[-500:])
    with open(os.path.join(tmp, "setup_c09.py"), "w") as f:
        f.write(SETUP_PY)
    rc, out = sh([common.PY, "setup_c09.py"], cwd=tmp, timeout=600)
    sos = glob.glob(os.path.join(tmp, "aiokafka", "record", "_crecords", "*.so"))
    if rc != 0 or len(sos) != 4:
        shutil.rmtree(tmp, ignore_errors=True)
        raise RuntimeError("extension build failed: " + out[-1500:])
    return tmp


# ============================================================================ generators
LEN_BOUNDARIES = [0, 1, 2, 31, 62, 63, 64, 65, 127, 128, 255, 256, 8190, 8191, 8192, 8193]
TS_BOUNDARIES = [0, 1, 63, 64, 65, 8191, 8192, 2 ** 20, 2 ** 27 - 1, 2 ** 27, 2 ** 31 - 1, 2 ** 31,
                 2 ** 32, 2 ** 34 - 1, 2 ** 34, 2 ** 41, 2 ** 48, 2 ** 55, 2 ** 62 - 1, 2 ** 62, I64MAX]
HEADER_KEYS = ["", "k", "key", "hé", "ключ", "鍵", "\U0001F511", "a" * 63, "a" * 64,
               "é" * 32, "x-trace-id", "\x00", "\u007f\u0080"]


def gen_bytes(rng, n, compressible):
    if n == 0:
        return b""
    if compressible:
        pat = bytes(rng.randrange(256) for _ in range(rng.choice([1, 2, 3, 7])))
        return (pat * (n // len(pat) + 1))[:n]
    return bytes(rng.getrandbits(8) for _ in range(n))


def gen_len(rng, big_ok, thorough):
    r = rng.random()
    if r < 0.45:
        return rng.choice([0, 1, 2, 3, 5, 8, 13, 21, 40])
    if r < 0.85 or not big_ok:
        return rng.choice(LEN_BOUNDARIES[:12])
    if r < 0.9997 or not thorough:
        return rng.choice(LEN_BOUNDARIES[12:])
    return rng.choice([1048575, 1048576])           # 3/4-byte varint boundary (thorough only)


def gen_field(rng, big_ok, thorough, compressible):
    r = rng.random()
    if r < 0.15:
        return None
    return gen_bytes(rng, gen_len(rng, big_ok, thorough), compressible)


def gen_headers(rng, thorough, compressible):
    r = rng.random()
    if r < 0.45:
        n = 0
    elif r < 0.9:
        n = rng.choice([1, 2, 3])
    else:
        n = rng.choice([63, 64, 65]) if rng.random() < 0.5 else rng.randrange(4, 12)
    hs = []
    for _ in range(n):
        k = rng.choice(HEADER_KEYS).encode("utf-8")
        v = None if rng.random() < 0.25 else gen_bytes(rng, gen_len(rng, n < 4, False), compressible)
        hs.append([k.hex(), None if v is None else v.hex()])
    return hs


def gen_timestamps(rng, n):
    shape = rng.choice(["inc", "dec", "equal", "jumps", "big", "zero", "mixed", "max"])
    base = rng.choice([0, 1, 1000, 1600000000000, 2 ** 31, 2 ** 40, 2 ** 62])
    out = []
    for i in range(n):
        if shape == "inc":
            t = base + i * rng.choice([1, 7, 1000])
        elif shape == "dec":
            t = max(0, base + (n - i) * rng.choice([1, 64, 8192]))
        elif shape == "equal":
            t = base
        elif shape == "jumps":
            t = max(0, min(I64MAX, base + rng.choice([-1, 1]) * rng.choice(TS_BOUNDARIES)))
        elif shape == "big":
            t = rng.choice([0, I64MAX, 2 ** 62, base])
        elif shape == "zero":
            t = 0 if i == 0 else rng.choice(TS_BOUNDARIES)
        elif shape == "max":
            t = I64MAX if i == 0 else rng.choice([0, 1, I64MAX, I64MAX - 1, 2 ** 62])
        else:
            t = rng.choice(TS_BOUNDARIES)
        out.append(t)
    return out


def v2_record_size(first_ts, rec):
    off, ts, k, v, hs = rec
    r = (off, ts, None if k is None else bytes.fromhex(k), None if v is None else bytes.fromhex(v),
         [(bytes.fromhex(a), None if b is None else bytes.fromhex(b)) for a, b in hs])
    return len(ref.encode_record_v2(first_ts, r))


def check_codecs(ck):
    """compression codecs and compressed batches on payloads that span several codec blocks (32 KiB xerial blocks of
    snappy, 64 KiB lz4 frames ...), incompressible / compressible / mixed: decode(encode(x)) == x and what the
    builder wrote is what both readers return.  The generated batches of the main correspondence stay small."""
    rng = ck.rng
    cases = []
    sizes = [0, 1, 100, 32767, 32768, 32769, 40000, 65535, 65536, 65537, 100000] + ([300000, 1 << 20] if ck.thorough else [])
    for name in ("gzip", "snappy", "lz4", "zstd"):
        for n in sizes:
            for shape in ("random", "zeros", "mixed", "text"):
                cases.append({"codec": name, "n": n, "shape": shape, "seed": rng.randrange(1 << 30)})
    bad = 0
    for env_name, env in (("py", {"AIOKAFKA_NO_EXTENSIONS": "1"}), ("cy", {})):
        res = run_impl("c09_codec_impl.py", {"cases": cases}, timeout=900, env=env)
        for c, r in zip(cases, res["out"]):
            if r.get("skipped"):
                continue
            ck.count(key=("codec", env_name, c["codec"], c["n"], c["shape"]), nontrivial=c["n"] >= 32768)
            for k in ("roundtrip", "batch_v2", "batch_v1"):
                if k in r and r[k] is not True:
                    bad += 1
                    if bad <= 8:
                        ck.violation(f"{c['codec']}: a {c['n']}-byte {c['shape']} payload does not survive "
                                     f"{'encode/decode' if k == 'roundtrip' else 'builder -> reader (magic ' + k[-1] + ')'} "
                                     f"with the {env_name} record classes: {r.get('exc') or r.get(k + '_detail')}",
                                     {"case": c, "implementation": env_name, "result": r},
                                     signature=f"codec-roundtrip:{c['codec']}:{k}")
    ck.obligation("correspondence:codecs-round-trip-multi-block-payloads", bad == 0, f"{bad} failures of {2 * len(cases)}")


def gen_v2_case(rng, idx, thorough, codecs_available):
    r = rng.random()
    n = 0 if r < 0.03 else 1 if r < 0.2 else rng.randrange(2, 6) if r < 0.8 else rng.randrange(6, 40)
    codec = 0 if rng.random() < 0.45 else rng.choice(codecs_available)
    compressible = codec != 0 and rng.random() < 0.8
    big_ok = n <= 6
    tss = gen_timestamps(rng, n)
    recs = []
    for i in range(n):
        k = gen_field(rng, big_ok, thorough and codec == 0, compressible)
        v = gen_field(rng, big_ok, thorough and codec == 0, compressible)
        recs.append([i, tss[i], None if k is None else k.hex(), None if v is None else v.hex(),
                     gen_headers(rng, thorough, compressible)])
    # record body length boundaries (63/64, 8191/8192): pad the value of one record
    if n and rng.random() < 0.25:
        j = rng.randrange(n)
        target = rng.choice([63, 64, 65, 8191, 8192, 8193])
        first = tss[0]

        def body_len(rec):
            fl = v2_record_size(first, rec)
            return next(c for c in (fl - 1, fl - 2, fl - 3, fl - 4, fl - 5) if c >= 0 and len(ref.varint(c)) + c == fl)

        recs[j][3] = ""
        p = target - body_len(recs[j])
        while p > 0:
            recs[j][3] = gen_bytes(rng, p, compressible).hex()
            if body_len(recs[j]) <= target:
                break
            p -= 1
    # batch size around the encoded size
    sizes = []
    cum = 61
    for rec in recs:
        cum += v2_record_size(tss[0], rec)
        sizes.append(cum)
    r = rng.random()
    if not sizes or r < 0.35:
        batch_size = rng.choice([16384, 1 << 20, 1 << 30])
    elif r < 0.9:
        batch_size = max(0, rng.choice(sizes) + rng.choice([-2, -1, 0, 1, 2]))
    else:
        batch_size = rng.choice([0, 1, 61, 62, 100])
    cfg = {"codec": codec, "txn": rng.random() < 0.35,
           "pid": rng.choice([-1, 0, 1, 12345, 2 ** 31, I64MAX, rng.getrandbits(62)]),
           "pepoch": rng.choice([-1, 0, 1, 255, 32767]),
           "bseq": rng.choice([-1, 0, 1, 65535, 2 ** 31 - 1, rng.getrandbits(30)]),
           "batch_size": batch_size}
    if rng.random() < 0.3:
        stamp = {"base": 0, "epoch": -1, "lat": None, "control": False}
    else:
        stamp = {"base": rng.choice([0, 1, 12345, 2 ** 31, 2 ** 62, rng.getrandbits(40)]),
                 "epoch": rng.choice([-1, 0, 7, 2 ** 31 - 1]),
                 "lat": rng.choice([None, None, 0, 1, 1600000000123, 2 ** 62, I64MAX]),
                 "control": rng.random() < 0.15}
    return {"id": f"v2-{idx}", "cfg": cfg, "recs": recs, "stamp": stamp}


def gen_legacy_case(rng, idx, thorough, codecs_available):
    magic = rng.choice([0, 1])
    lcodecs = [c for c in codecs_available if c in (1, 2, 3)]
    codec = 0 if rng.random() < 0.45 or not lcodecs else rng.choice(lcodecs)
    r = rng.random()
    n = 1 if r < 0.2 else rng.randrange(2, 6) if r < 0.85 else rng.randrange(6, 30)
    if codec == 0 and rng.random() < 0.03:
        n = 0
    compressible = codec != 0 and rng.random() < 0.8
    tss = gen_timestamps(rng, n)
    recs = []
    for i in range(n):
        k = gen_field(rng, n <= 6, False, compressible)
        v = gen_field(rng, n <= 6, False, compressible)
        recs.append([i, tss[i], None if k is None else k.hex(), None if v is None else v.hex(), []])
    oh = 26 if magic == 0 else 34
    sizes = []
    cum = 0
    for rec in recs:
        cum += oh + (len(rec[2]) // 2 if rec[2] else 0) + (len(rec[3]) // 2 if rec[3] else 0)
        sizes.append(cum)
    r = rng.random()
    if not sizes or r < 0.4:
        batch_size = rng.choice([16384, 1 << 20])
    elif r < 0.92:
        batch_size = max(0, rng.choice(sizes) + rng.choice([-1, 0, 1]))
    else:
        batch_size = rng.choice([0, 1, 26, 34])
    stamp = None
    if codec and rng.random() < 0.75:
        stamp = {"base": rng.choice([0, 1, 1000, 2 ** 40]), "lat": rng.choice([None, None, 0, 1600000000123, 2 ** 62])}
    return {"id": f"lg-{idx}", "cfg": {"magic": magic, "codec": codec, "batch_size": batch_size},
            "recs": recs, "stamp": stamp}


def small_recs(rng, n, headers):
    out = []
    for i in range(n):
        k = None if rng.random() < 0.3 else gen_bytes(rng, rng.choice([0, 1, 3, 10]), True)
        v = None if rng.random() < 0.2 else gen_bytes(rng, rng.choice([0, 1, 5, 40, 130]), True)
        hs = []
        if headers and rng.random() < 0.3:
            hs = [[rng.choice(HEADER_KEYS[:7]).encode("utf-8").hex(), rng.choice([None, "", "00ff"])]]
        out.append([i, rng.choice([0, 1000 + i, 1600000000000 - i]), None if k is None else k.hex(),
                    None if v is None else v.hex(), hs])
    return out


def gen_split_piece(rng, codecs_available):
    kind = rng.choice(["v2", "v2", "legacy0", "legacy1"])
    by = rng.choice(["py", "cy", "ref"])
    n = rng.randrange(1, 4)
    if kind == "v2":
        codec = 0 if by == "ref" or rng.random() < 0.6 else rng.choice(codecs_available)
        spec = {"kind": "v2", "by": by,
                "cfg": {"codec": codec, "txn": rng.random() < 0.3, "pid": rng.choice([-1, 7]),
                        "pepoch": rng.choice([-1, 0]), "bseq": rng.choice([-1, 0]), "batch_size": 1 << 20},
                "recs": small_recs(rng, n, True)}
        if rng.random() < 0.5:
            spec["stamp"] = {"base": rng.choice([0, 10, 2 ** 33]), "epoch": rng.choice([-1, 4]),
                             "lat": rng.choice([None, 1600000000999]), "control": False}
        return spec
    magic = 0 if kind == "legacy0" else 1
    lcodecs = [c for c in codecs_available if c in (1, 2)] + ([3] if 3 in codecs_available and magic == 1 else [])
    codec = 0 if by == "ref" or rng.random() < 0.6 or not lcodecs else rng.choice(lcodecs)
    return {"kind": "legacy", "by": by, "cfg": {"magic": magic, "codec": codec, "batch_size": 1 << 20},
            "recs": small_recs(rng, n, False)}


def gen_split_case(rng, idx, codecs_available):
    nb = rng.choice([1, 2, 2, 3, 3, 4, 6])
    batches = [gen_split_piece(rng, codecs_available) for _ in range(nb)]
    case = {"id": f"sp-{idx}", "batches": batches}
    if rng.random() < 0.7:
        case["tail"] = {"batch": gen_split_piece(rng, codecs_available),
                        "cut": rng.choice([1, 7, 8, 11, 12, 13, 16, 17, 25, 26, 27, 60, 61, 62, -1, -2])}
    return case


CORPUS_SPLIT = [
    # the seeded defect of the original tree: a v2 batch followed by a v1 message
    {"id": "sp-corpus-v2-then-v1",
     "batches": [{"kind": "v2", "by": "ref", "cfg": {"codec": 0, "txn": False, "pid": -1, "pepoch": -1, "bseq": -1, "batch_size": 1 << 20},
                  "recs": [[0, 1000, "6b", "76", []]]},
                 {"kind": "legacy", "by": "ref", "cfg": {"magic": 1, "codec": 0, "batch_size": 1 << 20},
                  "recs": [[0, 1001, "6b32", "7632", []]]}]},
    {"id": "sp-corpus-v1-then-v2-then-v0",
     "batches": [{"kind": "legacy", "by": "ref", "cfg": {"magic": 1, "codec": 0, "batch_size": 1 << 20},
                  "recs": [[0, 1001, "6b32", "7632", []]]},
                 {"kind": "v2", "by": "ref", "cfg": {"codec": 0, "txn": False, "pid": -1, "pepoch": -1, "bseq": -1, "batch_size": 1 << 20},
                  "recs": [[0, 1000, "6b", "76", [["68", None]]], [1, 999, None, None, []]]},
                 {"kind": "legacy", "by": "ref", "cfg": {"magic": 0, "codec": 0, "batch_size": 1 << 20},
                  "recs": [[0, 0, None, "76", []]]}],
     "tail": {"batch": {"kind": "legacy", "by": "ref", "cfg": {"magic": 1, "codec": 0, "batch_size": 1 << 20},
                        "recs": [[0, 5, "6b", "76", []]]}, "cut": 17}},
    {"id": "sp-corpus-v0-then-v2",
     "batches": [{"kind": "legacy", "by": "py", "cfg": {"magic": 0, "codec": 0, "batch_size": 1 << 20},
                  "recs": [[0, 0, "6b", "76", []], [1, 0, None, "", []]]},
                 {"kind": "v2", "by": "cy", "cfg": {"codec": 0, "txn": True, "pid": 7, "pepoch": 0, "bseq": 0, "batch_size": 1 << 20},
                  "recs": [[0, 1000, "6b", "76", []]]}]},
]


def gen_varints(rng, n):
    vals = set()
    for k in range(0, 64, 7):
        for d in (-2, -1, 0, 1):
            for s in (1, -1):
                v = s * ((1 << k) + d)
                if -(1 << 63) <= v < (1 << 63):
                    vals.add(v)
    for k in (6, 13, 20, 27, 34, 41, 48, 55, 62):
        for d in (-2, -1, 0, 1):
            for v in ((1 << k) + d, -(1 << k) + d):
                vals.add(v)
    vals |= {0, -1, 1, I64MAX, -(1 << 63), I64MAX - 1, -(1 << 63) + 1, 2 ** 31, 2 ** 31 - 1, -2 ** 31}
    while len(vals) < n:
        bits = rng.randrange(1, 64)
        v = rng.getrandbits(bits)
        vals.add(v if rng.random() < 0.5 else -v - 1)
    vals = sorted(vals)
    decs = []
    for v in vals:
        if rng.random() < 0.5:
            pre = bytes(rng.getrandbits(8) for _ in range(rng.choice([0, 1, 3])))
            post = bytes(rng.getrandbits(8) for _ in range(rng.choice([0, 1, 2])))
            decs.append([(pre + ref.varint(v) + post).hex(), len(pre)])
    return vals, decs


def gen_crc(rng, n):
    out = ["", "313233343536373839", "00", "ff" * 8, "00" * 32]
    while len(out) < n:
        ln = rng.choice([1, 2, 3, 7, 8, 9, 15, 16, 17, 31, 33, 64, 100, 1000, 5121, 6000])
        out.append(bytes(rng.getrandbits(8) for _ in range(ln)).hex())
    return out


# ============================================================================ model runner
def tok(h):
    """hex|None -> runner token"""
    if h is None:
        return "-"
    return h if h else "~"


def untok(t):
    if t == "-":
        return None
    return "" if t == "~" else t


def rec_tokens(r, headers=True):
    off, ts, k, v, hs = r
    t = [str(off), str(ts), tok(k), tok(v)]
    if headers:
        t.append(str(len(hs)))
        for hk, hv in hs:
            t += [tok(hk), tok(hv)]
    return t


class Toks:
    def __init__(self, line):
        self.t = line.split()
        self.i = 0

    def next(self):
        v = self.t[self.i]
        self.i += 1
        return v

    def int(self):
        return int(self.next())


def parse_runner_line(line):
    t = Toks(line)
    kind, cid = t.next(), t.next()
    if t.i < len(t.t) and t.t[t.i].startswith("ERROR:"):
        return kind, cid, {"error": " ".join(t.t[t.i:])}
    if kind == "V2B":
        b = untok(t.next())
        steps = []
        for _ in range(t.int()):
            sib, o, s, ts, sz = t.int(), t.int(), t.int(), t.int(), t.int()
            steps.append([sib, None if (o, s, ts) == (-1, -1, -1) else [o, s, ts], sz])
        return kind, cid, {"bytes": b, "steps": steps}
    if kind == "V2R":
        sb = untok(t.next())
        ok = t.next() == "1"
        st = t.next()
        if st == "NONE":
            return kind, cid, {"stamped": sb, "crc_ok": ok, "recs": None}
        hdr = [t.int() for _ in range(13)]
        recs = []
        for _ in range(t.int()):
            off, ts, tt = t.int(), t.int(), t.int()
            k, v = untok(t.next()), untok(t.next())
            hs = [[untok(t.next()), untok(t.next())] for _ in range(t.int())]
            recs.append([off, ts, tt, k, v, hs])
        return kind, cid, {"stamped": sb, "crc_ok": ok, "hdr": hdr, "recs": recs}
    if kind == "LB":
        b = t.next()
        b = None if b == "NONE" else untok(b)
        steps = []
        for _ in range(t.int()):
            sib, o, c, s, ts, sz = (t.int() for _ in range(6))
            steps.append([sib, None if (o, c, s, ts) == (-1, -1, -1, -1) else [o, c, s, ts], sz])
        return kind, cid, {"bytes": b, "steps": steps}
    if kind == "LR":
        ok = t.next() == "1"
        st = t.next()
        if st == "NONE":
            return kind, cid, {"crc_ok": ok, "recs": None}
        recs = []
        for _ in range(t.int()):
            off = t.int()
            ts = t.next()
            tt = t.next()
            k, v = untok(t.next()), untok(t.next())
            crc = t.int()
            recs.append([off, None if ts == "-" else int(ts), None if tt == "-" else int(tt), k, v, crc])
        return kind, cid, {"crc_ok": ok, "recs": recs}
    if kind == "LS":
        return kind, cid, {"bytes": untok(t.next())}
    if kind == "SP":
        tr = t.next()
        bs = [[t.int(), t.int()] for _ in range(t.int())]
        return kind, cid, {"trailing": None if tr == "X" else int(tr), "batches": bs}
    if kind == "VI":
        return kind, cid, {"py": [untok(t.next()), t.int(), t.int()], "cy": [untok(t.next()), t.int()],
                           "spec": untok(t.next())}
    if kind == "VD":
        out = []
        for _ in range(2):
            a = t.next()
            out.append(None if a == "NONE" else [int(a), t.int()])
        return kind, cid, {"py": out[0], "cy": out[1]}
    if kind == "CR":
        return kind, cid, {"crc32c": t.int(), "crc32": t.int()}
    return kind, cid, {"error": "unparsed"}


def run_runner(runner, lines, shards=None):
    """Evaluate request lines with the extracted OCaml runner, in parallel shards."""
    shards = shards or common.NPROC
    if not lines:
        return {}
    parts = [lines[i::shards] for i in range(shards)]

    def one(part):
        if not part:
            return ""
        # the extracted list functions are not tail-recursive: 1 MiB values need a deep C stack
        p = subprocess.run(["bash", "-c", f"ulimit -s unlimited 2>/dev/null || ulimit -s 4000000; exec '{runner}'"],
                           input="\n".join(part) + "\n", stdout=subprocess.PIPE,
                           stderr=subprocess.STDOUT, text=True, timeout=1500)
        return p.stdout

    res = {}
    with cf.ThreadPoolExecutor(max_workers=shards) as ex:
        for out in ex.map(one, parts):
            for ln in out.splitlines():
                if ln.strip():
                    try:
                        kind, cid, val = parse_runner_line(ln)
                    except Exception as e:  # noqa: BLE001
                        kind, cid, val = "?", ln[:40], {"error": f"unparsable runner output: {e}"}
                    res[(kind, cid)] = val
    return res


# ============================================================================ the check
class Tally:
    """mismatches per correspondence class / violations, with first details kept"""

    def __init__(self):
        self.bad = {}
        self.n = {}

    def check(self, cls, ok, detail=None):
        self.n[cls] = self.n.get(cls, 0) + 1
        if not ok:
            self.bad.setdefault(cls, [])
            if len(self.bad[cls]) < 3:
                self.bad[cls].append(detail() if callable(detail) else detail)
        return ok


def short(x, n=160):
    s = json.dumps(x, default=str)
    return s if len(s) <= n else s[:n] + "..."


def first_diff(a, b):
    if isinstance(a, str) and isinstance(b, str):
        for i, (x, y) in enumerate(zip(a, b)):
            if x != y:
                return f"first difference at hex char {i} (byte {i // 2}): {a[max(0, i - 8):i + 16]} vs {b[max(0, i - 8):i + 16]}; lengths {len(a) // 2}/{len(b) // 2}"
        return f"lengths {len(a) // 2}/{len(b) // 2}"
    if isinstance(a, list) and isinstance(b, list):
        if len(a) != len(b):
            return f"lengths {len(a)} vs {len(b)}"
        for i, (x, y) in enumerate(zip(a, b)):
            if x != y:
                return f"item {i}: {short(x)} vs {short(y)}"
    return f"{short(a)} vs {short(b)}"


def compact_case(case, limit=4000):
    """replay payload: the case itself (long hex fields are kept — needed to replay)"""
    return case


def v2_requests(case, res):
    """runner lines for one v2 case, given the implementation results"""
    lines = []
    cfg, st = case["cfg"], case["stamp"]
    for name, P in (("py", "P"), ("cy", "C")):
        r = res.get(name, {})
        if "bytes" not in r:
            continue
        raw = r["bytes"]
        payload = "~"
        if cfg["codec"]:
            attrs = int(raw[42:46], 16)
            payload = raw[122:] if attrs & 7 else r.get("alt_payload", "")
            payload = payload or "~"
        head = ["V2B", f"{case['id']}/{name}", P, str(cfg["codec"]), "1" if cfg["txn"] else "0", str(cfg["pid"]),
                str(cfg["pepoch"]), str(cfg["bseq"]), str(cfg["batch_size"]), payload, str(len(case["recs"]))]
        for rec in case["recs"]:
            head += rec_tokens(rec)
        lines.append(" ".join(head))
        data = (r.get("ref") or {}).get("data")
        if data is None:
            data = r.get("plain_region", raw[122:])
        lines.append(" ".join(["V2R", f"{case['id']}/{name}", str(st["base"]), str(st["epoch"]),
                               "-" if st["lat"] is None else str(st["lat"]), "1" if st["control"] else "0",
                               raw, data or "~"]))
    return lines


def check_v2_case(ck, T, case, res, model):
    cfg, recs, st = case["cfg"], case["recs"], case["stamp"]
    cid = case["id"]
    viol = []          # (what, signature-suffix, observed)
    outcome = {}
    for name in ("py", "cy"):
        r = res.get(name, {})
        if "exn" in r and "bytes" not in r:
            T.check(f"v2-impl-ran-{name}", False, lambda: f"{cid}: {r.get('exn')}: {r.get('msg')} {r.get('tb', '')[-300:]}")
            viol.append((f"{name} v2 builder/reader raised {r.get('exn')} on a valid input", f"{name}-exn", r.get("msg")))
            continue
        raw = r["bytes"]
        steps = r["steps"]
        mb = model.get(("V2B", f"{cid}/{name}"), {"error": "no model result"})
        mr = model.get(("V2R", f"{cid}/{name}"), {"error": "no model result"})
        # ---- correspondence: builder
        T.check(f"v2-build-{name}-vs-model", "error" not in mb and mb.get("bytes") == raw,
                lambda: f"{cid}: built bytes differ: " + (mb.get("error") or first_diff(mb.get("bytes") or "", raw)))
        T.check(f"v2-steps-{name}-vs-model", "error" not in mb and mb.get("steps") == steps,
                lambda: f"{cid}: append results / size() differ: " + (mb.get("error") or first_diff(mb.get("steps"), steps)))
        # ---- correspondence: stamp + reader
        decs = r["dec"]
        if decs.get("cy") == "=py":
            decs["cy"] = decs["py"]
        if isinstance(r.get("ref"), dict) and r["ref"].get("recs") == "=py":
            r["ref"]["recs"] = decs["py"]["recs"]
        accepted = [rec for rec, s in zip(recs, steps) if s[1] is not None]
        T.check(f"v2-stamp-model-vs-reference", "error" not in mr and mr.get("stamped") == r["stamped"],
                lambda: f"{cid}/{name}: stamped bytes differ: " + (mr.get("error") or first_diff(mr.get("stamped") or "", r["stamped"])))
        for d in ("py", "cy"):
            T.check(f"v2-read-{d}-vs-model", "recs" in decs[d] and decs[d]["recs"] == mr.get("recs"),
                    lambda d=d: f"{cid}: batch built by {name}, read by {d}: " +
                    (decs[d].get("exn", "") and f"{decs[d].get('exn')}: {decs[d].get('msg')}" or first_diff(decs[d].get("recs"), mr.get("recs"))))
            if "recs" in decs[d] and mr.get("hdr"):
                h = decs[d]["hdr"]
                T.check(f"v2-header-{d}-vs-model", all(a is None or a == b for a, b in zip(h, mr["hdr"])) and decs[d]["crc_ok"] == mr["crc_ok"],
                        lambda d=d: f"{cid}: header fields read by {d}: {decs[d]['hdr']} model {mr.get('hdr')}")
        # ---- reference codec
        rf = r.get("ref", {})
        T.check("v2-reference-decodes", "recs" in rf, lambda: f"{cid}/{name}: reference decoder: {rf.get('exn')}: {rf.get('msg')}")
        if "recs" in rf:
            T.check("v2-reference-vs-model", rf["recs"] == mr.get("recs"),
                    lambda: f"{cid}/{name}: reference vs model records: " + first_diff(rf["recs"], mr.get("recs")))
        # ---- monitor: the property on the real classes
        accepted = [rec for rec, s in zip(recs, steps) if s[1] is not None]
        expected = [[st["base"] + rec[0], rec[1] if st["lat"] is None else st["lat"], 0 if st["lat"] is None else 1,
                     rec[2], rec[3], rec[4]] for rec in accepted]
        for d in ("py", "cy"):
            if "recs" not in decs[d]:
                viol.append((f"batch built by the {name} builder is rejected by the {d} reader "
                             f"({decs[d].get('exn')}: {decs[d].get('msg')})", f"dec-exn-{name}-{d}", decs[d]))
            elif decs[d]["recs"] != expected:
                viol.append((f"decode({d}) of build({name}) differs from the records appended: "
                             + first_diff(decs[d]["recs"], expected), f"roundtrip-{name}-{d}",
                             {"decoded": decs[d]["recs"][:3], "expected": expected[:3]}))
            else:
                fl = decs[d]["flags"]
                hd = decs[d]["hdr"]
                want_flags = [None, 0 if st["lat"] is None else 1, bool(cfg["txn"]), bool(st["control"]),
                              st["base"] + (accepted[-1][0] if accepted else 0) + 1]
                if any(w is not None and w != g for w, g in zip(want_flags, fl)) or not decs[d]["crc_ok"]:
                    viol.append((f"batch properties read by {d} from build({name}) wrong: flags {fl} want {want_flags}, crc_ok {decs[d]['crc_ok']}",
                                 f"flags-{name}-{d}", {"flags": fl, "want": want_flags}))
                if hd[9:12] != [cfg["pid"], cfg["pepoch"], cfg["bseq"]]:
                    viol.append((f"producer fields read by {d} from build({name}): {hd[9:12]}", f"producer-{name}-{d}", hd))
        # header well-formedness of the produced (unstamped) bytes, by the reference
        h0 = r.get("ref_raw_hdr")
        if h0 is None:
            viol.append((f"bytes built by {name} are not a well-formed v2 batch for the reference decoder: {rf.get('msg')}",
                         f"wellformed-{name}", rf))
        else:
            want = {"base_offset": 0, "leader_epoch": -1, "magic": 2, "count": len(accepted), "length_ok": True,
                    "crc_ok": True, "pid": cfg["pid"], "pepoch": cfg["pepoch"], "bseq": cfg["bseq"],
                    "last_offset_delta": accepted[-1][0] if accepted else 0}
            if accepted:
                want["first_ts"] = accepted[0][1]
                want["max_ts"] = max(a[1] for a in accepted)
            bad = {k: (h0.get(k), v) for k, v in want.items() if h0.get(k) != v}
            at = h0["attrs"]
            if (at & 0x10 != 0) != bool(cfg["txn"]) or at & ~0x17 or (at & 7) not in (0, cfg["codec"]) \
                    or (name == "cy" and (at & 7) != cfg["codec"]):
                bad["attrs"] = (at, f"codec {cfg['codec']} txn {cfg['txn']}")
            if bad:
                viol.append((f"header of the batch built by {name} is wrong (field: (got, want)): {bad}",
                             f"header-{name}-" + "-".join(sorted(bad)), bad))
        # size accounting / limit predicate against bytes (record sizes by the reference encoder)
        size = 61
        first_ts = None
        n_acc = 0
        for rec, s in zip(recs, steps):
            sib, meta, after = s
            rs = v2_record_size(rec[1] if first_ts is None else first_ts, rec)
            if name == "py":
                should_refuse = n_acc > 0 and size + rs > cfg["batch_size"]
            else:
                should_refuse = rec[0] != 0 and size + rs >= cfg["batch_size"]
            problems = []
            if sib != rs:
                problems.append(f"size_in_bytes()={sib} but the record occupies {rs} bytes")
            if (meta is None) != should_refuse:
                problems.append(f"append {'refused' if meta is None else 'accepted'} at size {size}+{rs} with batch_size {cfg['batch_size']}")
            if meta is not None:
                if meta[1] != rs or meta[0] != rec[0] or meta[2] != rec[1]:
                    problems.append(f"metadata {meta} but the record occupies {rs} bytes")
                if after != size + rs:
                    problems.append(f"size()={after} after append, bytes so far {size + rs}")
                size += rs
                n_acc += 1
                if first_ts is None:
                    first_ts = rec[1]
            elif after != size:
                problems.append(f"size()={after} changed by a refused append (was {size})")
            if problems:
                viol.append((f"{name} builder size accounting: " + "; ".join(problems), f"size-{name}",
                             {"record": short(rec, 200), "step": s}))
                break
        region_len = len(rf["data"]) // 2 if "data" in rf else None
        if region_len is not None and steps and steps[-1][2] != 61 + region_len:
            viol.append((f"{name} builder: size()={steps[-1][2]} but the uncompressed batch has {61 + region_len} bytes",
                         f"size-total-{name}", None))
        outcome[name] = (tuple(s[1] is not None for s in steps), rf.get("data"))
    # both implementations: same accepted records => same record region
    if len(outcome) == 2 and outcome["py"][0] == outcome["cy"][0] and outcome["py"][1] != outcome["cy"][1]:
        viol.append(("the two implementations encode the same records differently: "
                     + first_diff(outcome["py"][1] or "", outcome["cy"][1] or ""), "py-cy-bytes", None))
    for what, sig, obs in viol[:2]:
        ck.violation(f"C09 v2 [{cid}]: {what}", {"kind": "v2", "case": case, "observed": obs},
                     signature=f"v2:{sig}:{cid}")
    return not viol


def legacy_requests(case, res):
    lines = []
    cfg = case["cfg"]
    for name in ("py", "cy"):
        r = res.get(name, {})
        if "bytes" not in r:
            # builders raised (e.g. LZ4 with magic 0): still ask the model what it does
            if name == "py":
                head = ["LB", f"{case['id']}/any", str(cfg["magic"]), str(cfg["codec"]), str(cfg["batch_size"]), "~",
                        str(len(case["recs"]))]
                for rec in case["recs"]:
                    head += rec_tokens(rec, headers=False)
                lines.append(" ".join(head))
            continue
        raw = r["bytes"]
        payload = "~"
        if cfg["codec"] and raw:
            off = 18 if cfg["magic"] == 0 else 26
            # wrapper: key length (-1) then value length + value
            payload = raw[2 * (off + 8):] or "~"
        head = ["LB", f"{case['id']}/{name}", str(cfg["magic"]), str(cfg["codec"]), str(cfg["batch_size"]), payload,
                str(len(case["recs"]))]
        for rec in case["recs"]:
            head += rec_tokens(rec, headers=False)
        lines.append(" ".join(head))
        for j, m in enumerate(r.get("msgs", [])):
            data = (m.get("ref") or {}).get("data") or "~"
            for d, D in (("py", "P"), ("cy", "C")):
                lines.append(" ".join(["LR", f"{case['id']}/{name}/{j}/{d}", D, str(cfg["magic"]), m["stamped"], data]))
            if m["stamped"] != m["raw"]:
                st = case["stamp"]
                lines.append(" ".join(["LS", f"{case['id']}/{name}/{j}", str(case["_stamp_offset"][name]),
                                       "-" if st["lat"] is None else str(st["lat"]), m["raw"]]))
    return lines


def check_legacy_case(ck, T, case, res, model):
    cfg, recs, st = case["cfg"], case["recs"], case["stamp"]
    cid = case["id"]
    magic, codec = cfg["magic"], cfg["codec"]
    viol = []
    if codec == 3 and magic == 0:
        # KAFKA-3160: both builders must refuse, the model returns None
        both = all(res.get(n, {}).get("exn") == "UnsupportedCodecError" for n in ("py", "cy"))
        mb = model.get(("LB", f"{cid}/any"), {})
        T.check("legacy-lz4-v0-refused", both and mb.get("bytes", 0) is None,
                lambda: f"{cid}: LZ4 with magic 0: impl {[res.get(n, {}).get('exn') for n in ('py', 'cy')]} model {short(mb)}")
        return True
    oh = 26 if magic == 0 else 34
    for name in ("py", "cy"):
        r = res.get(name, {})
        if "bytes" not in r:
            T.check(f"legacy-impl-ran-{name}", False, lambda: f"{cid}: {r.get('exn')}: {r.get('msg')} {r.get('tb', '')[-300:]}")
            viol.append((f"{name} legacy builder raised {r.get('exn')} on a valid input", f"{name}-exn", r.get("msg")))
            continue
        raw, steps = r["bytes"], r["steps"]
        mb = model.get(("LB", f"{cid}/{name}"), {"error": "no model result"})
        T.check(f"legacy-build-{name}-vs-model", "error" not in mb and (mb.get("bytes") or "") == raw,
                lambda: f"{cid}: built bytes differ: " + (mb.get("error") or first_diff(mb.get("bytes") or "", raw)))
        T.check(f"legacy-steps-{name}-vs-model", "error" not in mb and mb.get("steps") == steps,
                lambda: f"{cid}: append results / size() differ: " + (mb.get("error") or first_diff(mb.get("steps"), steps)))
        accepted = [rec for rec, s in zip(recs, steps) if s[1] is not None]
        metas = [s[1] for s in steps if s[1] is not None]
        msgs = r.get("msgs", [])
        if r.get("trailing"):
            viol.append((f"{name} legacy builder output has {r['trailing']} bytes that are not a complete message", f"trailing-{name}", None))
        # model reader / stamp
        for j, m in enumerate(msgs):
            if m["stamped"] != m["raw"]:
                ms = model.get(("LS", f"{cid}/{name}/{j}"), {})
                T.check("legacy-stamp-model-vs-reference", ms.get("bytes") == m["stamped"],
                        lambda: f"{cid}: stamped wrapper differs: " + first_diff(ms.get("bytes") or "", m["stamped"]))
            for d in ("py", "cy"):
                mr = model.get(("LR", f"{cid}/{name}/{j}/{d}"), {"error": "no model result"})
                dd = m["dec"][d]
                got = [x[:6] for x in dd["recs"]] if "recs" in dd else None
                T.check(f"legacy-read-{d}-vs-model", got is not None and got == mr.get("recs") and dd["crc_ok"] == mr.get("crc_ok"),
                        lambda: f"{cid}: message {j} built by {name}, read by {d}: " +
                        (f"{dd.get('exn')}: {dd.get('msg')}" if got is None else first_diff(got, mr.get("recs"))))
            rf = m.get("ref", {})
            T.check("legacy-reference-decodes", "recs" in rf, lambda: f"{cid}/{name}: reference: {rf.get('exn')}: {rf.get('msg')}")
        # ---- monitor
        if codec == 0:
            if len(msgs) != len(accepted):
                viol.append((f"{name} builder produced {len(msgs)} messages for {len(accepted)} accepted records", f"count-{name}", None))
            exp_all = [[[rec[0], None if magic == 0 else rec[1], None if magic == 0 else 0, rec[2], rec[3], meta[1]]]
                       for rec, meta in zip(accepted, metas)]
        else:
            if len(msgs) != 1:
                viol.append((f"{name} compressed legacy build is not one wrapper message ({len(msgs)})", f"wrapper-{name}", None))
            lat = st["lat"] if st else None
            base = 0
            if magic == 1 and accepted:
                b = (case["_stamp_offset"][name] if st else 0) - accepted[-1][0]
                base = b if b >= 0 else 0
            exp_all = [[[rec[0] + base, None if magic == 0 else (rec[1] if lat is None else lat),
                         None if magic == 0 else (0 if lat is None else 1), rec[2], rec[3], meta[1]]
                        for rec, meta in zip(accepted, metas)]]
        for j, (m, exp) in enumerate(zip(msgs, exp_all)):
            for d in ("py", "cy"):
                dd = m["dec"][d]
                if "recs" not in dd:
                    viol.append((f"legacy message built by {name} is rejected by the {d} reader ({dd.get('exn')}: {dd.get('msg')})",
                                 f"dec-exn-{name}-{d}", dd))
                elif [x[:6] for x in dd["recs"]] != exp or not dd["crc_ok"] or any(x[6] for x in dd["recs"]):
                    viol.append((f"decode({d}) of legacy build({name}) message {j} differs from the records appended: "
                                 + first_diff([x[:6] for x in dd["recs"]], exp) + f" crc_ok={dd['crc_ok']}",
                                 f"roundtrip-{name}-{d}", {"decoded": dd["recs"][:3], "expected": exp[:3]}))
            rf = m.get("ref", {})
            if "recs" in rf:
                if not (rf["crc_ok"] and rf["inner_crc_ok"] and rf["length_ok"]) or (rf["attrs"] & 7) != codec:
                    viol.append((f"legacy message built by {name} is malformed for the reference decoder: {short({k: rf[k] for k in ('crc_ok', 'inner_crc_ok', 'length_ok', 'attrs')})}",
                                 f"wellformed-{name}", None))
                elif (st is not None or codec == 0 or magic == 0 or len(accepted) <= 1) and rf["recs"] != exp:
                    viol.append((f"reference decoding of legacy build({name}) message {j} differs from the records appended: "
                                 + first_diff(rf["recs"], exp), f"ref-roundtrip-{name}", None))
            else:
                viol.append((f"legacy message built by {name} is rejected by the reference decoder: {rf.get('msg')}", f"wellformed-{name}", rf))
        size = 0
        for rec, s in zip(recs, steps):
            sib, meta, after = s
            rs = oh + (len(rec[2]) // 2 if rec[2] else 0) + (len(rec[3]) // 2 if rec[3] else 0)
            should_refuse = rec[0] != 0 and size + rs >= cfg["batch_size"]
            problems = []
            if sib != rs:
                problems.append(f"size_in_bytes()={sib}, message has {rs} bytes")
            if (meta is None) != should_refuse:
                problems.append(f"append {'refused' if meta is None else 'accepted'} at size {size}+{rs} with batch_size {cfg['batch_size']}")
            if meta is not None:
                want_ts = -1 if magic == 0 else rec[1]
                if meta[2] != rs or meta[0] != rec[0] or meta[3] != want_ts:
                    problems.append(f"metadata {meta}, message has {rs} bytes")
                size += rs
            if after != size:
                problems.append(f"size()={after}, bytes so far {size}")
            if problems:
                viol.append((f"{name} legacy builder size accounting: " + "; ".join(problems), f"size-{name}", {"step": s}))
                break
        plain = r.get("plain", raw)
        if steps and len(plain) // 2 != size:
            viol.append((f"{name} legacy builder: accounted {size} bytes, uncompressed build has {len(plain) // 2}", f"size-total-{name}", None))
    for what, sig, obs in viol[:2]:
        ck.violation(f"C09 legacy [{cid}]: {what}", {"kind": "legacy", "case": case, "observed": obs},
                     signature=f"legacy:{sig}:{cid}")
    return not viol


def check_split_case(ck, T, case, res, res_pure, model):
    cid = case["id"]
    viol = []
    if "buffer" not in res:
        T.check("split-impl-ran", False, lambda: f"{cid}: {res.get('exn')}: {res.get('msg')} {res.get('tb', '')[-300:]}")
        if res.get("exn") == "ProcessCrash":
            ck.violation(f"C09 split [{cid}]: the interpreter died while building / splitting these valid batches: {res.get('msg')}",
                         {"kind": "split", "case": case, "observed": res}, signature=f"split:crash:{cid}")
        return False
    rf = res.get("ref", {})
    T.check("split-reference-decodes", "batches" in rf, lambda: f"{cid}: reference splitter/decoder: {rf.get('exn')}: {rf.get('msg')}")
    if "batches" not in rf:
        return False
    want_shape = [[b["magic"], b["len"]] for b in rf["batches"]]
    for d, D in (("py", "P"), ("cy", "C")):
        m = model.get(("SP", f"{cid}/{d}"), {"error": "no model result"})
        T.check(f"split-model-{d}-vs-reference", m.get("batches") == want_shape and m.get("trailing") == rf["trailing"],
                lambda d=d, m=m: f"{cid}: model split({d}) {short(m)} reference {want_shape} trailing {rf['trailing']}")
    runs = [("py", res["py"], "python splitter + python batch classes"), ("cy", res["cy"], "compiled splitter")]
    for d, out, label in runs:
        got = [[b.get("kind"), b.get("recs")] for b in out["batches"]]
        want = [[b["kind"], b["recs"]] for b in rf["batches"]]
        ok = got == want and out["end"] == "none"
        T.check(f"split-impl-{d}-vs-model", ok,
                lambda out=out, label=label: f"{cid}: {label}: end={out['end']} {out.get('msg', '')} " + first_diff(got, want))
        if not ok:
            k = next((i for i, (g, w) in enumerate(zip(got, want)) if g != w), min(len(got), len(want)))
            viol.append((f"{label} on a buffer of {len(want)} valid batches (magics {[b['magic'] for b in rf['batches']]}) "
                         f"+ {rf['trailing']} trailing bytes: batch {k} "
                         + (f"decoded as {out['batches'][k].get('kind')} "
                            f"{out['batches'][k].get('decode_exn', '')} {out['batches'][k].get('msg', '')}" if k < len(out['batches']) else "missing")
                         + f", iteration ended with {out['end']}", f"split-{d}", {"got": got[k] if k < len(got) else None,
                                                                              "want": want[k] if k < len(want) else None}))
    for what, sig, obs in viol[:2]:
        ck.violation(f"C09 split [{cid}]: {what}",
                     {"kind": "split", "case": {"id": cid, "buffer": res["buffer"], "bounds": res.get("bounds")},
                      "spec": case, "observed": obs}, signature=f"split:{sig}:{cid}")
    return not viol


def coq_sample(ck, T, v2_cases, v2_res, legacy_cases, legacy_res, split_res, model, varints, crcs):
    """A sample of small cases evaluated INSIDE Coq (vm_compute) with the same definitions the
    runner was extracted from; results must equal the runner's."""
    def q(s):
        return '"' + (s or "") + '"'

    def oq(s):
        return "None" if s is None else f"(Some {q(s)})"

    def coq_rec(r):
        hs = "[" + "; ".join(f"({q(a)}, {oq(b)})" for a, b in r[4]) + "]"
        return f"(R {common.coq_Z(r[0])} {common.coq_Z(r[1])} {oq(r[2])} {oq(r[3])} {hs})"

    body = ["Open Scope string_scope."]
    expect = []
    budget = 20000          # hex characters of literals (Coq's front end is the bottleneck)
    for case in v2_cases:
        res = v2_res.get(case["id"], {})
        for name, I in (("py", "Py"), ("cy", "Cy")):
            r = res.get(name, {})
            mb = model.get(("V2B", f"{case['id']}/{name}"))
            if "bytes" not in r or not mb or "error" in mb or case["cfg"]["codec"]:
                continue
            cost = len(json.dumps(case["recs"]))
            if cost > 3000 or cost > budget:
                continue
            budget -= cost
            c = case["cfg"]
            body.append(f"Eval vm_compute in (ev_v2_build {I} (mkCfg 2 {c['codec']} {common.coq_bool(c['txn'])} "
                        f"{common.coq_Z(c['pid'])} {common.coq_Z(c['pepoch'])} {common.coq_Z(c['bseq'])} {c['batch_size']}) \"\" "
                        f"[{'; '.join(coq_rec(x) for x in case['recs'])}]).")
            expect.append(("v2b", case["id"] + "/" + name, mb))
    for case in legacy_cases:
        res = legacy_res.get(case["id"], {})
        r = res.get("py", {})
        mb = model.get(("LB", f"{case['id']}/py"))
        if "bytes" not in r or not mb or "error" in mb or case["cfg"]["codec"]:
            continue
        cost = len(json.dumps(case["recs"]))
        if cost > 2000 or cost > budget:
            continue
        budget -= cost
        c = case["cfg"]
        body.append(f"Eval vm_compute in (ev_legacy_build (mkLCfg {c['magic']} {c['codec']} {c['batch_size']}) \"\" "
                    f"[{'; '.join(coq_rec(x) for x in case['recs'])}]).")
        expect.append(("lb", case["id"], mb))
    for cid, res in list(split_res.items())[:12]:
        if "buffer" in res and len(res["buffer"]) < 2500 and len(res["buffer"]) < budget:
            budget -= len(res["buffer"])
            for d, I in (("py", "Py"), ("cy", "Cy")):
                m = model.get(("SP", f"{cid}/{d}"))
                if m and "error" not in m:
                    body.append(f"Eval vm_compute in (ev_split {I} {q(res['buffer'])}).")
                    expect.append(("sp", cid + "/" + d, m))
    vs = varints[:60]
    body.append("Eval vm_compute in (map ev_varint [" + "; ".join(common.coq_Z(v) for v in vs) + "]).")
    body.append("Eval vm_compute in (map ev_crc [" + "; ".join(q(h) for h in crcs[:8] if len(h) < 300) + "]).")
    ok, out = ck.coq_eval("c09_cases", ["Imp", "C09Bytes", "C09_RecordV2", "C09_Legacy", "C09_Eval"], "\n".join(body) + "\n",
                          timeout=900)
    if not ok:
        T.check("extracted-runner-vs-coq", False, "coq evaluation failed: " + out[-600:])
        return 0
    vals = [common.parse_coq_value(v) for v in common.parse_eval_outputs(out)]
    n = 0
    for (kind, cid, m), v in zip(expect, vals):
        n += 1
        if kind == "v2b":
            got_bytes, got_steps = v[0], [[s[0], None if tuple(s[1]) == (-1, -1, -1) else list(s[1]), s[2]] for s in v[1]]
            T.check("extracted-runner-vs-coq", got_bytes == (m["bytes"] or "") and got_steps == m["steps"],
                    lambda: f"{cid}: Coq {short(v)} runner {short(m)}")
        elif kind == "lb":
            gb = v[0]
            gb = None if gb is None else (gb[1] if isinstance(gb, tuple) else gb)
            got_steps = [[s[0], None if tuple(s[1]) == (-1, -1, -1, -1) else list(s[1]), s[2]] for s in v[1]]
            T.check("extracted-runner-vs-coq", (gb or "") == (m["bytes"] or "") and got_steps == m["steps"],
                    lambda: f"{cid}: Coq {short(v)} runner {short(m)}")
        else:
            bs = [list(x) for x in v[0]]
            tr = v[1]
            tr = None if tr is None else (tr[1] if isinstance(tr, tuple) else tr)
            T.check("extracted-runner-vs-coq", bs == m["batches"] and tr == m["trailing"],
                    lambda: f"{cid}: Coq {short(v)} runner {short(m)}")
    if len(vals) >= len(expect) + 2:
        vv = vals[len(expect)]
        for v, g in zip(vs, vv):
            m = model.get(("VI", str(v)))
            if m:
                n += 1
                T.check("extracted-runner-vs-coq", [g[0] or "", g[1], g[2]] == [m["py"][0] or "", m["py"][1], m["py"][2]]
                        and [g[3] or "", g[4]] == [m["cy"][0] or "", m["cy"][1]],
                        lambda: f"varint {v}: Coq {g} runner {m}")
        cv = vals[len(expect) + 1]
        for (j, h), g in zip([(j, h) for j, h in enumerate(crcs[:8]) if len(h) < 300], cv):
            m = model.get(("CR", f"c{j}"))
            if m:
                n += 1
                T.check("extracted-runner-vs-coq", list(g) == [m["crc32c"], m["crc32"]], lambda: f"crc {h[:20]}: Coq {g} runner {m}")
    else:
        T.check("extracted-runner-vs-coq", False, f"expected {len(expect) + 2} values from Coq, got {len(vals)}")
    return n


def run_impl_safe(payload, env):
    """run_impl, but when the interpreter dies (a memory error in the compiled extension kills the
    whole process) re-run the shard case by case so that the input that kills it is identified"""
    try:
        return run_impl("c09_impl.py", payload, timeout=1500, env=env)
    except RuntimeError as e:
        first = str(e)[:300]
    out = {"v2": [], "legacy": [], "split": [], "where": None, "codecs": None}
    for kind in ("v2", "legacy", "split"):
        for case in payload.get(kind, []):
            try:
                o = run_impl("c09_impl.py", {kind: [case]}, timeout=600, env=env)
                out[kind].append(o[kind][0])
                out["where"], out["codecs"] = o["where"], o["codecs"]
            except RuntimeError as e:
                crash = {"exn": "ProcessCrash", "msg": str(e)[-300:]}
                out[kind].append(crash if kind == "split" else {"py": dict(crash), "cy": dict(crash)})
    for kind in ("varint", "crc"):
        if kind in payload:
            try:
                o = run_impl("c09_impl.py", {kind: payload[kind]}, timeout=600, env=env)
                out.update({k: v for k, v in o.items() if k in ("varint", "crc", "crc_table")})
                out["where"], out["codecs"] = o["where"], o["codecs"]
            except RuntimeError as e:
                out["crash_" + kind] = str(e)[-300:]
    if out["where"] is None:
        raise RuntimeError("implementation process cannot run at all: " + first)
    return out


def pipeline(ck, v2_cases, legacy_cases, split_cases, varints, decs, crcs, do_coq_sample=True):
    T = Tally()
    # ---- models: .vo up to date, extraction, runner
    okm, outm = ck.coq_make(["model/C09_Eval.vo"], timeout=900)
    ck.obligation("model:coq-models-compile", okm, "" if okm else common.tail(outm, 12))
    rc, out = sh([os.path.join(common.VERIF, "ocaml", "build_c09.sh")], timeout=900)
    runner = out.strip().splitlines()[-1] if rc == 0 and out.strip() else ""
    ck.obligation("model:extraction-builds", rc == 0 and os.path.exists(runner), "" if rc == 0 else out[-600:])
    ck.checker_cmds.append("ocaml/build_c09.sh (Extraction, ExtrOcamlBasic only) ; ocaml/gen/c09/c09_runner")
    tick(ck, "models+extraction")
    if rc != 0:
        return T
    # ---- implementation: fresh extension build, both implementations + reference in one process
    tmp = ck._c09_ext.result() if getattr(ck, "_c09_ext", None) else build_extension(ck)
    tick(ck, "extension-build(wait)")
    try:
        # AIOKAFKA_NO_EXTENSIONS=1: the _...Py classes then use the pure-Python varint / CRC helpers too
        # (otherwise record/util.py hands them the compiled helpers); the compiled classes are imported
        # explicitly from aiokafka.record._crecords by the script and are not affected by the variable
        env = {"PYTHONPATH": tmp, "AIOKAFKA_NO_EXTENSIONS": "1"}
        payload = {"v2": v2_cases, "legacy": legacy_cases, "split": split_cases,
                   "varint": {"values": varints, "decs": decs}, "crc": crcs}
        # shard the impl run over processes
        nsh = min(common.NPROC, max(1, (len(v2_cases) + len(legacy_cases) + len(split_cases)) // 20))
        shards = []
        for i in range(nsh):
            p = {"v2": v2_cases[i::nsh], "legacy": legacy_cases[i::nsh], "split": split_cases[i::nsh]}
            if i == 0:
                p["varint"] = payload["varint"]
                p["crc"] = crcs
            shards.append(p)
        with cf.ThreadPoolExecutor(max_workers=nsh) as ex:
            outs = list(ex.map(lambda p: run_impl_safe(p, env), shards))
        pure = {"split": []}
    finally:
        shutil.rmtree(tmp, ignore_errors=True)
    tick(ck, "implementation-runs")
    where = outs[0]["where"]
    ck.extra["implementation_under_test"] = where
    ck.extra["codecs"] = outs[0]["codecs"]
    in_tmp = where["aiokafka"].startswith(tmp) and where["ext"].startswith(tmp)
    ck.obligation("correspondence:extension-compiled-from-current-pyx", in_tmp, "" if in_tmp else f"imported from {where}")
    py_pure = where.get("python_side_varint") == "encode_varint_py" and "_DefaultRecordBatchPy" in where.get("python_side_batch", "")
    ck.obligation("correspondence:python-side-is-pure-python", py_pure, "" if py_pure else f"{where}")
    v2_res, legacy_res, split_res = {}, {}, {}
    for i, o in enumerate(outs):
        for c, r in zip(v2_cases[i::nsh], o.get("v2", [])):
            v2_res[c["id"]] = r
        for c, r in zip(legacy_cases[i::nsh], o.get("legacy", [])):
            legacy_res[c["id"]] = r
        for c, r in zip(split_cases[i::nsh], o.get("split", [])):
            split_res[c["id"]] = r
    split_pure = {c["id"]: r for c, r in zip(split_cases, pure.get("split", []))}
    vres = outs[0].get("varint", {"enc": [], "dec": []})
    cres = outs[0].get("crc", [])
    # ---- model evaluation (extracted runner)
    lines = []
    for c in v2_cases:
        lines += v2_requests(c, v2_res[c["id"]])
    for c in legacy_cases:
        r = legacy_res[c["id"]]
        c["_stamp_offset"] = {}
        for name in ("py", "cy"):
            acc = [rec for rec, s in zip(c["recs"], r.get(name, {}).get("steps", [])) if s[1] is not None]
            c["_stamp_offset"][name] = (c["stamp"]["base"] + (acc[-1][0] if acc else 0)) if c["stamp"] else 0
        lines += legacy_requests(c, r)
    for c in split_cases:
        r = split_res[c["id"]]
        if "buffer" in r:
            for d, D in (("py", "P"), ("cy", "C")):
                lines.append(f"SP {c['id']}/{d} {D} {r['buffer'] or '~'}")
    for v in varints:
        lines.append(f"VI {v} {v}")
    for j, (h, pos) in enumerate(decs):
        lines.append(f"VD {j} {h} {pos}")
    for j, h in enumerate(crcs):
        lines.append(f"CR c{j} {h or '~'}")
    model = run_runner(runner, lines)
    tick(ck, "model-runner")
    errs = [(k, v["error"]) for k, v in model.items() if isinstance(v, dict) and "error" in v]
    T.check("model-runner-ran", not errs and len(model) >= len(set(l.split()[0] + l.split()[1] for l in lines)),
            lambda: f"runner errors {errs[:3]}; {len(model)} answers for {len(lines)} requests")
    return T, v2_res, legacy_res, split_res, split_pure, vres, cres, model


def legacy_stamp_fix(legacy_cases):
    """the wrapper offset used for stamping depends on what the builder accepted; the impl
    script needs a concrete number: base + last accepted offset, computed per implementation
    there; we pass base and let the script add (see c09_impl.case_legacy)"""
    return legacy_cases


def load_corpus():
    out = {"v2": [], "legacy": [], "split": list(CORPUS_SPLIT)}
    d = os.path.join(common.VERIF, "corpus", "C09")
    for fn in sorted(glob.glob(os.path.join(d, "*.json"))):
        with open(fn) as f:
            doc = json.load(f)
        for k in out:
            out[k] += doc.get(k, [])
    return out


def run(ck: Check, only=None):
    ck.trusted += [
        "Coq 8.16.1 kernel (coqc); vm_compute in Examples (CRC check values, tables) and case evaluation",
        "translator/py2gallina.py for record/util.py varints (its output is evaluated against the real Python on every run)",
        "hand-written Gallina models of the v2 / v0-v1 builders and readers, the splitter and the cutil.pyx varints "
        "(coq/model/C09_*.v), tied to both implementations by this run's correspondence (bytes, append results, sizes, decoded records)",
        "OCaml extraction (ExtrOcamlBasic only, Z/positive/nat kept inductive) + ocaml/c09_driver.ml (text<->data conversions only); "
        "a sample of cases is re-evaluated inside Coq and compared with the runner",
        "independent reference codec harness/impl/c09_ref.py (struct/zlib; cramjam raw codecs for payloads) and the "
        "monitors' statement of the property",
        "compression libraries (zlib, cramjam): abstract in the theorems (decompress (compress x) = Some x), real on the implementation side",
        "C-level behaviour of the compiled extension beyond its observable results (memory safety is C10's subject)",
    ]
    ck.notes += [
        "valid inputs only (C10 covers hostile bytes): non-negative int64 timestamps, offsets 0..n-1, codecs 0..4 "
        "(v2) / 0..3 (legacy, LZ4 not with magic 0), producer fields in range",
        "implementation differences that are parameters of the model, not violations: batch-size limit predicate "
        "(py: size+required > limit and not first; cy: offset != 0 and pos+size >= limit), 'send uncompressed if not "
        "smaller' (py only), first/max timestamp of a record-less batch (py 0, cy -1)",
        "outside the property: encode_varint_py returns one less than the bytes written for encodings of 6..10 bytes "
        "(value unused by the builders); stated as c09_note_encode_return_value in props/C09.v",
    ]
    ck.cov["rule"] = ("one evaluation = one generated case run through both implementations, the model and the reference "
                      "(a v2/legacy case: builder with per-append size accounting, build, broker stamping, 2x2 cross decoding; "
                      "a split case: a concatenation of 1..6 batches of mixed magic + truncated tail through both splitters; "
                      "a varint/crc case: one value/string); non-trivial = at least one record or byte; distinct by full case content")
    rng = ck.rng
    # the extension is compiled from the current .pyx while Coq re-checks the proofs
    ext_pool = cf.ThreadPoolExecutor(max_workers=1)
    ck._c09_ext = ext_pool.submit(build_extension, ck)
    # --- (1) proofs over the regenerated translation
    ok_t, rep = ck.regenerate(["VarintEnc", "VarintSize", "VarintDec"])
    ok_p, out = ck.coq_props("C09", timeout=1500)
    check_codecs(ck)
    ck.log(f"translation ok={ok_t}, proofs ok={ok_p}")
    tick(ck, "translate+proofs")

    # --- (2) cases
    codecs_available = [1]
    try:
        import importlib.util
        rc, o = sh([common.PY, "-c", "import cramjam"], timeout=60)
        if rc == 0:
            codecs_available = [1, 2, 3, 4]
    except Exception:  # noqa: BLE001
        pass
    corpus = load_corpus()
    if only is None:
        v2_cases = corpus["v2"] + [gen_v2_case(rng, i, ck.thorough, codecs_available) for i in range(ck.n(400, 5000))]
        legacy_cases = corpus["legacy"] + [gen_legacy_case(rng, i, ck.thorough, codecs_available) for i in range(ck.n(200, 2500))]
        split_cases = corpus["split"] + [gen_split_case(rng, i, codecs_available) for i in range(ck.n(150, 2000))]
        varints, decs = gen_varints(rng, ck.n(450, 5000))
        crcs = gen_crc(rng, ck.n(40, 300))
    else:
        v2_cases, legacy_cases, split_cases = only.get("v2", []), only.get("legacy", []), only.get("split", [])
        varints, decs = only.get("varints", [0, 1, -1]), only.get("decs", [])
        crcs = only.get("crc", ["313233343536373839"])
    tick(ck, "generate")
    try:
        res = pipeline(ck, v2_cases, legacy_cases, split_cases, varints, decs, crcs)
    finally:
        fut = getattr(ck, "_c09_ext", None)
        if fut is not None:
            try:
                shutil.rmtree(fut.result(), ignore_errors=True)
            except Exception:  # noqa: BLE001
                pass
    if isinstance(res, Tally):
        return
    T, v2_res, legacy_res, split_res, split_pure, vres, cres, model = res

    hist = {"v2_codec": {}, "v2_records": {}, "legacy_magic_codec": {}, "split_batches": {}, "v2_refused": 0,
            "v2_stamped_lat": 0, "v2_uncompressed_fallback": 0}
    n_ok = 0
    for c in v2_cases:
        ok = check_v2_case(ck, T, c, v2_res[c["id"]], model)
        n_ok += ok
        k = CODEC_NAMES[c["cfg"]["codec"]]
        hist["v2_codec"][k] = hist["v2_codec"].get(k, 0) + 1
        b = "0" if not c["recs"] else "1" if len(c["recs"]) == 1 else "2-5" if len(c["recs"]) < 6 else "6+"
        hist["v2_records"][b] = hist["v2_records"].get(b, 0) + 1
        r = v2_res[c["id"]].get("py", {})
        hist["v2_refused"] += any(s[1] is None for s in r.get("steps", []))
        hist["v2_stamped_lat"] += c["stamp"]["lat"] is not None
        if c["cfg"]["codec"] and "bytes" in r and not int(r["bytes"][42:46], 16) & 7:
            hist["v2_uncompressed_fallback"] += 1
        ck.count(key=("v2", json.dumps(c, sort_keys=True)), nontrivial=bool(c["recs"]),
                 sample={"case": c["id"], "records": len(c["recs"]), "codec": k, "bytes": len(r.get("bytes", "")) // 2}
                 if len(c["recs"]) in (2, 3) else None)
    for c in legacy_cases:
        check_legacy_case(ck, T, c, legacy_res[c["id"]], model)
        k = f"v{c['cfg']['magic']}/{CODEC_NAMES[c['cfg']['codec']]}"
        hist["legacy_magic_codec"][k] = hist["legacy_magic_codec"].get(k, 0) + 1
        cc = {k2: v for k2, v in c.items() if not k2.startswith("_")}
        ck.count(key=("lg", json.dumps(cc, sort_keys=True)), nontrivial=bool(c["recs"]))
    for c in split_cases:
        check_split_case(ck, T, c, split_res[c["id"]], split_pure.get(c["id"]), model)
        nb = len((split_res[c["id"]].get("ref") or {}).get("batches", []))
        hist["split_batches"][str(nb)] = hist["split_batches"].get(str(nb), 0) + 1
        ck.count(key=("sp", json.dumps(c, sort_keys=True)), nontrivial=True,
                 sample={"case": c["id"], "batches": nb, "magics": [b["magic"] for b in (split_res[c["id"]].get("ref") or {}).get("batches", [])]}
                 if nb == 3 else None)
    # ---- varints: python, cython, translated model, cython model, reference
    for v, e in zip(varints, vres["enc"]):
        m = model.get(("VI", str(v)), {})
        refh = e["ref"]
        ok_py = isinstance(e["py"], list) and e["py"][0] == refh and e["py"][2] == len(refh) // 2
        ok_cy = isinstance(e["cy"], list) and e["cy"][0] == refh and e["cy"][1] == len(refh) // 2
        T.check("varint-translated-vs-python", isinstance(e["py"], list) and m.get("py") == e["py"],
                lambda: f"varint {v}: python {e['py']} translated model {m.get('py')}")
        T.check("varint-cython-vs-model", isinstance(e["cy"], list) and m.get("cy") == e["cy"],
                lambda: f"varint {v}: cython {e['cy']} model {m.get('cy')}")
        T.check("varint-spec-vs-reference", m.get("spec") == refh, lambda: f"varint {v}: spec {m.get('spec')} reference {refh}")
        if not (ok_py and ok_cy):
            ck.violation(f"C09 varint: encode/size of {v}: python {e['py']} cython {e['cy']} expected {refh} ({len(refh) // 2} bytes)",
                         {"kind": "varint", "value": v, "python": e["py"], "cython": e["cy"], "expected": refh},
                         signature=f"varint:{v}")
        ck.count(key=("vi", v), nontrivial=v != 0)
    for j, ((h, pos), e) in enumerate(zip(decs, vres["dec"])):
        m = model.get(("VD", str(j)), {})
        T.check("varint-decode-vs-model", m.get("py") == e["py"] and m.get("cy") == e["cy"],
                lambda: f"decode {h}@{pos}: impl {e} model {m}")
        if e["py"] != e["ref"] or e["cy"] != e["ref"]:
            ck.violation(f"C09 varint: decode of {h} at {pos}: python {e['py']} cython {e['cy']} expected {e['ref']}",
                         {"kind": "varint-decode", "buffer": h, "pos": pos, "observed": e}, signature=f"varint-dec:{h}:{pos}")
        ck.count(key=("vd", h, pos), nontrivial=True)
    for j, (h, e) in enumerate(zip(crcs, cres)):
        m = model.get(("CR", f"c{j}"), {})
        T.check("crc-vs-model", m.get("crc32c") == e[0] == e[1] == e[2] == e[4] and m.get("crc32") == e[3],
                lambda: f"crc of {h[:24]}...: impl/ref {e} model {m}")
        ck.count(key=("crc", h), nontrivial=bool(h))
    tick(ck, "compare+monitors")
    # ---- the runner against evaluation inside Coq
    nsample = coq_sample(ck, T, v2_cases, v2_res, legacy_cases, legacy_res, split_res, model, varints, crcs) if ok_p or True else 0
    ck.extra["coq_vm_compute_sample"] = nsample
    tick(ck, "coq-sample")
    # ---- obligations per correspondence class
    groups = {}
    for cls, n in T.n.items():
        groups.setdefault(cls, n)
    for cls in sorted(T.n):
        bad = T.bad.get(cls)
        ck.obligation(f"correspondence:{cls}", not bad, "" if not bad else " | ".join(str(b) for b in bad)[:900])
    ck.extra["correspondence_counts"] = T.n
    ck.extra["input_distribution"] = hist
    ck.log(f"cases: v2={len(v2_cases)} legacy={len(legacy_cases)} split={len(split_cases)} varint={len(varints)} "
           f"crc={len(crcs)}; mismatching classes: {sorted(T.bad)}; violations: {len(ck.violations)}")


def replay(ck: Check, path):
    with open(path) as f:
        doc = json.load(f)
    rp = doc.get("replay", doc)
    kind = rp.get("kind")
    only = {}
    if kind == "v2":
        only["v2"] = [rp["case"]]
    elif kind == "legacy":
        c = {k: v for k, v in rp["case"].items() if not k.startswith("_")}
        only["legacy"] = [c]
    elif kind == "split":
        only["split"] = [rp["case"]]
    elif kind == "varint":
        only["varints"] = [rp["value"]]
    elif kind == "varint-decode":
        only["decs"] = [[rp["buffer"], rp["pos"]]]
    else:
        print("replay file has no concrete input:", json.dumps(rp)[:400])
        return 1
    run(ck, only=only)
    return ck.finish()
