"""Scenario generation, sharded execution and trace projection for producer simulations
(shared by C01 and C02)."""
from __future__ import annotations

import concurrent.futures as cf
import json
import random

from common import NPROC, run_impl

RETRIABLE_CODES = [6, 5, 3, 7, 19]   # NOT_LEADER, LEADER_NOT_AVAILABLE, UNKNOWN_TOPIC_OR_PARTITION, REQUEST_TIMED_OUT, NOT_ENOUGH_REPLICAS
FAULT_KINDS = ["drop_before", "drop_after", "no_reply", "error", "delay"]


def gen_scenario(rng: random.Random, sid, idempotent=None, n_faults=None, **over):
    brokers = rng.choice([1, 2, 3])
    partitions = rng.choice([1, 2, 3])
    ntasks = rng.choice([1, 2, 3, 4])
    rid = 0
    tasks = []
    for t in range(ntasks):
        items = []
        for _ in range(rng.randrange(2, 9)):
            if rng.random() < 0.12:
                # explicit batch API with a user-held (open) builder, sometimes appended to afterwards
                k = rng.choice([1, 2, 3])
                it = {"send_batch": list(range(rid, rid + k)), "p": rng.randrange(partitions),
                      "sleep": rng.choice([0, 0.001, 0.05]), "yields": rng.choice([0, 1, 2, 3, 4])}
                rid += k
                if rng.random() < 0.6:
                    it["late"] = rid
                    rid += 1
                items.append(it)
                continue
            items.append({"rid": rid, "p": rng.randrange(partitions),
                          "sleep": rng.choice([0, 0, 0.001, 0.01, 0.1, 0.5]),
                          "ts": rng.choice([None, None, 5000 + rng.randrange(100000)]),
                          "size": rng.choice([0, 0, 10, 150]),
                          "hdr": rng.random() < 0.3})
            rid += 1
        tasks.append(items)
    if idempotent is None:
        idempotent = rng.random() < 0.7
    nf = rng.choice([0, 1, 1, 2, 3, 5]) if n_faults is None else n_faults
    faults = {}
    for _ in range(nf):
        o = rng.randrange(1, 14)
        kind = rng.choice(FAULT_KINDS)
        f = {"kind": kind}
        if kind == "error":
            f["code"] = rng.choice(RETRIABLE_CODES)
        if kind == "delay":
            f["delay"] = rng.choice([0.05, 0.5, 1.5])
        faults[str(o)] = f
    sc = {"id": sid, "seed": rng.randrange(1 << 30), "brokers": brokers, "partitions": partitions,
          "ts_type": rng.choice([0, 0, 1]), "idempotent": idempotent,
          "acks": rng.choice([1, 1, -1, "all"]) if not idempotent else "all",
          "linger_ms": rng.choice([0, 0, 5, 50]),
          "max_batch_size": rng.choice([120, 300, 16384]),
          "compression": rng.choice([None, None, "gzip"]),
          "request_timeout_ms": 2000, "retry_backoff_ms": 50,
          "tasks": tasks, "faults": faults, "migrations": [], "leaderless": []}
    if brokers > 1 and rng.random() < 0.35:
        sc["migrations"].append({"at": rng.choice([0.005, 0.05, 0.3, 1.0]),
                                 "partition": rng.randrange(partitions), "to": rng.randrange(brokers)})
    if rng.random() < 0.15:
        sc["leaderless"].append({"at": rng.choice([0.0, 0.01, 0.2]), "partition": rng.randrange(partitions),
                                 "for": rng.choice([0.3, 1.0])})
    sc.update(over)
    return sc


def old_broker(sc, rng):
    """the same scenario against an older broker release (an idempotent producer needs one with InitProducerId)"""
    from simkit import profiles
    names = profiles.TRANSACTIONAL if sc.get("idempotent") else list(profiles.BROKER_PROFILES)
    name = rng.choice(names)
    sc["api_ranges"] = profiles.api_ranges(name)
    if name.startswith("0.10") and sc.get("compression") not in (None, "gzip"):
        sc["compression"] = None
    sc["family"] = "old-broker:" + name
    return sc


def run_scenarios(scs, timeout=900, shards=None):
    """Run scenarios in parallel worker processes; returns results in input order."""
    if not scs:
        return []
    shards = shards or min(NPROC, max(1, len(scs) // 4))
    chunks = [scs[i::shards] for i in range(shards)]
    res = {}
    with cf.ThreadPoolExecutor(max_workers=shards) as ex:
        futs = [ex.submit(run_impl, "producer_sim.py", {"scenarios": ch}, timeout,
                          {"AIOKAFKA_NO_EXTENSIONS": "1"}) for ch in chunks if ch]
        for fu in futs:
            for r in fu.result()["results"]:
                res[r["id"]] = r
    return [res.get(sc["id"], {"id": sc["id"], "ok": False, "error": "no result"}) for sc in scs]


def project(result, part):
    """Per-partition model trace (constructor names of Producer.ev) + observed verdict list."""
    tr = []
    verdicts = []
    empty = set()
    for e in result["trace"]:
        k = e["ev"]
        if k.startswith("c_"):
            if e["tp"][1] != part:
                continue
            if k == "c_accept":
                tr.append(("Accept", e["rid"], bool(e["newb"])))
            elif k == "c_drain":
                if e.get("n") == 0:
                    # an EMPTY batch (every append() into it was rejected by the record builder): it is popped and
                    # resolved on the spot, never sent - not a step of the batch life-cycle
                    empty.add(e["bid"])
                    continue
                tr.append(("Drain",))
            elif k in ("c_ok", "c_fatal") and e.get("bid") in empty:
                empty.discard(e["bid"])
            elif k == "c_ok":
                tr.append(("ReplyOk",))
            elif k == "c_retry":
                tr.append(("ReplyRetry",))
            elif k == "c_fatal":
                tr.append(("ReplyFatal",))
        elif k == "arrive" and e.get("partition") == part:
            v = e["verdict"]
            if v in ("appended", "duplicate", "out_of_order"):
                tr.append(("Arrive",))
                verdicts.append({"appended": "Appended", "duplicate": "Duplicate",
                                 "out_of_order": "OutOfOrder"}[v])
    return tr, verdicts


def coq_trace(tr):
    out = []
    for e in tr:
        if e[0] == "Accept":
            out.append(f"Accept {e[1]}%nat {'true' if e[2] else 'false'}")
        elif e[0] == "FlushRet":
            out.append("FlushRet")
        else:
            out.append(e[0])
    return "[" + "; ".join(out) + "]"
