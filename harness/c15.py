"""C15 — sticky assignor keeps assignments that need not move.

(1) proofs: coq/props/C15.v (StickyCtl level: unchanged-input fixpoint, members-left clause,
    refutation of the members-joined clause, consistent user data);
(2) correspondence / search: two consecutive REAL assign() calls — the second one fed with the
    first result through the real user-data encoding (StickyAssignorUserDataV1 inside
    ConsumerProtocolMemberMetadata, encoded and decoded) — for every first round of C14's
    bounded space followed by (a) the identical round, and, when all members subscribe to the
    same topics, (b) minus every non-empty proper subset of members, (c) plus 1..2 members;
    bounded two-step chains and random chains of up to 5 rounds; sampled second rounds go
    through the StickyCtl log check and `moved_among` is evaluated by the extracted / in-Coq
    runner and compared with the monitor;
(3) independent monitors: the three clauses of C15 stated on the two real outputs."""
import collections
import json
import re
import os
import sys
import time

sys.path.insert(0, os.path.join(os.path.dirname(os.path.abspath(__file__)), "impl"))
import c14_space as S  # noqa: E402
import c14  # noqa: E402
from c14 import (SIG_SUB_ORDER, SIG_UNSUB_TOPIC, Tally, viol, enc_kind2, ensure_runner, mon_kip54,  # noqa: E402
                 mon_valid, run_coq, run_ocaml, settle, split_jobs, triples_of_out)
from common import NPROC, VERIF, Check, parse_eval_outputs, run_impl  # noqa: E402


# =============================================================================== monitors
def owner_map(out):
    return {(t, p): m for m, a in out for t, ps in a for p in ps}


def moved_between(keep, out1, out2):
    """partitions owned in out1 by a member of keep whose owner in out2 is another member of
    keep: [(t, p, from, to)]"""
    o1, o2 = owner_map(out1), owner_map(out2)
    keep = set(keep)
    return [(tp[0], tp[1], o1[tp], o2[tp]) for tp in o1
            if o1[tp] in keep and tp in o2 and o2[tp] != o1[tp] and o2[tp] in keep]


def classify(case2):
    """input class of the defect fixed by /repo 2a32c57 (regression signatures, no longer listed
    as known), if the violation falls in one"""
    subscribed = {t for _, s in case2["members"] for t in s}
    if any(n for t, n in enumerate(case2["ppt"]) if n and t not in subscribed):
        return SIG_UNSUB_TOPIC
    lists = {tuple(s) for _, s in case2["members"]}
    if len(lists) > 1 and len({frozenset(s) for s in lists}) == 1:
        return SIG_SUB_ORDER
    return None


def check_round_pair(ck, kind, case1, out1, case2, out2, tally, origin, extra=None):
    """the clauses of C15 on two consecutive real results"""
    rp = {"origin": origin, "kind": kind, "first": case1, "first_result": out1,
          "second": case2, "second_result": out2}
    if extra:
        rp.update(extra)
    ids1 = [m for m, _ in case1["members"]]
    ids2 = [m for m, _ in case2["members"]]
    tally.n["rounds:" + kind] += 1
    if kind == "same":
        if owner_map(out1) != owner_map(out2):
            chg = [(tp, o, owner_map(out2).get(tp)) for tp, o in owner_map(out1).items()
                   if owner_map(out2).get(tp) != o]
            viol(ck, f"unchanged input, but the sticky assignor changed its assignment: {chg[:3]}",
                         dict(rp, changed=chg[:10]),
                         signature=f"sticky-unchanged:{S.case_key(case2)}"[:200])
        return
    if not S.identical_sets(case1["members"] + case2["members"]):
        return
    if kind == "minus":
        keep = ids2
        what = "between surviving members"
    else:
        keep = ids1
        what = "between old members"
    mv = moved_between(keep, out1, out2)
    if mv:
        sig = classify(case2)
        viol(ck, f"identical subscriptions, members {'left' if kind == 'minus' else 'joined'}: "
                     f"partition {mv[0][0]}-{mv[0][1]} moved {what} ({mv[0][2]} -> {mv[0][3]})",
                     dict(rp, moved=mv[:10]),
                     signature=sig or f"sticky-{kind}:{S.case_key(case2)}"[:200])
        tally.n["violations:" + kind + (":known-class" if sig else ":NEW")] += 1
    # independent count of what had to move: with identical subscriptions and a valid,
    # within-one first round the orphaned partitions (minus) / the new members' shares (plus)
    # are the only ones whose owner may differ
    return mv


def second_valid(ck, case2, st2, origin, tally):
    if "exc" in st2:
        viol(ck, f"sticky assign() raised {st2['exc']} on a second round",
                     {"origin": origin, "case": case2, "real": st2},
                     signature=f"sticky-crash-second:{S.case_key(case2)}"[:200])
        return False
    bad = mon_valid(case2, st2["out"]) + mon_kip54(case2, st2["out"])
    if bad:
        viol(ck, f"second-round result violates C14: {bad[0]}",
                     {"origin": origin, "case": case2, "real": st2["out"], "flaws": bad[:5]},
                     signature=f"sticky-second-invalid:{S.case_key(case2)}"[:200])
        return False
    return True


# =============================================================================== chains
def chain_steps(rng, first, n_steps, order_noise=False, keep_identical=True):
    """random membership history: same / minus / plus(1..2) / (optionally) a change of
    subscription or of a partition count"""
    members = [list(m) for m in first["members"]]
    ppt = list(first["ppt"])
    nxt = max(m for m, _ in members) + 1
    steps = []
    departed = []          # members that left earlier: they may come back still claiming their old assignment
    for _ in range(n_steps):
        kinds = ["same", "minus", "plus"] if keep_identical else ["same", "minus", "plus", "subs", "parts"]
        k = rng.choice(kinds)
        returning = []
        if k == "minus" and len(members) > 1:
            gone = set(rng.sample([m for m, _ in members], rng.randint(1, len(members) - 1)))
            departed += [m for m in members if m[0] in gone]
            members = [m for m in members if m[0] not in gone]
        elif k == "plus" and len(members) < 12:
            for _j in range(rng.randint(1, 2)):
                if departed and rng.random() < 0.5:
                    # a member that missed one or more generations re-joins with its stale user data
                    back = departed.pop(rng.randrange(len(departed)))
                    members = members + [[back[0], list(back[1])]]
                    returning.append(back[0])
                    continue
                s = list(members[0][1]) if keep_identical else sorted(rng.sample(range(len(ppt)), rng.randint(1, len(ppt))))
                if order_noise:
                    rng.shuffle(s)
                members = members + [[nxt, s]]
                nxt += 1
        elif k == "subs":
            i = rng.randrange(len(members))
            members[i] = [members[i][0], sorted(rng.sample(range(len(ppt)), rng.randint(1, len(ppt))))]
        elif k == "parts":
            t = rng.randrange(len(ppt))
            ppt = list(ppt)
            ppt[t] = rng.choice([None, 0, 1, 2, 5, 12, (ppt[t] or 0) + 1])
        else:
            k = "same"
        st = {"kind": k, "ppt": list(ppt), "members": [list(m) for m in members]}
        if returning:
            st["returning"] = returning
        steps.append(st)
    return steps


def rnd_first(rng, identical, extra_topic, max_m=12, max_t=8, max_p=12):
    T = rng.randint(1, max_t)
    M = rng.randint(1, max_m)
    ppt = [rng.choice([None] + list(range(0, max_p + 1)) * 3) for _ in range(T)]
    if identical:
        if extra_topic:
            s0 = sorted(rng.sample(range(T), rng.randint(1, T)))
        else:
            s0 = list(range(T))
            ppt = [(n if n is not None else 0) for n in ppt]
        members = [[m, list(s0)] for m in range(M)]
    else:
        members = [[m, sorted(rng.sample(range(T), rng.randint(1, T)))] for m in range(M)]
    return {"ppt": ppt, "members": members}


def classify_step(prev_members, members):
    a, b = {m for m, _ in prev_members}, {m for m, _ in members}
    if a == b:
        return "same" if prev_members == members else "other"
    if b < a and all(m in prev_members for m in members):
        return "minus"
    if a < b and all(m in members for m in prev_members):
        return "plus"
    return "other"


def stale_claims(case):
    gens = {c[0] for c in (case.get("claims") or []) if c}
    return len(gens) > 1


def check_conflicts_by_generation(ck, case, st, origin, hist):
    """mechanism 'previous owners recovered from user data, conflicts resolved by generation', stated on the
    assignor's own starting point (recorded by the op-log wrapper): a partition claimed by several members
    starts with the claimant of the newest generation, the runner-up is remembered as its previous owner"""
    subs = {m: set(s) for m, s in case["members"]}
    ppt = case["ppt"]
    claimants = {}
    for (m, _s), cl in zip(case["members"], case.get("claims") or []):
        if not cl:
            continue
        g, parts = cl
        for t, p in parts:
            if t < len(ppt) and ppt[t] is not None and p < ppt[t] and t in subs[m]:
                claimants.setdefault((t, p), []).append((g, m))
    init = {(t, p): m for m, t, p in st["init"]}
    prevo = {(t, p): m for t, p, m in st["prev"]}
    for tp, cl in claimants.items():
        gs = sorted(cl, reverse=True)
        if len(gs) < 2 or gs[0][0] == gs[1][0]:
            continue
        want_cur, want_prev = gs[0][1], gs[1][1]
        if init.get(tp) != want_cur or prevo.get(tp) != want_prev:
            viol(ck, f"partition {tp[0]}-{tp[1]} is claimed by member {want_cur} (generation {gs[0][0]}) and by member "
                     f"{want_prev} (older generation {gs[1][0]}): the assignor starts from owner {init.get(tp)} / previous "
                     f"owner {prevo.get(tp)} instead of {want_cur} / {want_prev}",
                 {"origin": origin, "case": case, "history": hist[:-1], "partition": list(tp),
                  "claimants": [list(x) for x in gs]},
                 signature=f"sticky-conflict-not-by-generation:{S.case_key(case)}"[:200])
            return


ORDER_CASES = []      # (counts, owners, python verdict) of every recorded candidate order, for the in-Coq evaluation


def order_ok_py(counts, owners):
    """mirror of C15_Order.order_ok (the Coq definition decides a sample of the same data; both must agree)"""
    l = list(counts)
    for c in owners:
        if not (0 <= c < len(l)) or l[c] <= 0 or l[c] != max(l):
            return False
        l[c] -= 1
    return True


def check_candidate_order(ck, case, st, origin, hist, tally):
    """mechanism of the 'members joined' clause: with identical subscriptions the reassignment candidates are listed
    one per turn from a member holding the most not-yet-listed partitions (C15_Order.order_ok; theorem
    c15_heaviest_first_lockstep is about exactly such orders)"""
    od = st.get("order")
    if not od:
        return
    ok = order_ok_py(od["counts"], od["owners"]) and len(od["owners"]) == sum(od["counts"])
    tally.n["candidate-orders:ok" if ok else "candidate-orders:bad"] += 1
    if len(ORDER_CASES) < 4000 or not ok:
        ORDER_CASES.append((od["counts"], od["owners"], ok))
    if not ok:
        viol(ck, f"identical subscriptions: the sticky assignor lists its reassignment candidates out of lock-step - "
                 f"members {od['members']} hold {od['counts']} assignable partitions and the candidates are taken from "
                 f"members (by index) {od['owners']}: some member gives up a partition while another one holds more, so "
                 f"old members are drained unevenly and partitions move between them when members join",
             {"origin": origin, "case": case, "history": hist[:-1], "order": od},
             signature=f"sticky-candidate-order-not-heaviest-first:{S.case_key(case)}"[:200])


def check_chain(ck, rounds, tally, streams, origin):
    """rounds: [{"case":…, "sticky":…}] as returned by the impl"""
    prev = None
    hist = []
    for i, rd in enumerate(rounds):
        case, st = rd["case"], rd["sticky"]
        hist.append({"ppt": case["ppt"], "members": case["members"]})
        if not second_valid(ck, case, st, origin, tally):
            break
        ck.count(key=("chain", S.case_key(case)), nontrivial=bool(st.get("final")),
                 sample={"origin": origin, "round": i, "case": case, "result": st["out"]} if i == 2 else None)
        check_candidate_order(ck, case, st, origin, hist, tally)
        stale = stale_claims(case)
        if stale and "init" in st:
            check_conflicts_by_generation(ck, case, st, origin, hist)
            tally.n["rounds:stale-claims"] += 1
        if prev is not None:
            pc, pst = prev
            kind = classify_step(pc["members"], case["members"])
            unchanged_layout = pc["ppt"] == case["ppt"]
            if stale and kind == "plus":
                # a member that missed generations re-joins with its old claims: the assignor then prefers to hand
                # partitions back to that previous owner (KIP-341), which may cascade among the others; the
                # 'plus' clause speaks of NEW members (no previous assignment) - checked on the other rounds
                kind = "other"
            if kind in ("same", "minus", "plus") and unchanged_layout:
                mv = check_round_pair(ck, kind, pc, pst["out"], case, st["out"], tally, origin,
                                      extra={"history": hist[:-1], "round": i})
                if kind != "same" and mv is not None:
                    keep = [m for m, _ in (case["members"] if kind == "minus" else pc["members"])]
                    streams.append((enc_kind2(keep, triples_of_out(pst["out"]), triples_of_out(st["out"])),
                                    ("k2", {"case": case, "kind": kind}, len(mv))))
        if "init" in st:
            c14.check_sticky(ck, case, st, tally, streams, origin)
        prev = (case, st)


# =============================================================================== run
def run(ck: Check):
    t_start = time.time()
    ck.trusted += [
        "Coq 8.16.1 kernel (coqc); vm_compute for the sampled in-Coq evaluation and the _refuted witness",
        "OCaml extraction of C14_Run.run_case (ExtrOcamlBasic only) for the volume evaluation; a sample is re-evaluated inside Coq",
        "harness/impl/c14_impl.py: second rounds claim what the previous REAL round returned, encoded by StickyPartitionAssignor._metadata and sent through ConsumerProtocolMemberMetadata.encode()/decode(); the op-log wrappers of C14",
        "the user-data codec is not modelled in Coq: tied by correspondence (what the real executor parsed == init_current of the claims that were sent)",
        "StickyCtl abstracts the visiting order of partitions (sorted_partitions); the members-joined clause depends on that order and is therefore only searched (exhaustively over the bounded space and two-step chains, randomly beyond), not proved",
        "model/C15_Order.v: the candidate order of the identical-subscription branch as a predicate on (partition counts, owners of the listed candidates); which partition of a member is listed is abstracted (the code uses set.pop()); tied to the code by evaluating the predicate on the real executor's sorted_partitions (wrapper around _populate_sorted_partitions), inside Coq on a sample and by a Python mirror on all, the two compared",
    ]
    ck.cov["rule"] = (
        "every first round of C14's bounded space (<= 3 topics x (none | 0..4 partitions) x <= 3 members (thorough: 4) x every "
        "non-empty subscription) followed by the identical round; when all members subscribe alike also minus every "
        "non-empty proper subset of members and plus 1..2 members; exhaustive two-step chains over identical-subscription "
        "inputs; random chains of up to 5 rounds (<= 12 members, 8 topics, 12 partitions; same/minus/plus; also "
        "subscription-order noise, unsubscribed cluster topics, changing subscriptions/partition counts); distinct by "
        "(layout, members, claims) of the later round; non-trivial when something is assigned")
    ok_p, _ = ck.coq_props("C15")
    have_runner = ensure_runner(ck)
    tally = Tally()
    rng = ck.rng
    streams = []

    # ---------------- corpus (known findings replayed first)
    corpus = load_corpus()
    if corpus:
        res = run_impl("c14_impl.py", {"jobs": [{"kind": "chains", "chains": corpus}]})[0]
        for rounds in res:
            check_chain(ck, rounds, tally, streams, "corpus")
        # Example c15_plus_regression states the op log of the fixed code on round 3 of the [1, 5] chain
        wi = next((i for i, ch in enumerate(corpus) if ch["first"]["ppt"] == [1, 5]), None)
        if wi is not None:
            st = res[wi][2]["sticky"] if len(res[wi]) == 3 else {}
            ck.obligation("regression:c15_plus_regression-log==real-log",
                          st.get("assigns") == [] and st.get("reassigns") == [[1, 2, 2, 1, 2]] and st.get("reverted") == 0
                          and sorted(map(tuple, st.get("init", []))) == [(0, 1, 0), (0, 1, 1), (0, 1, 2), (1, 1, 3), (1, 1, 4)],
                          json.dumps(st)[:300])

    # ---------------- exhaustive: first round x second rounds
    max_m = ck.n(3, 4)
    blocks = S.space_blocks(3, max_m)
    log_every = ck.n(40, 150)
    n_first = n_second = 0
    t_impl = t_mon = 0.0
    batches, cur, cur_n = [], [], 0
    for b in blocks:
        cur.append(b)
        cur_n += S.space_size(b[0], b[1])
        if cur_n >= 120000:
            batches.append(cur)
            cur, cur_n = [], 0
    if cur:
        batches.append(cur)
    for batch in batches:
        jobs = split_jobs(batch, NPROC)
        t0 = time.time()
        res = run_impl("c14_impl.py", {"jobs": [{"kind": "pairs", "blocks": j, "log_every": log_every,
                                                 "offset": 7 * i} for i, j in enumerate(jobs)],
                                       "procs": NPROC}, timeout=3000)
        t_impl += time.time() - t0
        t0 = time.time()
        for j, r in zip(jobs, res):
            it = iter(r)
            for (T, M, li) in j:
                for case in S.block_cases(T, M, li):
                    pr = next(it)
                    n_first += 1
                    st1 = pr["first"]
                    if "exc" in st1:
                        viol(ck, f"sticky assign() raised {st1['exc']}", {"case": case, "real": st1},
                                     signature=f"sticky-crash:{S.case_key(case)}"[:200])
                        continue
                    for (kind, members2, arg), st2 in zip(S.second_rounds(case), pr["second"]):
                        n_second += 1
                        case2 = {"ppt": case["ppt"], "members": members2,
                                 "claims": c14_claims(st1["out"], members2, 1)}
                        if not second_valid(ck, case2, st2, "exhaustive", tally):
                            continue
                        nt = c14.nontrivial(case2)
                        ck.count(key=(kind, S.case_key(case2)), nontrivial=nt,
                                 sample={"origin": "exhaustive", "kind": kind, "first": case, "first_result": st1["out"],
                                         "second_members": members2, "second_result": st2["out"]}
                                 if nt and kind != "same" and len(members2) > 1 else None)
                        mv = check_round_pair(ck, kind, case, st1["out"], case2, st2["out"], tally, "exhaustive")
                        if "init" in st2:
                            c14.check_sticky(ck, case2, st2, tally, streams, "exhaustive-second")
                            if kind != "same" and mv is not None:
                                keep = [m for m, _ in (members2 if kind == "minus" else case["members"])]
                                streams.append((enc_kind2(keep, triples_of_out(st1["out"]), triples_of_out(st2["out"])),
                                                ("k2", {"case": case2, "kind": kind}, len(mv))))
        t_mon += time.time() - t0
    ck.extra["exhaustive_first_rounds"] = n_first
    ck.extra["exhaustive_second_rounds"] = n_second
    ck.log(f"exhaustive: {n_first} first rounds, {n_second} second rounds; real code {t_impl:.1f}s, monitors {t_mon:.1f}s")

    # ---------------- exhaustive two-step chains over identical-subscription inputs
    chains = []
    max_t2 = ck.n(2, 3)
    for T in range(1, max_t2 + 1):
        for lay in S.layouts(T):
            for sub in S.subsets(T):
                for M in range(1, 4):
                    first = {"ppt": lay, "members": [[m, list(sub)] for m in range(M)]}
                    for k1, m1, _ in S.second_rounds(first):
                        if len(m1) > 4:
                            continue
                        c1 = {"ppt": lay, "members": m1}
                        for k2, m2, _ in S.second_rounds(c1):
                            if k1 == "same" and k2 == "same":
                                continue
                            chains.append({"first": first, "steps": [{"ppt": lay, "members": m1},
                                                                     {"ppt": lay, "members": m2}]})
    # ---------------- random chains
    n_chains = ck.n(1500, 20000)
    for i in range(n_chains):
        mode = i % 4
        first = rnd_first(rng, identical=(mode != 3), extra_topic=(mode == 1))
        if mode == 2:
            for m in first["members"]:
                rng.shuffle(m[1])
        steps = chain_steps(rng, first, rng.randint(1, 4), order_noise=(mode == 2), keep_identical=(mode != 3))
        ch = {"first": first, "steps": steps}
        if i % 3 == 1:
            # a mixed group: some members announce subscription-metadata version 1..3 (other client libraries)
            ids = {m for m, _ in first["members"]} | {m for st in steps for m, _ in st["members"]}
            ch["mdver"] = {str(m): rng.choice([0, 1, 1, 2, 3]) for m in ids}
        chains.append(ch)
    ck.log(f"chains: {len(chains)} ({len(chains) - n_chains} exhaustive two-step, {n_chains} random)")
    # only every few chains record the op log and go through the (costlier) model side
    every = ck.n(8, 40)
    for idx, ch in enumerate(chains):
        ch["log"] = int(idx % every == 0 or any(st.get("returning") for st in ch["steps"]))
    jobs = [chains[i::NPROC] for i in range(NPROC)]
    t0 = time.time()
    res = run_impl("c14_impl.py", {"jobs": [{"kind": "chains", "chains": j} for j in jobs], "procs": NPROC},
                   timeout=3000)
    ck.log(f"chains: real code {time.time() - t0:.1f}s")
    n_rounds = 0
    for ji, (j, r) in enumerate(zip(jobs, res)):
        for ci, rounds in enumerate(r):
            idx = ci * NPROC + ji
            origin = "two-step-exhaustive" if idx < len(chains) - n_chains else "random-chain"
            check_chain(ck, rounds, tally, streams, origin)
            n_rounds += len(rounds)
    ck.extra["chain_rounds"] = n_rounds

    # ---------------- model side on the sampled rounds
    if have_runner and streams:
        results = run_ocaml([s for s, _ in streams])
        settle(ck, tally, streams, results, "ocaml")
    n_coq = ck.n(300, 5000)
    sample = streams if len(streams) <= n_coq else rng.sample(streams, n_coq)
    coq_res, err = run_coq(ck, "c15_cases", [s for s, _ in sample])
    if coq_res is None:
        ck.obligation("correspondence:in-coq-evaluation-ran", False, err)
    else:
        settle(ck, tally, sample, coq_res, "coq")
    ck.extra["model_side_cases"] = len(streams)
    ck.extra["in_coq_cases"] = len(sample)
    for eng in (["ocaml"] if have_runner else []) + (["coq"] if coq_res is not None else []):
        for what in ("sticky-init_current", "sticky-oplog-accepted-by-StickyCtl", "sticky-oplog-is-StickyAbs-run",
                     "sticky-checkers-agree-with-monitors", "moved_among"):
            k = f"{eng}:{what}"
            n_ok, n_bad = tally.n[k + ":ok"], tally.n[k + ":bad"]
            ck.obligation(f"correspondence:{what}[{eng}]", n_bad == 0 and n_ok > 0,
                          f"{n_ok} agree" if n_bad == 0 else f"{n_bad} of {n_ok + n_bad} disagree; first: {tally.detail(k)}")
    # ---------------- the recorded candidate orders, decided inside Coq (C15_Order.order_ok by vm_compute)
    ORDER_CASES.sort(key=lambda x: (x[2], -len(x[1])))          # rejected ones first, then the longest
    osample = ORDER_CASES[:ck.n(1500, 4000)]
    if osample:
        nat_list = lambda xs: "[" + "; ".join(str(max(x, 0)) if x >= 0 else "999" for x in xs) + "]%nat"  # noqa: E731
        body = "Eval vm_compute in (map (fun p => order_ok (fst p) (snd p)) [" + ";\n ".join(
            f"({nat_list(c)}, {nat_list(o)})" for c, o, _ in osample) + "]).\n"
        okc, out = ck.coq_eval("c15_orders", ["C15_Order"], body)
        vals = re.findall(r"true|false", " ".join(parse_eval_outputs(out))) if okc else []
        agree = okc and len(vals) == len(osample) and all((v == "true") == ok for v, (_, _, ok) in zip(vals, osample))
        ck.obligation("correspondence:candidate-order-checker(python)==C15_Order.order_ok(coq)", agree,
                      "" if agree else f"coq ok={okc}, {len(vals)} verdicts for {len(osample)} orders: {out[-300:]}")
    ck.obligation("correspondence:sorted_partitions-is-heaviest-first-one-per-turn",
                  tally.n["candidate-orders:bad"] == 0 and tally.n["candidate-orders:ok"] > 0,
                  f"{tally.n['candidate-orders:ok']} orders accepted, {tally.n['candidate-orders:bad']} rejected")
    ck.extra["counters"] = dict(tally.n)
    ck.extra["timing_s"] = {"total": round(time.time() - t_start, 1)}


def c14_claims(out_conv, members, gen):
    byid = {m: a for m, a in out_conv}
    return [[gen, [[t, p] for t, ps in byid[m] for p in ps]] if m in byid else None for m, _ in members]


def load_corpus():
    d = os.path.join(VERIF, "corpus", "C15")
    out = []
    if os.path.isdir(d):
        for fn in sorted(os.listdir(d)):
            if fn.endswith(".json"):
                with open(os.path.join(d, fn)) as f:
                    doc = json.load(f)
                out += doc["chains"]
    return out


def replay(ck: Check, path):
    doc = json.load(open(path))
    rp = doc.get("replay", doc)
    if "first" in rp and "second" in rp:
        chain = {"first": rp["first"], "steps": [{"ppt": rp["second"]["ppt"], "members": rp["second"]["members"]}]}
        if rp.get("history"):
            h = rp["history"]
            chain = {"first": h[0], "steps": h[1:] + [{"ppt": rp["second"]["ppt"], "members": rp["second"]["members"]}]}
            if "claims" in rp["first"] and len(h) == 1:
                chain["first"] = rp["first"]
    else:
        chain = {"first": rp["case"], "steps": []}
    rounds = run_impl("c14_impl.py", {"jobs": [{"kind": "chains", "chains": [chain]}]})[0][0]
    print(json.dumps(rounds, indent=1)[:6000])
    tally = Tally()
    check_chain(ck, rounds, tally, [], "replay")
    return ck.finish()
