"""Shared machinery of the checks: Coq build / evaluation, evidence, known findings, replay.

Every check is a module harness/cNN.py exposing `run(ck: Check)`.  bin/check drives it.
"""
from __future__ import annotations

import hashlib
import json
import os
import random
import re
import shutil
import subprocess
import sys
import tempfile
import time

VERIF = os.path.dirname(os.path.dirname(os.path.abspath(__file__)))
REPO = os.environ.get("VERIF_REPO", "/repo")
COQ = os.path.join(VERIF, "coq")
PY = os.environ.get("VERIF_PYTHON", "/venv/bin/python")
NPROC = int(os.environ.get("VERIF_JOBS", "16"))

COQ_INCLUDES = ["-Q", "lib", "Verif", "-Q", "model", "Verif", "-Q", "gen", "Verif",
                "-Q", "proof", "Verif", "-Q", "props", "Verif", "-Q", "run", "VerifRun"]


def sh(cmd, cwd=None, timeout=600, env=None, input=None):
    e = dict(os.environ)
    e.setdefault("PYTHONHASHSEED", "0")
    if env:
        e.update(env)
    try:
        p = subprocess.run(cmd, cwd=cwd, env=e, stdout=subprocess.PIPE, stderr=subprocess.STDOUT,
                           timeout=timeout, text=True, input=input, shell=isinstance(cmd, str))
        return p.returncode, p.stdout
    except subprocess.TimeoutExpired as ex:
        out = ex.stdout or ""
        if isinstance(out, bytes):
            out = out.decode(errors="replace")
        return 124, out + f"\n[timeout after {timeout}s]"


def repo_env(extra=None):
    """Environment for running the implementation from the current /repo tree."""
    e = {"PYTHONPATH": REPO, "PYTHONHASHSEED": "0", "AIOKAFKA_VERIF": "1"}
    if extra:
        e.update(extra)
    return e


class Violation:
    def __init__(self, what, replay, signature=None, no_input=False):
        self.what = what
        self.replay = replay      # dict written to the replay file
        self.signature = signature or what
        self.no_input = no_input


class Check:
    def __init__(self, pid, tier="quick", seed=0):
        self.pid = pid
        self.tier = tier
        self.seed = seed
        self.rng = random.Random(seed)
        self.t0 = time.time()
        self.obligations = []     # (name, ok, detail)
        self.assumptions_text = {}
        self.violations = []
        self.known = []
        self.cov = {"evaluations": 0, "distinct_nontrivial": 0, "rule": "", "samples": []}
        self.extra = {}
        self.trusted = []
        self.notes = []
        self._distinct = set()
        self.checker_cmds = []
        self.log_lines = []

    # ------------------------------------------------------------------ logging
    def log(self, *a):
        s = " ".join(str(x) for x in a)
        self.log_lines.append(s)
        print(s, flush=True)

    @property
    def thorough(self):
        return self.tier == "thorough"

    def n(self, quick, thorough):
        return thorough if self.thorough else quick

    # ------------------------------------------------------------------ coverage counters
    def count(self, key=None, nontrivial=True, sample=None, n=1):
        """One evaluation; `key` identifies distinct cases (hashable / json-able)."""
        self.cov["evaluations"] += n
        if nontrivial and key is not None:
            h = hashlib.blake2b(repr(key).encode(), digest_size=8).digest()
            if h not in self._distinct:
                self._distinct.add(h)
                self.cov["distinct_nontrivial"] += 1
        if sample is not None and len(self.cov["samples"]) < 6:
            self.cov["samples"].append(sample)

    # ------------------------------------------------------------------ translator
    def regenerate(self, units):
        rc, out = sh([sys.executable, os.path.join(VERIF, "translator", "gen.py"), "--repo", REPO]
                     + list(units), timeout=120)
        try:
            rep = json.loads(out)
        except Exception:
            rep = {"_raw": out}
        for u in units:
            r = rep.get(u, {})
            ok = bool(r.get("ok"))
            self.obligations.append((f"translate:{u}", ok, r.get("error", r.get("sha256", ""))))
        self.extra.setdefault("translated_units", {}).update(
            {u: rep.get(u) for u in units})
        return rc == 0, rep

    def regenerate_schemas(self):
        rc, out = sh([PY, os.path.join(VERIF, "translator", "schema2gallina.py"), "--repo", REPO],
                     timeout=300, env=repo_env({"AIOKAFKA_NO_EXTENSIONS": "1"}))
        ok = rc == 0
        self.obligations.append(("translate:Schemas", ok, out[-400:] if not ok else out.strip()[-200:]))
        return ok, out

    # ------------------------------------------------------------------ coq
    def coq_make(self, targets, timeout=1500):
        """(Re)build .vo targets (paths relative to coq/, e.g. 'proof/C17_proof.vo')."""
        coq_makefile()
        cmd = ["make", "-j", str(NPROC)] + list(targets)
        self.checker_cmds.append("cd coq && " + " ".join(cmd))
        # one build at a time in coq/ (several checks may run concurrently)
        rc, out = sh(["flock", os.path.join(COQ, ".buildlock")] + cmd, cwd=COQ, timeout=timeout)
        return rc == 0, out

    def coq_props(self, propfile, theorems=None, timeout=900):
        """Build the dependencies of props/<propfile>.v, then compile it with coqc capturing
        the Print Assumptions output.  Registers one obligation per theorem in the file."""
        src = os.path.join(COQ, "props", propfile + ".v")
        text = open(src).read()
        names = re.findall(r"^\s*(?:Theorem|Corollary)\s+([A-Za-z0-9_']+)", text, re.M)
        ok, out = self.coq_make([f"props/{propfile}.vo"], timeout=timeout)
        detail = ""
        if ok:
            # recompile the statement file alone to capture Print Assumptions
            rc, out2 = sh(["coqc"] + COQ_INCLUDES + [f"props/{propfile}.v"], cwd=COQ, timeout=timeout)
            self.checker_cmds.append(f"cd coq && coqc <includes> props/{propfile}.v")
            ok = rc == 0
            out = out2
            self.assumptions_text[propfile] = summarize_assumptions(out2)
            bad = forbidden_axioms(out2)
            if bad:
                ok = False
                detail = "non-stdlib axioms: " + ", ".join(bad)
        if not ok:
            failing = failing_file(out)
            detail = detail or f"coq build failed in {failing}: " + tail(out, 12)
        for n in names:
            self.obligations.append((f"theorem:{n}", ok, "" if ok else detail))
        if not names:
            self.obligations.append((f"props:{propfile}", ok, detail))
        self.extra.setdefault("theorems", []).extend(names)
        return ok, out

    def coq_eval(self, name, imports, body, timeout=600):
        """Write coq/run/<name>.v with `body` (which should contain Eval/Compute commands
        printing small results), compile it, return (ok, output)."""
        rd = os.path.join(COQ, "run")
        os.makedirs(rd, exist_ok=True)
        name = f"{name}_p{os.getpid()}"       # several checks (e.g. a mutation run and a clean run) may evaluate at once
        path = os.path.join(rd, name + ".v")
        with open(path, "w") as f:
            f.write("From Coq Require Import ZArith List String Bool.\n")
            for imp in imports:
                f.write(f"From Verif Require Import {imp}.\n")
            f.write("Import ListNotations.\nOpen Scope Z_scope.\nSet Printing Width 1000000.\n"
                    "Set Printing Depth 1000000.\n")
            f.write(body)
        rc, out = sh("ulimit -s unlimited 2>/dev/null; coqc " + " ".join(COQ_INCLUDES) + f" run/{name}.v",
                     cwd=COQ, timeout=timeout)
        for ext in (".vo", ".vok", ".vos", ".glob"):
            try:
                os.remove(os.path.join(rd, name + ext))
            except OSError:
                pass
        try:
            os.remove(os.path.join(rd, "." + name + ".aux"))
        except OSError:
            pass
        if rc == 0:
            try:
                os.remove(path)          # case files of successful evaluations are not kept (failed ones are, for debugging)
            except OSError:
                pass
        return rc == 0, out

    def coq_eval_sharded(self, prefix, imports, bodies, timeout=900):
        """Evaluate several case files in parallel; returns list of (ok, output)."""
        import concurrent.futures as cf
        res = [None] * len(bodies)
        with cf.ThreadPoolExecutor(max_workers=NPROC) as ex:
            futs = {ex.submit(self.coq_eval, f"{prefix}_{i}", imports, b, timeout): i
                    for i, b in enumerate(bodies)}
            for fu in cf.as_completed(futs):
                res[futs[fu]] = fu.result()
        return res

    # ------------------------------------------------------------------ verdict
    def violation(self, what, replay, signature=None, no_input=False):
        self.violations.append(Violation(what, replay, signature, no_input))

    def obligation(self, name, ok, detail=""):
        self.obligations.append((name, bool(ok), detail))

    def finish(self):
        kf = load_known_findings()
        evdir = os.environ.get("VERIF_EVIDENCE_DIR") or os.path.join(VERIF, "evidence")
        os.makedirs(os.path.join(evdir, "replay"), exist_ok=True)
        import glob as _glob
        for old in ([] if getattr(self, "is_replay", False) else
                    _glob.glob(os.path.join(evdir, "replay", f"{self.pid}-*.json"))):
            try:
                os.remove(old)       # replay files of earlier runs of this property
            except OSError:
                pass
        broken = [(n, d) for (n, ok, d) in self.obligations if not ok]
        real = []
        for v in self.violations:
            m = match_known(kf, self.pid, v.signature)
            if m:
                self.known.append((m, v))
            else:
                real.append(v)
        seen_known = set()
        for m, v in self.known:
            if m["signature"] in seen_known:
                continue
            seen_known.add(m["signature"])
            print(f"KNOWN-FINDING: property={self.pid} {m['what']}", flush=True)
        # a broken obligation with no concrete failing input found
        if broken and not real:
            rp = {"property": self.pid, "kind": "broken-obligation",
                  "broken": [{"obligation": n, "detail": d} for n, d in broken],
                  "note": "no concrete failing input was found by the search; the named theorem / "
                          "correspondence no longer checks on the current tree"}
            real.append(Violation("broken obligation: " + ", ".join(n for n, _ in broken), rp,
                                  no_input=True))
        lines = []
        n_real = len(real)
        for v in real[:20]:
            h = hashlib.sha1(json.dumps(v.replay, sort_keys=True, default=str).encode()).hexdigest()[:10]
            path = os.path.join(evdir, "replay", f"{self.pid}-{h}.json")
            with open(path, "w") as f:
                json.dump({"property": self.pid, "what": v.what, "signature": v.signature,
                           "seed": self.seed, "tier": self.tier, "replay": v.replay}, f, indent=1,
                          default=str)
            line = f"VIOLATION property={self.pid} replay={path}"
            if v.no_input:
                line += " no-failing-input-found"
            lines.append(line)
        n_obl = len(self.obligations)
        n_ok = sum(1 for (_, ok, _) in self.obligations if ok)
        cov = dict(self.cov)
        cov.update({
            "obligations": n_obl,
            "discharged": n_ok,
            "obligation_list": [{"name": n, "ok": ok, "detail": d[:300]} for (n, ok, d) in self.obligations],
            "checker_cmd": "; ".join(dict.fromkeys(self.checker_cmds)) or "n/a",
            "trusted_base": self.trusted + [f"Print Assumptions {k}: {v}" for k, v in self.assumptions_text.items()],
        })
        cov.update(self.extra)
        if not cov["samples"]:
            cov["samples"] = [{"note": "no sample recorded"}]
        ev = {
            "property_id": self.pid, "tier": self.tier, "seed": self.seed, "level": "proof",
            "coverage": cov, "assumptions": self.notes, "wall_s": round(time.time() - self.t0, 2),
            "violations": n_real,
            "known_findings_hit": [m["what"] for m, _ in self.known],
        }
        # a --replay run re-executes one stored input: it must not overwrite the evidence of the last full run
        evname = f"{self.pid}.json" if not getattr(self, "is_replay", False) else os.path.join("replay", f"replayrun-{self.pid}.json")
        with open(os.path.join(evdir, evname), "w") as f:
            json.dump(ev, f, indent=1, default=str)
        for ln in lines[:20]:
            print(ln, flush=True)
        print(f"[{self.pid}] tier={self.tier} obligations={n_ok}/{n_obl} evaluations={cov['evaluations']} "
              f"distinct={cov['distinct_nontrivial']} violations={n_real} known={len(self.known)} "
              f"wall={ev['wall_s']}s", flush=True)
        return 1 if real else 0


def coq_makefile():
    """(Re)write coq/Makefile for the .v files present now (gen/ is regenerated per run)."""
    files = []
    for d in ("lib", "model", "gen", "proof", "props"):
        dd = os.path.join(COQ, d)
        if os.path.isdir(dd):
            files += sorted(f"{d}/{f}" for f in os.listdir(dd) if f.endswith(".v"))
    stamp = os.path.join(COQ, ".filelist")
    cur = "\n".join(files)
    try:
        old = open(stamp).read()
    except OSError:
        old = None
    if old != cur or not os.path.exists(os.path.join(COQ, "Makefile")):
        sh(["coq_makefile", "-f", "_CoqProject", "-o", "Makefile"] + files, cwd=COQ)
        with open(stamp, "w") as f:
            f.write(cur)


def run_impl(script, payload, timeout=600, env=None, python=None):
    """Run harness/impl/<script> under the repo's interpreter with PYTHONPATH=/repo;
    payload (json-able) on stdin, JSON on stdout."""
    e = repo_env(env)
    rc, out = sh([python or PY, os.path.join(VERIF, "harness", "impl", script)], timeout=timeout,
                 env=e, input=json.dumps(payload))
    if rc != 0:
        raise RuntimeError(f"impl script {script} failed rc={rc}: {out[-2000:]}")
    # last line is the JSON document
    line = out.strip().splitlines()[-1]
    return json.loads(line)


def tail(s, n):
    return "\n".join(s.strip().splitlines()[-n:])


def failing_file(out):
    m = re.findall(r'File "([^"]+)", line (\d+)', out)
    return f"{m[-1][0]}:{m[-1][1]}" if m else "?"


STD_AXIOMS = {"functional_extensionality_dep", "classic", "proof_irrelevance", "JMeq_eq",
              "propositional_extensionality", "Eqdep.Eq_rect_eq.eq_rect_eq", "eq_rect_eq",
              "constructive_indefinite_description", "ClassicalEpsilon", "FunctionalExtensionality"}


def summarize_assumptions(out):
    blocks = []
    cur = None
    for ln in out.splitlines():
        if ln.startswith("Closed under the global context"):
            blocks.append("closed")
        elif ln.startswith("Axioms:"):
            cur = []
            blocks.append(cur)
        elif cur is not None and ln.strip() and (ln.startswith(" ") or ":" in ln):
            cur.append(ln.strip())
        else:
            cur = None
    n_closed = sum(1 for b in blocks if b == "closed")
    ax = sorted({a.split(":")[0].strip() for b in blocks if b != "closed" for a in b if ":" in a})
    return f"{n_closed} theorem(s) closed under the global context" + (f"; axioms used: {', '.join(ax)}" if ax else "")


def forbidden_axioms(out):
    bad = []
    in_ax = False
    for ln in out.splitlines():
        if ln.startswith("Axioms:"):
            in_ax = True
            continue
        if in_ax:
            if not ln.strip() or not (ln[0].isspace() or ":" in ln):
                in_ax = False
                continue
            m = re.match(r"^([A-Za-z0-9_.']+)\s*:", ln.strip())
            if m:
                name = m.group(1)
                short = name.split(".")[-1]
                if name not in STD_AXIOMS and short not in STD_AXIOMS and not name.startswith("Coq."):
                    bad.append(name)
    return bad


def load_known_findings():
    out = []
    p = os.path.join(VERIF, "known_findings.json")
    try:
        with open(p) as f:
            out += json.load(f)["findings"]
    except FileNotFoundError:
        pass
    d = os.path.join(VERIF, "known_findings.d")
    if os.path.isdir(d):
        for fn in sorted(os.listdir(d)):
            if fn.endswith(".json"):
                with open(os.path.join(d, fn)) as f:
                    out += json.load(f)["findings"]
    return out


def match_known(kf, pid, signature):
    for e in kf:
        if e.get("status") == "known" and e.get("property") == pid and e.get("signature") == signature:
            return e
    return None


# ---------------------------------------------------------------------- Coq literal helpers
def coq_Z(n):
    return f"({n})" if n < 0 else str(n)


def coq_list(xs, f=coq_Z):
    return "[" + "; ".join(f(x) for x in xs) + "]"


def coq_bytes(b):
    return coq_list(list(b))


def coq_bool(b):
    return "true" if b else "false"


def coq_opt(x, f):
    return "None" if x is None else f"(Some {f(x)})"


def coq_str(s):
    return '"' + s.replace('"', '""') + '"'


def parse_eval_outputs(out):
    """Split coqc output of a cases file into the printed values ('= v : T' blocks)."""
    vals = []
    cur = None
    for ln in out.splitlines():
        if ln.startswith("     = "):
            if cur is not None:
                vals.append(cur)
            cur = ln[7:]
        elif cur is not None:
            if ln.startswith("     : "):
                vals.append(cur)
                cur = None
            else:
                cur += " " + ln.strip()
    if cur is not None:
        vals.append(cur)
    out2 = []
    for v in vals:
        # strip a trailing ': type' if on same line
        v = re.sub(r"\s*:\s*[A-Za-z(][^=]*$", "", v).strip()
        out2.append(v)
    return out2


def parse_coq_value(s):
    """Parse the printed form of nested lists / tuples / Z / bool / option / strings into Python."""
    s = s.replace("%Z", "").replace("%nat", "").replace("%string", "")
    toks = re.findall(r'"(?:[^"]|"")*"|\[|\]|\(|\)|;|,|-?\d+|[A-Za-z_][A-Za-z_0-9.\']*', s)
    pos = 0

    def atom():
        nonlocal pos
        t = toks[pos]
        if t == "[":
            pos += 1
            items = []
            if toks[pos] == "]":
                pos += 1
                return items
            while True:
                items.append(app())
                if toks[pos] == ";":
                    pos += 1
                    continue
                if toks[pos] == "]":
                    pos += 1
                    return items
                raise ValueError("list")
        if t == "(":
            pos += 1
            items = [app()]
            while toks[pos] == ",":
                pos += 1
                items.append(app())
            if toks[pos] != ")":
                raise ValueError("paren")
            pos += 1
            return items[0] if len(items) == 1 else tuple(items)
        pos += 1
        if t.startswith('"'):
            return t[1:-1].replace('""', '"')
        if re.fullmatch(r"-?\d+", t):
            return int(t)
        if t == "true":
            return True
        if t == "false":
            return False
        if t == "None":
            return None
        return ("ctor", t)

    def app():
        nonlocal pos
        head = atom()
        if isinstance(head, tuple) and len(head) == 2 and head[0] == "ctor":
            args = []
            while pos < len(toks) and toks[pos] not in ("]", ")", ";", ","):
                args.append(atom())
            name = head[1]
            if name == "Some" and len(args) == 1:
                return ("Some", args[0])
            if not args:
                return name
            return (name, *args)
        return head

    v = app()
    return v


def generic_replay(ck, mod, path):
    """--replay for the checks whose replay is a simulator scenario: re-run the scenario on the current tree, print
    a summary of the run and what the check's own monitor says about it.  Exit 1 when the violation reproduces."""
    import json as _json
    rp = _json.load(open(path))
    body = rp.get("replay") or {}
    sc = body.get("scenario") if isinstance(body, dict) and "scenario" in body else body
    if not isinstance(sc, dict) or "id" not in sc:
        print(_json.dumps(rp, indent=1)[:6000])
        print("this replay carries no simulator scenario (a broken proof obligation or correspondence): re-run the check itself")
        return 0
    drv = body.get("driver")
    if drv == "c07_impl.py" or ck.pid in ("C07",):
        import c07
        r = c07.run_scenarios([sc])[0]
    elif "members" in sc or "n_members" in sc or "consumers" in sc:
        import conssim
        r = conssim.run_scenarios([sc], shards=1)[0]
    else:
        import prodsim
        r = prodsim.run_scenarios([sc], shards=1)[0]
    print(_json.dumps({k: v for k, v in r.items() if k not in ("trace", "logs")}, indent=1, default=str)[:5000])
    n0 = len(ck.violations)
    mon = getattr(mod, "monitor", None)
    if mon is not None and r.get("ok") and drv is None:
        try:
            mon(ck, sc, r)
        except TypeError:
            pass
    for v in ck.violations[n0:]:
        print("REPRODUCED:", v.what[:500])
    return 1 if len(ck.violations) > n0 else 0
