"""C06, convergence clause: correspondence between the simulated runs of the real consumers and the
quiet-period model coq/model/C06_Converge.v (theorems c06_converged_closed / c06_quiet_progress /
c06_quiet_converges in coq/props/C06.v).

For every simulated run (the runs harness/c06.py performs anyway; this module makes them carry the
member-side probe of harness/impl/consumer_sim.py) the QUIET SUFFIX is projected to model observations:

  Q   = the environment's last action: start/stop/kill call, cluster event, coordinator move, injected
        fault (+ its delay), LeaveGroup, a request that failed at the client (request timeout / connection
        error: a timing fault, assumption A5).  Session expiry of ids is NOT an environment action here:
        the model has it as step LExpire (allowed for orphan ids only).
  T   = the first probe snapshot after Q: the model's initial state is built from it - member fields are
        read from the real GroupCoordinator objects, the coordinator's table from the simulated broker,
        requests/replies on the wire from the probe's bookkeeping.
  obs = every group request reaching the broker, every reply processed by a member, every coordinator
        discovery and every id expiry between T and the first final stop() call.

Inside Coq (vm_compute): inv_b on the initial state, replay (every observation must be an enabled quiet
step producing the observed request contents / reply codes), converged_b on the final state.  The verdict
"converged" is compared with the independent monitor of c06.py on the same run.
"""
from __future__ import annotations

import os

import conssim
from c05 import member_clients
from common import Check, parse_coq_value, parse_eval_outputs

RUNS = []           # (scenarios, results) recorded from conssim.run_scenarios while c06.run executes
_orig_run_scenarios = conssim.run_scenarios


def _recording_run_scenarios(scs, *a, **k):
    for sc in scs:
        sc["probe"] = True
    res = _orig_run_scenarios(scs, *a, **k)
    RUNS.append((scs, res))
    return res


def install():
    """c06.py calls conssim.run_scenarios(...): record its scenarios and results, with the probe on."""
    if conssim.run_scenarios is not _recording_run_scenarios:
        conssim.run_scenarios = _recording_run_scenarios


install()

ENV_EVENTS = ("start_call", "start_ret", "stop_call", "kill", "subscribe", "cluster_event", "coordinator_move",
              "leave_request", "m_err")
STATE = {"Empty": "CEmpty", "PreparingRebalance": "CPreparing", "CompletingRebalance": "CCompleting", "Stable": "CStable"}


def cname(name):
    return int(name[1:])


class Projection:
    def __init__(self, sc, r):
        self.sc, self.r = sc, r
        self.trace = r["trace"]
        self.mc = member_clients(self.trace)
        allids = sorted({e["member"] for e in self.trace if e["ev"] in ("member_id_assigned",) and e.get("member")}
                        | {m for e in self.trace if e["ev"] == "probe_snapshot" and e.get("group")
                           for m in e["group"]["members"]} | set(self.mc))
        allids = [x for x in allids if x]
        self.rank = {m: i + 1 for i, m in enumerate(sorted(allids))}
        self.live = [c["name"] for c in sc["consumers"] if c.get("_stays")]
        self.end = r["vtime"]
        self.t_stop = min((e["t"] for e in self.trace if e["ev"] == "stop_call" and e["c"] in self.live), default=self.end)

    def rk(self, mid):
        if not mid:
            return 0
        if mid not in self.rank:
            self.rank[mid] = 500 + len(self.rank)
        return self.rank[mid]

    def quiet_index(self):
        """index in the trace of the environment's last action before the first final stop"""
        qi, qt = -1, 0.0
        for k, e in enumerate(self.trace):
            if e["t"] >= self.t_stop:
                break
            ev = e["ev"]
            if ev in ENV_EVENTS:
                qi, qt = k, max(qt, e["t"])
            elif ev == "request" and e.get("fault"):
                qi, qt = k, max(qt, e["t"] + (e["fault"].get("delay") or 0.0))
            elif ev == "p_req" and e["api"] == "LeaveGroup":
                qi, qt = k, max(qt, e["t"])
        return qi, qt

    def snapshot_index(self, qi, qt):
        for k in range(qi + 1, len(self.trace)):
            e = self.trace[k]
            if e["t"] >= self.t_stop:
                return None
            if e["ev"] == "probe_snapshot" and e["t"] >= qt and e.get("group") is not None:
                return k
        return None

    # ------------------------------------------------------------------ initial state
    def initial_state(self, k):
        snap = self.trace[k]
        g = snap["group"]
        pre = self.trace[:k]
        members = []
        waiting_join = {}    # client -> id its parked JoinGroup sits on
        waiting_sync = {}
        for ms in snap["members"]:
            name = ms["name"]
            live = bool(ms.get("group")) and name not in snap["killed"] and name not in snap["stopping"] \
                and not ms.get("closing") and not ms.get("coord_task_done")
            if not ms.get("group"):
                members.append(dict(name=cname(name), live=False, id=0, gen=0, ph="PIdle", rejoin=False, ck="CkNone",
                                    hb=False, wait=0, inbox=None, hbin=None, cmin=None))
                continue
            infl = {}
            for api, q in (ms.get("inflight") or {}).items():
                arr = [e for e in pre if e["ev"] == "p_req" and e["c"] == name and e["api"] == api and e["t"] >= q["t"] - 1e-6]
                rep = None
                if arr:
                    rep = next((e for e in pre if e["ev"] == "p_rep" and e["ordinal"] == arr[-1]["ordinal"]), None)
                infl[api] = {"arrived": arr[-1] if arr else None, "reply": rep}
            main = ms["main"]
            ph, inbox = "PIdle", None
            rejoin = bool(ms["rejoin"])
            if main in ("Idle", "Assigned"):
                rejoin = rejoin or bool(ms["no_assignment"])
            elif main == "JoinSent":
                q = infl.get("JoinGroup")
                rejoin = True
                if q and q["arrived"]:
                    ph = "PJoinSent"
                    if q["reply"]:
                        rp = q["reply"]
                        inbox = ("RpJoin", rp["code"], max(rp.get("gen") or 0, 0), self.rk(rp.get("member")))
                    else:
                        a = q["arrived"]
                        mid = a["member"]
                        if not mid:
                            nxt = next((e for e in pre if e["ev"] == "member_id_assigned" and e["client"] == name
                                        and e["t"] >= a["t"] - 1e-6), None)
                            mid = nxt["member"] if nxt else None
                        waiting_join[name] = mid
            elif main == "Joined":
                ph = "PJoined"
                rejoin = True
            elif main == "SyncSent":
                q = infl.get("SyncGroup")
                if q and q["arrived"]:
                    ph = "PSyncSent"
                    if q["reply"]:
                        inbox = ("RpSync", q["reply"]["code"])
                    else:
                        waiting_sync[name] = q["arrived"]["member"]
                else:
                    ph = "PJoined"
            hbin = cmin = None
            q = infl.get("Heartbeat")
            if q and q["arrived"] and q["reply"]:
                hbin = q["reply"]["code"]
            q = infl.get("OffsetCommit")
            if q and q["arrived"] and q["reply"]:
                cmin = q["reply"]["code"]
            node = ms["node"]
            ck = "CkNone" if node is None else ("CkOk" if node == g["coordinator"] else "CkStale")
            members.append(dict(name=cname(name), live=live, id=self.rk(ms["member"]), gen=max(ms["gen"] or 0, 0), ph=ph,
                                rejoin=rejoin, ck=ck, hb=bool(ms["hb"]) or main == "Assigned",
                                wait=self.rk(waiting_join.get(name)), inbox=inbox, hbin=hbin, cmin=cmin, _main=main))
        ents = [(self.rk(mid), bool(g["members"][mid]["join"]), bool(g["members"][mid]["sync"]))
                for mid in sorted(g["members"], key=self.rk)]
        coord = dict(gen=max(g["generation"], 0), st=STATE[g["state"]], ents=ents,
                     pend=[self.rk(x) for x in g["pending"]], leader=self.rk(g["leader"]))
        return coord, members

    # ------------------------------------------------------------------ observations
    def observations(self, k):
        obs = []
        tr = self.trace
        rep_by_ord = {e["ordinal"]: e for e in tr if e["ev"] == "p_rep"}
        n = len(tr)
        for j in range(k + 1, n):
            e = tr[j]
            if e["t"] >= self.t_stop:
                break
            ev = e["ev"]
            if ev == "m_ck" and e["node"] is not None:
                obs.append((j, f"OFind {cname(e['c'])}"))
            elif ev == "p_req":
                c = cname(e["c"])
                api = e["api"]
                mid = self.rk(e.get("member"))
                gen = max(e.get("gen") or 0, 0)
                rp = rep_by_ord.get(e["ordinal"])
                if api == "JoinGroup":
                    y = 0
                    if not e.get("member"):
                        for j2 in range(j + 1, min(j + 4, n)):
                            if tr[j2]["ev"] == "member_id_assigned" and tr[j2]["client"] == e["c"]:
                                y = self.rk(tr[j2]["member"])
                                break
                        if y == 0:
                            y = 900 + j      # the request did not reach the group (wrong node): any unused id
                    obs.append((j, f"OJoinReq {c} {'true' if e['version'] >= 4 else 'false'} {y} {mid}"))
                elif api == "SyncGroup":
                    obs.append((j, f"OSyncReq {c} {mid} {gen}"))
                elif api == "Heartbeat":
                    obs.append((j, f"OHbReq {c} {mid} {gen} {zc(rp['code'] if rp else -1)}"))
                elif api == "OffsetCommit":
                    obs.append((j, f"OCmReq {c} {mid} {gen} {zc(rp['code'] if rp else -1)}"))
            elif ev == "m_reply":
                c = cname(e["c"])
                api = e["api"]
                if api == "JoinGroup":
                    obs.append((j, f"OJoinRep {c} {zc(e['code'])} {max(e.get('gen') or 0, 0)} {self.rk(e.get('member'))}"))
                elif api == "SyncGroup":
                    obs.append((j, f"OSyncRep {c} {zc(e['code'])}"))
                elif api == "Heartbeat":
                    obs.append((j, f"OHbRep {c} {zc(e['code'])}"))
                elif api == "OffsetCommit":
                    obs.append((j, f"OCmRep {c} {zc(e['code'])}"))
            elif ev == "session_expired":
                obs.append((j, f"OExpire {self.rk(e['member'])} false"))
            elif ev == "member_dropped_at_rebalance_timeout":
                obs.append((j, f"OExpire {self.rk(e['member'])} true"))
        return obs


def zc(n):
    return f"({n})%Z" if n < 0 else f"{n}%Z"


def coq_opt_nat(x):
    return "None" if x is None else f"(Some {x})"


def coq_state(coord, members):
    bb = lambda x: "true" if x else "false"  # noqa: E731
    ents = "; ".join(f"mkE {i} {bb(jp)} {bb(sp)}" for i, jp, sp in coord["ents"])
    c = (f"(mkC {coord['gen']} {coord['st']} [{ents}] [{'; '.join(map(str, coord['pend']))}] {coord['leader']})")
    ms = []
    for m in members:
        ib = m["inbox"]
        if ib is None:
            inbox = "None"
        elif ib[0] == "RpJoin":
            inbox = f"(Some (RpJoin {zc(ib[1])} {ib[2]} {ib[3]}))"
        else:
            inbox = f"(Some (RpSync {zc(ib[1])}))"
        oz = lambda x: "None" if x is None else f"(Some {zc(x)})"  # noqa: E731
        b = lambda x: "true" if x else "false"  # noqa: E731
        ms.append(f"mkM {m['name']} {b(m['live'])} {m['id']} {m['gen']} {m['ph']} {b(m['rejoin'])} {m['ck']} "
                  f"{b(m['hb'])} {m.get('wait', 0)} {inbox} {oz(m['hbin'])} {oz(m['cmin'])}")
    return f"(mkS {c} [{'; '.join(ms)}])"


def project(sc, r):
    """-> dict(kind='ok', state, obs, ...) or dict(kind='none', why)"""
    p = Projection(sc, r)
    if not p.live or "g" not in r.get("groups", {}):
        return {"kind": "none", "why": "no member stays"}
    qi, qt = p.quiet_index()
    k = p.snapshot_index(qi, qt)
    if k is None:
        return {"kind": "none", "why": "no probe snapshot between the environment's last action and the end"}
    coord, members = p.initial_state(k)
    obs = p.observations(k)
    return {"kind": "ok", "p": p, "k": k, "t0": p.trace[k]["t"], "q": qt, "coord": coord, "members": members, "obs": obs,
            "state": coq_state(coord, members)}
