"""C06, convergence clause: correspondence between the simulated runs of the real consumers and the
quiet-period model coq/model/C06_Converge.v (theorems c06_converged_closed / c06_quiet_progress /
c06_quiet_converges in coq/props/C06.v).

For every simulated run (the runs harness/c06.py performs anyway; this module makes them carry the
member-side probe of harness/impl/consumer_sim.py) the QUIET SUFFIX is projected to model observations:

  Q   = the environment's last action: start/stop/kill call, cluster event, coordinator move, injected
        fault (+ its delay), LeaveGroup, a request that failed at the client (request timeout / connection
        error: a timing fault, assumption A5).  Session expiry of ids is NOT an environment action here:
        the model has it as step LExpire (allowed for orphan ids only).
  T   = the first probe snapshot after Q: the model's initial state is built from it - member fields are
        read from the real GroupCoordinator objects, the coordinator's table from the simulated broker,
        requests/replies on the wire from the probe's bookkeeping.
  obs = every group request reaching the broker, every reply processed by a member, every coordinator
        discovery and every id expiry between T and the first final stop() call.

Inside Coq (vm_compute): inv_b on the initial state, replay (every observation must be an enabled quiet
step producing the observed request contents / reply codes), converged_b on the final state.  The verdict
"converged" is compared with the independent monitor of c06.py on the same run.
"""
from __future__ import annotations

import os

import conssim
from c05 import member_clients
from common import Check, parse_coq_value, parse_eval_outputs

RUNS = []           # (scenarios, results) recorded from conssim.run_scenarios while c06.run executes
_orig_run_scenarios = conssim.run_scenarios


def _recording_run_scenarios(scs, *a, **k):
    for sc in scs:
        sc["probe"] = True
    res = _orig_run_scenarios(scs, *a, **k)
    RUNS.append((scs, res))
    return res


def install():
    """c06.py calls conssim.run_scenarios(...): record its scenarios and results, with the probe on."""
    if conssim.run_scenarios is not _recording_run_scenarios:
        conssim.run_scenarios = _recording_run_scenarios


install()

ENV_EVENTS = ("start_call", "start_ret", "stop_call", "kill", "subscribe", "cluster_event", "coordinator_move",
              "leave_request", "m_err")
STATE = {"Empty": "CEmpty", "PreparingRebalance": "CPreparing", "CompletingRebalance": "CCompleting", "Stable": "CStable"}


def cname(name):
    return int(name[1:])


class Projection:
    def __init__(self, sc, r):
        self.sc, self.r = sc, r
        self.trace = r["trace"]
        self.mc = member_clients(self.trace)
        allids = sorted({e["member"] for e in self.trace if e["ev"] in ("member_id_assigned",) and e.get("member")}
                        | {m for e in self.trace if e["ev"] == "probe_snapshot" and e.get("group")
                           for m in e["group"]["members"]} | set(self.mc))
        allids = [x for x in allids if x]
        self.rank = {m: i + 1 for i, m in enumerate(sorted(allids))}
        self.live = [c["name"] for c in sc["consumers"] if c.get("_stays")]
        self.end = r["vtime"]
        self.t_stop = min((e["t"] for e in self.trace if e["ev"] == "stop_call" and e["c"] in self.live), default=self.end)

    def rk(self, mid):
        if not mid:
            return 0
        if mid not in self.rank:
            self.rank[mid] = 500 + len(self.rank)
        return self.rank[mid]

    def quiet_index(self):
        """index in the trace of the environment's last action before the first final stop"""
        qi, qt = -1, 0.0
        for k, e in enumerate(self.trace):
            if e["t"] >= self.t_stop:
                break
            ev = e["ev"]
            if ev == "cluster_event" and e.get("op") in ("add_partitions", "create_topic"):
                # a metadata change reaches the members with their next metadata refresh: the environment's action
                # lasts until then (the refresh makes the leader ask for a rejoin - not a step of the quiet model)
                age = max([c.get("metadata_max_age_ms", 2000) for c in self.sc["consumers"]] or [2000]) / 1000.0
                qi, qt = k, max(qt, e["t"] + age + 0.3)
            elif ev in ENV_EVENTS:
                qi, qt = k, max(qt, e["t"])
            elif ev == "request" and e.get("fault"):
                qi, qt = k, max(qt, e["t"] + (e["fault"].get("delay") or 0.0))
            elif ev == "p_req" and e["api"] == "LeaveGroup":
                qi, qt = k, max(qt, e["t"])
        return qi, qt

    def snapshot_index(self, qi, qt):
        for k in range(qi + 1, len(self.trace)):
            e = self.trace[k]
            if e["t"] >= self.t_stop:
                return None
            if e["ev"] == "probe_snapshot" and e["t"] >= qt and e.get("group") is not None:
                return k
        return None

    # ------------------------------------------------------------------ initial state
    def initial_state(self, k):
        snap = self.trace[k]
        g = snap["group"]
        pre = self.trace[:k]
        members = []
        waiting_join = {}    # client -> id its parked JoinGroup sits on
        waiting_sync = {}
        for ms in snap["members"]:
            name = ms["name"]
            live = bool(ms.get("group")) and name not in snap["killed"] and name not in snap["stopping"] \
                and not ms.get("closing") and not ms.get("coord_task_done")
            if not ms.get("group"):
                members.append(dict(name=cname(name), live=False, id=0, gen=0, ph="PIdle", rejoin=False, ck="CkNone",
                                    hb=False, wait=0, inbox=None, hbin=None, cmin=None))
                continue
            infl = {}
            for api, q in (ms.get("inflight") or {}).items():
                arr = [e for e in pre if e["ev"] == "p_req" and e["c"] == name and e["api"] == api and e["t"] >= q["t"] - 1e-6]
                rep = None
                if arr:
                    rep = next((e for e in pre if e["ev"] == "p_rep" and e["ordinal"] == arr[-1]["ordinal"]), None)
                infl[api] = {"arrived": arr[-1] if arr else None, "reply": rep}
            main = ms["main"]
            ph, inbox = "PIdle", None
            rejoin = bool(ms["rejoin"])
            if main in ("Idle", "Assigned"):
                rejoin = rejoin or bool(ms["no_assignment"])
            elif main == "JoinSent":
                q = infl.get("JoinGroup")
                rejoin = True
                if q and q["arrived"]:
                    ph = "PJoinSent"
                    if q["reply"]:
                        rp = q["reply"]
                        inbox = ("RpJoin", rp["code"], max(rp.get("gen") or 0, 0))
                        waiting_join[name] = rp.get("member")
                    else:
                        a = q["arrived"]
                        mid = a["member"]
                        if not mid:
                            nxt = next((e for e in pre if e["ev"] == "member_id_assigned" and e["client"] == name
                                        and e["t"] >= a["t"] - 1e-6), None)
                            mid = nxt["member"] if nxt else None
                        waiting_join[name] = mid
            elif main == "Joined":
                ph = "PJoined"
                rejoin = True
            elif main == "SyncSent":
                q = infl.get("SyncGroup")
                if q and q["arrived"]:
                    ph = "PSyncSent"
                    if q["reply"]:
                        inbox = ("RpSync", q["reply"]["code"])
                    else:
                        waiting_sync[name] = q["arrived"]["member"]
                else:
                    ph = "PJoined"
            hbin = cmin = None
            q = infl.get("Heartbeat")
            if q and q["arrived"] and q["reply"]:
                hbin = q["reply"]["code"]
            q = infl.get("OffsetCommit")
            if q and q["arrived"] and q["reply"]:
                cmin = q["reply"]["code"]
            node = ms["node"]
            ck = "CkNone" if node is None else ("CkOk" if node == g["coordinator"] else "CkStale")
            members.append(dict(name=cname(name), live=live, id=self.rk(ms["member"]), gen=max(ms["gen"] or 0, 0), ph=ph,
                                rejoin=rejoin, ck=ck, hb=bool(ms["hb"]) or main == "Assigned",
                                wait=self.rk(waiting_join.get(name)), inbox=inbox, hbin=hbin, cmin=cmin, _main=main))
        ents = [(self.rk(mid), bool(g["members"][mid]["join"]), bool(g["members"][mid]["sync"]))
                for mid in sorted(g["members"], key=self.rk)]
        coord = dict(gen=max(g["generation"], 0), st=STATE[g["state"]], ents=ents,
                     pend=[self.rk(x) for x in g["pending"]], leader=self.rk(g["leader"]))
        return coord, members

    # ------------------------------------------------------------------ observations
    def observations(self, k):
        obs = []
        tr = self.trace
        rep_by_ord = {e["ordinal"]: e for e in tr if e["ev"] == "p_rep"}
        n = len(tr)
        for j in range(k + 1, n):
            e = tr[j]
            if e["t"] >= self.t_stop:
                break
            ev = e["ev"]
            if ev == "m_ck" and e["node"] is not None:
                obs.append((j, f"OFind {cname(e['c'])}"))
            elif ev == "p_req":
                c = cname(e["c"])
                api = e["api"]
                mid = self.rk(e.get("member"))
                gen = max(e.get("gen") or 0, 0)
                rp = rep_by_ord.get(e["ordinal"])
                if api == "JoinGroup":
                    y = 0
                    if not e.get("member"):
                        for j2 in range(j + 1, min(j + 4, n)):
                            if tr[j2]["ev"] == "member_id_assigned" and tr[j2]["client"] == e["c"]:
                                y = self.rk(tr[j2]["member"])
                                break
                        if y == 0:
                            y = 900 + j      # the request did not reach the group (wrong node): any unused id
                    obs.append((j, f"OJoinReq {c} {'true' if e['version'] >= 4 else 'false'} {y} {mid}"))
                elif api == "SyncGroup":
                    obs.append((j, f"OSyncReq {c} {mid} {gen}"))
                elif api == "Heartbeat":
                    obs.append((j, f"OHbReq {c} {mid} {gen} {zc(rp['code'] if rp else -1)}"))
                elif api == "OffsetCommit":
                    obs.append((j, f"OCmReq {c} {mid} {gen} {zc(rp['code'] if rp else -1)}"))
            elif ev == "m_reply":
                c = cname(e["c"])
                api = e["api"]
                if api == "JoinGroup":
                    obs.append((j, f"OJoinRep {c} {zc(e['code'])} {max(e.get('gen') or 0, 0)} {self.rk(e.get('member'))}"))
                elif api == "SyncGroup":
                    obs.append((j, f"OSyncRep {c} {zc(e['code'])}"))
                elif api == "Heartbeat":
                    obs.append((j, f"OHbRep {c} {zc(e['code'])}"))
                elif api == "OffsetCommit":
                    obs.append((j, f"OCmRep {c} {zc(e['code'])}"))
            elif ev == "session_expired":
                obs.append((j, f"OExpire {self.rk(e['member'])} false"))
            elif ev == "member_dropped_at_rebalance_timeout":
                obs.append((j, f"OExpire {self.rk(e['member'])} true"))
        return obs


def zc(n):
    return f"({n})%Z" if n < 0 else f"{n}%Z"


def coq_opt_nat(x):
    return "None" if x is None else f"(Some {x})"


def coq_state(coord, members):
    bb = lambda x: "true" if x else "false"  # noqa: E731
    ents = "; ".join(f"mkE {i} {bb(jp)} {bb(sp)}" for i, jp, sp in coord["ents"])
    c = (f"(mkC {coord['gen']} {coord['st']} [{ents}] [{'; '.join(map(str, coord['pend']))}] {coord['leader']})")
    ms = []
    for m in members:
        ib = m["inbox"]
        if ib is None:
            inbox = "None"
        elif ib[0] == "RpJoin":
            inbox = f"(Some (RpJoin {zc(ib[1])} {ib[2]}))"
        else:
            inbox = f"(Some (RpSync {zc(ib[1])}))"
        oz = lambda x: "None" if x is None else f"(Some {zc(x)})"  # noqa: E731
        b = lambda x: "true" if x else "false"  # noqa: E731
        ms.append(f"mkM {m['name']} {b(m['live'])} {m['id']} {m['gen']} {m['ph']} {b(m['rejoin'])} {m['ck']} "
                  f"{b(m['hb'])} {m.get('wait', 0)} {inbox} {oz(m['hbin'])} {oz(m['cmin'])}")
    return f"(mkS {c} [{'; '.join(ms)}])"


def project(sc, r):
    """-> dict(kind='ok', state, obs, ...) or dict(kind='none', why)"""
    p = Projection(sc, r)
    if not p.live or "g" not in r.get("groups", {}):
        return {"kind": "none", "why": "no member stays"}
    qi, qt = p.quiet_index()
    k = p.snapshot_index(qi, qt)
    if k is None:
        return {"kind": "none", "why": "no probe snapshot between the environment's last action and the end"}
    coord, members = p.initial_state(k)
    obs = p.observations(k)
    return {"kind": "ok", "p": p, "k": k, "t0": p.trace[k]["t"], "q": qt, "coord": coord, "members": members, "obs": obs,
            "state": coq_state(coord, members)}


# ---------------------------------------------------------------------------------------------------
def candidate_projections(sc, r, max_candidates=3):
    """projections from the first few probe snapshots after the environment's last action"""
    p = Projection(sc, r)
    if not p.live or "g" not in r.get("groups", {}):
        return p, []
    qi, qt = p.quiet_index()
    out = []
    k = p.snapshot_index(qi, qt)
    while k is not None and len(out) < max_candidates:
        coord, members = p.initial_state(k)
        out.append({"k": k, "t0": p.trace[k]["t"], "q": qt, "coord": coord, "members": members,
                    "obs": p.observations(k), "state": coq_state(coord, members)})
        k = p.snapshot_index(k, qt)
    return p, out


def monitor_verdict(sc, r):
    """the independent monitor of c06.py on this run, evaluated on a scratch Check"""
    import c06
    scratch = Check("C06")
    return c06.monitor_convergence(scratch, sc, r, 12.0), [v.what for v in scratch.violations]


RESULT_RE = None


def check_converge(ck: Check):
    import re
    # the convergence clause now has a theorem: replace the older trusted-base line of c06.py
    ck.trusted[:] = [t for t in ck.trusted if not t.startswith("convergence is decided by a monitor")]
    ck.trusted += [
        "convergence clause: theorems c06_converged_closed / c06_quiet_progress / c06_quiet_converges / "
        "c06_quiet_schedule_exists on model/C06_Converge.v (every inv_b state, every number of members, every schedule of "
        "quiet steps); the per-member facts are checked for every value of the finite member view by vm_compute "
        "(proof/C06_conv_checks.v, C06_conv_progress.v); the monitor on the simulated runs stays as the independent "
        "statement of the property on the real consumers",
        "model/C06_Converge.v: quiet-period LTS written by hand after harness/simkit/groupcoord.py (coordinator) and "
        "group_coordinator.py (member skeleton: which request follows which); member reactions to reply codes are the "
        "translated dispatch chains (tie T); tied to the real consumers by acceptance of the quiet suffix of every "
        "simulated run, started from a state read off the real objects (probe in harness/impl/consumer_sim.py: wrappers "
        "around GroupCoordinator._send_req / coordinator_id and around the simulated broker's request/reply path; no "
        "source change)",
        "timing assumptions of the convergence theorems (A1-A5 in model/C06_Converge.v): live members answer within the "
        "session / rebalance / request timeouts in the quiet period, orphan ids expire, FindCoordinator answers the "
        "current coordinator; real time, subscription changes and the faults themselves are outside the model "
        "(they end before the replayed suffix starts)",
    ]
    runs = [(sc, r) for scs, res in RUNS for sc, r in zip(scs, res)]
    if not runs:
        ck.obligation("correspondence:converge-runs-recorded", False, "no simulated runs were recorded")
        return
    items = []
    hist = {"runs": 0, "no_member_stays": 0, "no_snapshot_after_quiet": 0, "replayed": 0, "start_not_first_snapshot": 0,
            "initial_states": {}, "observations": 0, "converged_model": 0, "nontrivial_start": 0}
    for sc, r in runs:
        if not r.get("ok"):
            continue
        hist["runs"] += 1
        p, cands = candidate_projections(sc, r)
        if not p.live:
            hist["no_member_stays"] += 1
            continue
        if not cands:
            hist["no_snapshot_after_quiet"] += 1
            continue
        items.append((sc, r, p, cands))
    # one Coq evaluation per candidate start: inv_b first; the replay only matters for the chosen start
    bodies, index = [], []
    per = max(1, (len(items) + 15) // 16)
    for i in range(0, len(items), per):
        lines = ["Local Open Scope nat_scope."]
        for (sc, r, p, cands) in items[i:i + per]:
            for ci, c in enumerate(cands):
                obs = "; ".join(o for _, o in c["obs"])
                lines.append(f"Eval vm_compute in (let s0 := {c['state']} in if inv_b s0 then "
                             f"(let r := replay_check 0 s0 [{obs}] in "
                             f"(1, fst (fst (fst r)), snd (fst (fst r)), snd (fst r), converged_b s0, converged_b (snd r), mu s0, snd r)) "
                             f"else (0, 0, false, (0, 0), false, false, 0, s0)).")
                index.append((len(bodies), sc["id"], ci))
        bodies.append("\n".join(lines) + "\n")
    res = ck.coq_eval_sharded("c06_converge", ["DispatchActs", "C06_Converge"], bodies, timeout=ck.n(600, 1800))
    vals_by_body = []
    for okc, out in res:
        vals_by_body.append(parse_eval_outputs(out) if okc else None)
        if not okc:
            ck.obligation("correspondence:converge-evaluated-in-coq", False, out[-400:])
    pos = {}
    results = {}
    for (bi, sid, ci) in index:
        vs = vals_by_body[bi]
        j = pos.get(bi, 0)
        pos[bi] = j + 1
        if vs is None or j >= len(vs):
            continue
        m = re.match(r"\((\d+)(?:%nat)?, (\d+)(?:%nat)?, (true|false), \((\d+)(?:%nat)?, (\d+)(?:%nat)?\), (true|false), "
                     r"(true|false), (\d+)(?:%nat)?, (.*)\)$", vs[j].strip(), re.S)
        if m:
            results[(sid, ci)] = dict(inv=m.group(1) == "1", accepted=int(m.group(2)), all=m.group(3) == "true",
                                      bad_at=int(m.group(4)), bad_kind=int(m.group(5)), conv0=m.group(6) == "true",
                                      conv=m.group(7) == "true", mu0=int(m.group(8)), state=m.group(9))
    n_rej = n_inv = n_mis = n_var = 0
    for (sc, r, p, cands) in items:
        # the quiet suffix starts at one of the first few probe snapshots after the environment's last action: the
        # first one from which the run is a run of the model (a request the client abandoned because of an earlier
        # fault may still be pending at the coordinator at the very first snapshot - the tail of that fault); when
        # none is, the first one inside the invariant is reported
        chosen = None
        for ci, c in enumerate(cands):
            rs = results.get((sc["id"], ci))
            if rs is None:
                break
            if rs["inv"] and rs["all"]:
                chosen = (ci, c, rs)
                break
        if chosen is None:
            for ci, c in enumerate(cands):
                rs = results.get((sc["id"], ci))
                if rs is None:
                    break
                if rs["inv"]:
                    chosen = (ci, c, rs)
                    break
        if chosen is None:
            if all((sc["id"], ci) in results for ci in range(len(cands))):
                n_inv += 1
                if n_inv <= 3:
                    ck.violation("the state the quiet period starts from violates the invariant of the convergence theorems "
                                 f"at each of the first {len(cands)} probe snapshots after the environment's last action "
                                 f"(scenario {sc['id']})",
                                 {"scenario": sc, "what": "quiet-start state outside inv_b", "quiet_since": cands[0]["q"],
                                  "snapshots": [c["t0"] for c in cands], "state": cands[0]["state"]},
                                 signature="converge:quiet-start-outside-invariant")
            continue
        ci, c, rs = chosen
        hist["replayed"] += 1
        hist["start_not_first_snapshot"] += ci > 0
        hist["observations"] += len(c["obs"])
        st0 = c["coord"]["st"]
        hist["initial_states"][st0] = hist["initial_states"].get(st0, 0) + 1
        hist["converged_model"] += rs["conv"]
        hist["nontrivial_start"] += not rs["conv0"]
        bad, whats = monitor_verdict(sc, r)
        ck.count(key=("converge", sc["id"], sc["seed"]), nontrivial=not rs["conv0"],
                 sample={"scenario": sc["id"], "quiet_since": round(c["q"], 3), "replay_from": c["t0"],
                         "observations": len(c["obs"]), "initial_coordinator_state": st0, "mu0": rs["mu0"]}
                 if not rs["conv0"] and len(c["obs"]) > 50 else None)
        if not rs["all"]:
            n_rej += 1
            j, o = c["obs"][rs["accepted"]]
            ctx = [e for e in p.trace[max(c["k"] + 1, j - 25):j + 3]
                   if e["ev"] not in ("deliver", "probe_snapshot", "offset_commit")]
            if n_rej <= 3:
                ck.violation(f"the real run is not a run of the quiet-period model: observation {rs['accepted']} ({o}) is not an "
                             f"enabled quiet step with that content (scenario {sc['id']})",
                             {"scenario": sc, "what": "trace rejected by model/C06_Converge.v", "rejected_observation": o,
                              "index": rs["accepted"], "replay_from": c["t0"], "model_state_before": rs["state"][:3000],
                              "initial_state": c["state"], "events": ctx},
                             signature=f"converge:rejected:{o.split()[0]}")
            continue
        if rs["bad_kind"]:
            n_var += 1
            kind = {1: "a successor state violates inv_b", 2: "the variant mu did not decrease on a real step",
                    3: "the variant mu increased on a no-op step"}[rs["bad_kind"]]
            if n_var <= 3:
                ck.obligation(f"correspondence:converge-per-step-facts:{sc['id']}", False,
                              f"{kind} at observation {rs['bad_at'] - 1} ({c['obs'][rs['bad_at'] - 1][1]}); state {rs['state'][:600]}")
            continue
        if rs["conv"] != (bad == 0):
            n_mis += 1
            if n_mis <= 3:
                ck.violation(f"model and monitor disagree on convergence: model converged_b={rs['conv']}, monitor violations "
                             f"{whats} (scenario {sc['id']})",
                             {"scenario": sc, "what": "converged_b vs monitor", "model_final_state": rs["state"][:3000],
                              "monitor": whats, "replay_from": c["t0"]},
                             signature="converge:model-monitor-disagree")
    ck.obligation("correspondence:quiet-suffix-accepted-by-C06_Converge", n_rej == 0,
                  f"{n_rej} of {hist['replayed']} replayed runs rejected")
    ck.obligation("correspondence:quiet-start-satisfies-inv_b", n_inv == 0, f"{n_inv} runs with no start state inside inv_b")
    ck.obligation("correspondence:per-step-facts-on-real-steps(inv_b,mu)", n_var == 0,
                  f"{n_var} runs with a real step on which inv_b / mu misbehaved")
    ck.obligation("correspondence:converged_b-iff-monitor", n_mis == 0, f"{n_mis} disagreements of {hist['replayed']}")
    ck.extra["converge"] = hist
    ck.cov["rule"] += ("; (c) convergence model: one evaluation = the quiet suffix of one simulated run replayed inside Coq "
                       "(inv_b at the start, every observation an enabled quiet step with the observed contents, inv_b and "
                       "the variant mu along the way, converged_b at the end compared with the monitor); non-trivial = the "
                       "start state is not yet converged")
    ck.log(f"convergence model: {hist}")
