"""C12 — Responses reach exactly their requests; connection failure fails all waiters.

(1) tie T: NextCorr.v regenerated from AIOKafkaConnection._next_correlation_id; proofs props/C12.v.
(2) correspondence: the real AIOKafkaConnection on an in-memory transport and a virtual-time loop
    (harness/impl/c12_impl.py) is driven through event sequences; the same sequences are run through
    the model (model/C12_Conn.v) inside Coq with the body decoder instantiated by an oracle table;
    outcome of every send() awaitable, open/closed, correlation counter and queue length are compared.
(3) monitors: the property stated on the real outcomes (exact delivery, order, failure fails all,
    chunking independence, correlation id range / distinctness).
"""
import itertools
import json
import struct

from common import Check, parse_coq_value, parse_eval_outputs, run_impl

KINDS = [["Metadata", 0], ["Metadata", 5], ["ApiVersions", 0], ["ApiVersions", 1], ["FindCoordinator", 0],
         ["FindCoordinator", 1], ["Heartbeat", 0], ["Heartbeat", 1], ["LeaveGroup", 0], ["DeleteRecords", 1],
         ["DeleteRecords", 2], ["ListPartitionReassignments", 0], ["AlterPartitionReassignments", 0],
         ["SaslHandShake", 0], ["SaslHandShake", 1], ["ListOffsets", 0], ["ListOffsets", 2], ["OffsetFetch", 1],
         ["ListGroups", 0], ["DescribeGroups", 0]]
M31 = 2 ** 31
QUIRK_SIG = "FindCoordinatorRequest_v0 accepts a response whose correlation id is 0 instead of its own"


def be32(n):
    return struct.pack(">i", n if n < M31 else n - 2 ** 32)


def split_frames(stream: bytes):
    """independent framing of a byte stream: complete frames, then ('bad'|'partial'|'end')"""
    out = []
    k = 0
    while True:
        if len(stream) - k < 4:
            return out, ("end" if len(stream) == k else "partial")
        (size,) = struct.unpack(">i", stream[k:k + 4])
        if size < 0:
            return out, "bad"
        if len(stream) - k - 4 < size:
            return out, "partial"
        out.append(stream[k + 4:k + 4 + size])
        k += 4 + size


# ------------------------------------------------------------------------------ scenarios
class Gen:
    def __init__(self, ck: Check, cat):
        self.ck = ck
        self.rng = ck.rng
        self.cat = cat          # catalog entries aligned with KINDS
        self.by_name = {}
        for i, k in enumerate(cat):
            if k.get("ok"):
                self.by_name.setdefault(k["name"], []).append(i)
        self.scenarios = []

    # a broker profile: one version per API name
    def profile_kinds(self, force=None):
        kinds = []
        for name, idxs in self.by_name.items():
            kinds.append(self.rng.choice(idxs))
        if force is not None:
            kinds = [k for k in kinds if self.cat[k]["name"] != self.cat[force]["name"]] + [force]
        return kinds

    def body(self, kind):
        # rotate through the catalogue so that responses in one pipeline differ where possible
        self._rot = getattr(self, "_rot", {})
        k = self._rot.get(kind, self.rng.randrange(8))
        self._rot[kind] = k + 1
        bodies = self.cat[kind]["bodies"]
        return bytes.fromhex(bodies[k % len(bodies)])

    def tags(self, kind):
        if not self.cat[kind]["flex"]:
            return b""
        r = self.rng.random()
        if r < 0.7:
            return b"\x00"
        if r < 0.85:
            return b"\x01\x05\x02\xaa\xbb"
        return b"\x02\x01\x00\x81\x01\x01\x07"          # two tags, the second with a 2-byte tag number

    def frame(self, kind, corr, body=None, tags=None):
        payload = be32(corr) + (self.tags(kind) if tags is None else tags) + (self.body(kind) if body is None else body)
        return be32(len(payload)) + payload

    def add(self, reqs, events, corr0, meta):
        """reqs: list of dicts per waiter {kind|None(raw), client}; events: impl events"""
        kinds_used = sorted({r["kind"] for r in reqs if r["kind"] is not None})
        profile = {}
        for k in kinds_used:
            c = self.cat[k]
            assert str(c["api_key"]) not in profile or profile[str(c["api_key"])] == [c["version"]] * 2
            profile[str(c["api_key"])] = [c["version"], c["version"]]
        self.scenarios.append({"profile": profile, "corr0": corr0, "events": events, "reqs": reqs, "meta": meta})

    # ---------------------------------------------------------------- building blocks
    def pick_corr0(self):
        r = self.rng.random()
        if r < 0.35:
            return M31 - 1 - self.rng.randrange(0, 10)      # the wrap happens inside the pipeline
        if r < 0.5:
            return self.rng.choice([0, 1, M31 - 1, M31 - 2])
        return self.rng.randrange(0, M31)

    def requests(self, n, kinds=None, client_p=0.25, raw_p=0.04):
        kinds = kinds or self.profile_kinds()
        reqs = []
        for _ in range(n):
            if self.rng.random() < raw_p:
                reqs.append({"kind": None, "client": False})
            else:
                reqs.append({"kind": self.rng.choice(kinds), "client": self.rng.random() < client_p})
        return reqs

    def ideal_stream(self, reqs, corr0, noresp_before=None):
        """frames answering reqs in order (corr ids as an always-open connection assigns them)"""
        frames = []
        corr = corr0
        noresp_before = noresp_before or {}
        for i, r in enumerate(reqs):
            corr = (corr + noresp_before.get(i, 0)) % M31
            if r["kind"] is None:
                payload = bytes(self.rng.randrange(256) for _ in range(self.rng.randrange(0, 12)))
                frames.append({"bytes": be32(len(payload)) + payload, "for": i, "corr": None})
            else:
                corr = (corr + 1) % M31
                frames.append({"bytes": self.frame(r["kind"], corr), "for": i, "corr": corr})
        return frames

    def send_events(self, reqs, tpos=None):
        evs = []
        for i, r in enumerate(reqs):
            t = (tpos or {}).get(i)
            if r["kind"] is None:
                evs.append(["send_raw", t])
            else:
                evs.append(["send", r["kind"], r["client"], t])
        return evs

    def chunks(self, stream, cuts):
        cuts = [0] + sorted(cuts) + [len(stream)]
        return [stream[a:b] for a, b in zip(cuts, cuts[1:])]

    # ---------------------------------------------------------------- families
    def fam_all_splits(self, n_req, maxchunks, pool, fam):
        """pipelined requests, then the whole response stream in every split into <= maxchunks chunks"""
        reqs = [{"kind": pool[i % len(pool)], "client": False} for i in range(n_req)]
        corr0 = self.pick_corr0()
        frames = self.ideal_stream(reqs, corr0)
        if n_req == 1:      # keep the exhaustive family small: shortest catalogued body
            k = pool[0]
            b = min((bytes.fromhex(x) for x in self.cat[k]["bodies"]), key=len)
            frames = [{"bytes": self.frame(k, frames[0]["corr"], body=b, tags=b"\x00" if self.cat[k]["flex"] else b""),
                       "for": 0, "corr": frames[0]["corr"]}]
        stream = b"".join(f["bytes"] for f in frames)
        n = len(stream)
        for k in range(0, maxchunks):
            for cuts in itertools.combinations(range(1, n), k):
                evs = self.send_events(reqs) + [["feed", c.hex()] for c in self.chunks(stream, cuts)]
                self.add(reqs, evs, corr0, {"family": fam, "clean": True, "stream": stream.hex(),
                                            "frames": [(f["for"], f["corr"]) for f in frames]})

    def random_cuts(self, n, k):
        pts = set()
        for _ in range(k):
            if self.rng.random() < 0.4:
                pts.add(self.rng.choice([1, 2, 3, 4, 5, 6, 7, 8, 9]))
            else:
                pts.add(self.rng.randrange(1, max(2, n)))
        return sorted(p for p in pts if 0 < p < n)

    def fam_random(self, count):
        rng = self.rng
        for _ in range(count):
            kinds = self.profile_kinds(force=rng.choice([None, None, 4, 10, 11, 12]))
            n = rng.randrange(1, 9)
            reqs = self.requests(n, kinds)
            corr0 = self.pick_corr0()
            # no-response sends interleaved
            noresp = {}
            for i in range(n):
                if rng.random() < 0.08:
                    noresp[i] = 1
            frames = self.ideal_stream(reqs, corr0, noresp)
            meta = {"family": "random", "clean": True, "fault": None}
            fault = rng.choice([None, None, None, "wrong_corr", "dup_frame", "unsolicited_end", "unsolicited_start",
                                "trunc_body", "trunc_header", "neg_size", "zero_size", "garbage", "bad_tags",
                                "swap", "trailing", "short_stream", "corr_zero"])
            blobs = [f["bytes"] for f in frames]
            owners = [(f["for"], f["corr"]) for f in frames]
            if fault:
                meta["fault"] = fault
                meta["clean"] = fault in ("trailing",)
                j = rng.randrange(len(frames))
                fr = frames[j]
                kind = reqs[fr["for"]]["kind"]
                if fault in ("wrong_corr", "corr_zero") and kind is not None:
                    c = fr["corr"]
                    if fault == "corr_zero":
                        wrong = 0
                    else:
                        wrong = rng.choice([(c + 1) % M31, (c - 1) % M31, rng.randrange(M31), M31 - 1,
                                            frames[j - 1]["corr"] if j and frames[j - 1]["corr"] is not None else (c + 2) % M31,
                                            -c if c else -1, c - 2 ** 32 if c else -2])
                    wb = struct.pack(">i", wrong if -M31 <= wrong < M31 else wrong % M31)
                    if struct.unpack(">i", wb)[0] != c:
                        payload = fr["bytes"][8:]
                        blobs[j] = be32(len(payload) + 4) + wb + payload
                        owners[j] = (fr["for"], struct.unpack(">i", wb)[0])
                        meta["fault_frame"] = j
                        meta["expect_closed"] = not (self.cat[kind]["quirk"] and struct.unpack(">i", wb)[0] == 0)
                    else:
                        meta["fault"] = None
                        meta["clean"] = True
                elif fault == "dup_frame":
                    blobs.insert(j, blobs[j])
                    owners.insert(j, owners[j])
                elif fault == "unsolicited_end":
                    k = rng.choice(kinds)
                    blobs.append(self.frame(k, rng.randrange(M31)))
                    owners.append((None, None))
                    meta["expect_closed"] = True
                elif fault == "unsolicited_start":
                    pass    # handled in the interleaving below
                elif fault == "trunc_body" and kind is not None:
                    payload = fr["bytes"][4:]
                    hdr = 4 + (len(self.first_tags(payload[4:])) if self.cat[kind]["flex"] else 0)
                    cut = rng.randrange(hdr, len(payload)) if len(payload) > hdr else hdr
                    blobs[j] = be32(cut) + payload[:cut]
                    meta["fault_frame"] = j
                elif fault == "trunc_header" and kind is not None:
                    payload = fr["bytes"][4:]
                    cut = rng.randrange(0, 5 if self.cat[kind]["flex"] else 4)
                    blobs[j] = be32(cut) + payload[:cut]
                    meta["fault_frame"] = j
                    meta["expect_closed"] = True
                elif fault == "neg_size":
                    blobs.insert(j, rng.choice([b"\x80\x00\x00\x00", b"\xff\xff\xff\xff", b"\xff\xff\xff\xfe"]))
                    owners.insert(j, (None, None))
                    meta["expect_closed"] = True
                elif fault == "zero_size":
                    blobs.insert(j, be32(0))
                    owners.insert(j, (None, None))
                elif fault == "garbage":
                    g = bytes(rng.randrange(256) for _ in range(rng.randrange(1, 30)))
                    blobs[j] = be32(len(g)) + g
                elif fault == "bad_tags" and kind is not None and self.cat[kind]["flex"]:
                    bad = rng.choice([b"\x02\x05\x00\x03\x00", b"\x01\x80\x80\x80\x80\x80\x01", b"\x02\x01\x00", b"\x01",
                                      b"\x80\x80\x80\x80\x80", b"\x01\x05\x7f\xaa"])
                    payload = be32(fr["corr"]) + bad + self.body(kind)
                    blobs[j] = be32(len(payload)) + payload
                elif fault == "swap" and len(frames) > 1:
                    j2 = (j + 1) % len(frames)
                    blobs[j], blobs[j2] = blobs[j2], blobs[j]
                    owners[j], owners[j2] = owners[j2], owners[j]
                elif fault == "trailing" and kind is not None:
                    payload = fr["bytes"][4:] + bytes(rng.randrange(256) for _ in range(rng.randrange(1, 5)))
                    blobs[j] = be32(len(payload)) + payload
                elif fault == "short_stream":
                    blobs[-1] = blobs[-1][:rng.randrange(0, len(blobs[-1]))]
                    owners = owners[:-1]
                    meta["short"] = True
                else:
                    meta["fault"] = None
                    meta["clean"] = True
            stream = b"".join(blobs)
            # --- interleaving of sends, chunks, timeouts/cancels, connection-level events
            nchunks = rng.choice([1, 1, 2, 3, 4, 6])
            chunks = self.chunks(stream, self.random_cuts(len(stream), nchunks - 1))
            disturb = rng.random() < 0.45
            tpos = {}
            evs = []
            sent = 0
            fed_bytes = 0
            frame_ends = list(itertools.accumulate(len(b) for b in blobs))
            ci = 0
            pending_noresp = dict(noresp)
            to_cancel = []
            if fault == "unsolicited_start":
                evs.append(["feed", self.frame(rng.choice(kinds), rng.randrange(M31)).hex()])
                meta["expect_closed"] = True
                meta["clean"] = False
            terminal = rng.choice([None, None, None, "eof", "reset", "close"]) if rng.random() < 0.5 else None
            term_at = rng.randrange(0, n + len(chunks) + 1) if terminal else None
            steps = 0
            while sent < n or ci < len(chunks):
                if terminal and steps == term_at:
                    if terminal == "close":
                        # close() as the client calls it: with each CloseReason (or none)
                        evs.append(["close", rng.choice([None, "SHUTDOWN", "SHUTDOWN", "IDLE_DROP", "CONNECTION_BROKEN",
                                                          "CONNECTION_TIMEOUT", "OUT_OF_SYNC", "AUTH_FAILURE"])])
                    else:
                        evs.append([terminal])
                    terminal = None
                    meta["clean"] = False
                    meta["terminated"] = True
                    if rng.random() < 0.3:
                        k = rng.choice(kinds)
                        reqs.append({"kind": k, "client": rng.random() < 0.5})
                        evs.append(["send", k, reqs[-1]["client"], None])
                steps += 1
                # how many requests are covered by the bytes fed so far / by the next chunk
                next_fed = fed_bytes + (len(chunks[ci]) if ci < len(chunks) else 0)
                covered_after = sum(1 for e in frame_ends if e <= next_fed)
                premature = rng.random() < 0.03
                can_feed = ci < len(chunks) and (sent >= min(n, covered_after) or premature or sent == n)
                if sent < n and (not can_feed or rng.random() < 0.6):
                    if pending_noresp.get(sent):
                        evs.append(["send_noresp"])
                        pending_noresp[sent] = 0
                        continue
                    r = reqs[sent]
                    evs.append(["send_raw", None] if r["kind"] is None else ["send", r["kind"], r["client"], None])
                    sent += 1
                elif can_feed:
                    if premature and sent < min(n, covered_after):
                        meta["clean"] = False
                    evs.append(["feed", chunks[ci].hex()])
                    fed_bytes = next_fed
                    ci += 1
                if disturb and sent and rng.random() < 0.25:
                    w = rng.randrange(sent)
                    if rng.random() < 0.5:
                        evs.append(["cancel", w])
                    else:
                        evs.append(["timeout", w])
                    meta["clean"] = False
                    meta["disturbed"] = True
            if terminal:
                evs.append([terminal])
                meta["clean"] = False
                meta["terminated"] = True
            if rng.random() < 0.1:
                evs.append(["feed", self.frame(rng.choice(kinds), rng.randrange(M31)).hex()])   # after everything
                meta["clean"] = False
                meta["late_frame"] = True
            # timeouts: fix the deadline of the timed-out waiters at their send events
            send_idx = {}
            w = 0
            for p, e in enumerate(evs):
                if e[0] in ("send", "send_raw"):
                    send_idx[w] = p
                    w += 1
            first_to = {}
            for p, e in enumerate(evs):
                if e[0] == "timeout" and e[1] not in first_to and send_idx.get(e[1], 10**9) < p:
                    first_to[e[1]] = p
            evs = [e for p, e in enumerate(evs) if e[0] != "timeout" or first_to.get(e[1]) == p]
            # positions moved: recompute
            send_idx, w = {}, 0
            for p, e in enumerate(evs):
                if e[0] in ("send", "send_raw"):
                    send_idx[w] = p
                    w += 1
            for p, e in enumerate(evs):
                if e[0] == "timeout":
                    se = evs[send_idx[e[1]]]
                    se[-1] = p
            meta["stream"] = stream.hex()
            meta["frames"] = owners
            self.add(reqs, evs, corr0, meta)

    @staticmethod
    def first_tags(b):
        """length of a well-formed tagged-field section at the start of b (as written by Gen.tags)"""
        for t in (b"\x00", b"\x01\x05\x02\xaa\xbb", b"\x02\x01\x00\x81\x01\x01\x07"):
            if b.startswith(t):
                return t
        return b""

    def fam_cut_everywhere(self, count, fam="cut"):
        """EOF / reset after every prefix of a response stream; truncated body at every position;
        wrong / duplicate / unsolicited correlation id at every position of the pipeline"""
        rng = self.rng
        for _ in range(count):
            kinds = self.profile_kinds(force=rng.choice([None, 10, 11]))
            n = rng.randrange(1, 5)
            reqs = self.requests(n, kinds, client_p=0.2, raw_p=0.0)
            corr0 = self.pick_corr0()
            frames = self.ideal_stream(reqs, corr0)
            stream = b"".join(f["bytes"] for f in frames)
            owners = [(f["for"], f["corr"]) for f in frames]
            for p in range(len(stream) + 1):
                for term in ("eof", "reset"):
                    evs = self.send_events(reqs) + ([["feed", stream[:p].hex()]] if p else []) + [[term]]
                    self.add(reqs, evs, corr0, {"family": fam + "-" + term, "clean": False, "terminated": True,
                                                "stream": stream[:p].hex(), "frames": owners, "cut": p,
                                                "expect_closed": True})
                if p:
                    # the reply bytes and the peer's EOF arrive back to back (as a TLS peer's data + close_notify do): the
                    # reader task sees both when it runs next
                    evs = self.send_events(reqs) + [["feed_eof", stream[:p].hex()]]
                    self.add(reqs, evs, corr0, {"family": fam + "-eof-same-tick", "clean": False, "terminated": True,
                                                "stream": stream[:p].hex(), "frames": owners, "cut": p,
                                                "expect_closed": True})
            # close() as the client issues it - with every CloseReason (and none) - after every whole-frame prefix
            for j in range(len(frames) + 1):
                pre = b"".join(f["bytes"] for f in frames[:j])
                for reason in (None, "SHUTDOWN", "IDLE_DROP", "CONNECTION_BROKEN", "CONNECTION_TIMEOUT", "OUT_OF_SYNC",
                               "AUTH_FAILURE"):
                    evs = self.send_events(reqs) + ([["feed", pre.hex()]] if j else []) + [["close", reason]]
                    self.add(reqs, evs, corr0, {"family": fam + "-close", "clean": False, "terminated": True,
                                                "stream": pre.hex(), "frames": owners, "cut": len(pre),
                                                "expect_closed": True})
            # truncated body at every position, for every request of the pipeline
            for j, fr in enumerate(frames):
                payload = fr["bytes"][4:]
                for cut in range(0, len(payload)):
                    blobs = [f["bytes"] for f in frames]
                    blobs[j] = be32(cut) + payload[:cut]
                    st = b"".join(blobs)
                    evs = self.send_events(reqs) + [["feed", st.hex()]]
                    self.add(reqs, evs, corr0, {"family": fam + "-truncated", "clean": False, "stream": st.hex(),
                                                "frames": owners, "fault": "trunc", "fault_frame": j, "cut": cut})
            # wrong / duplicate correlation id at every position
            for j, fr in enumerate(frames):
                c = fr["corr"]
                cands = {(c + 1) % M31, (c - 1) % M31, 0, M31 - 1, -1, -M31}
                cands |= {f["corr"] for f in frames}
                for wrong in sorted(cands):
                    if wrong == c:
                        continue
                    blobs = [f["bytes"] for f in frames]
                    blobs[j] = be32(len(fr["bytes"]) - 4) + struct.pack(">i", wrong) + fr["bytes"][8:]
                    st = b"".join(blobs)
                    ow = list(owners)
                    ow[j] = (fr["for"], wrong)
                    quirk0 = self.cat[reqs[fr["for"]]["kind"]]["quirk"] and wrong == 0
                    evs = self.send_events(reqs) + [["feed", st.hex()]]
                    self.add(reqs, evs, corr0, {"family": fam + "-wrongcorr", "clean": False, "stream": st.hex(),
                                                "frames": ow, "fault": "wrong_corr", "fault_frame": j,
                                                "expect_closed": not quirk0})
            # unsolicited frame at every position of the pipeline (one more frame than requests in flight)
            for j in range(n + 1):
                blobs = [f["bytes"] for f in frames[:j]] + [self.frame(rng.choice(kinds), rng.randrange(M31))]
                st = b"".join(blobs)
                evs = self.send_events(reqs[:j]) + [["feed", st.hex()]] + self.send_events(reqs[j:])
                self.add(reqs, evs, corr0, {"family": fam + "-unsolicited", "clean": False, "stream": st.hex(),
                                            "frames": owners[:j] + [(None, None)], "expect_closed": True})

    def fam_timeouts(self, count):
        """a waiter times out / is cancelled before, between or after the bytes of its response"""
        rng = self.rng
        for _ in range(count):
            kinds = self.profile_kinds()
            n = rng.randrange(1, 5)
            reqs = self.requests(n, kinds, client_p=0.4, raw_p=0.0)
            corr0 = self.pick_corr0()
            frames = self.ideal_stream(reqs, corr0)
            victim = rng.randrange(n)
            start = sum(len(f["bytes"]) for f in frames[:victim])
            end = start + len(frames[victim]["bytes"])
            stream = b"".join(f["bytes"] for f in frames)
            for cutp in sorted({0, start, start + 1, start + 4, (start + end) // 2, end - 1, end, len(stream)}):
                if not 0 <= cutp <= len(stream):
                    continue
                for how in ("timeout", "cancel"):
                    evs = self.send_events(reqs)
                    if cutp:
                        evs.append(["feed", stream[:cutp].hex()])
                    evs.append([how, victim])
                    if how == "timeout":
                        evs[victim][-1] = len(evs) - 1
                    if cutp < len(stream):
                        evs.append(["feed", stream[cutp:].hex()])
                    self.add(reqs, evs, corr0, {"family": "waiter-" + how, "clean": False, "disturbed": True,
                                                "stream": stream.hex(), "victim": victim, "at": cutp,
                                                "frames": [(f["for"], f["corr"]) for f in frames]})


def gen_scenarios(ck: Check, cat):
    import glob
    import os
    g = Gen(ck, cat)
    # corpus first: minimised past failures / findings
    for fn in sorted(glob.glob(os.path.join(os.path.dirname(os.path.dirname(os.path.abspath(__file__))),
                                            "corpus", "C12", "*.json"))):
        sc = json.load(open(fn))["replay"]["scenario"]
        sc["meta"]["family"] = "corpus"
        g.scenarios.append(sc)
    idx = {(k[0], k[1]): i for i, k in enumerate(KINDS)}
    hb, lg = idx[("Heartbeat", 0)], idx[("LeaveGroup", 0)]
    dr2, lpr = idx[("DeleteRecords", 2)], idx[("ListPartitionReassignments", 0)]
    # every split into <= 4 chunks of short streams (non-flexible and flexible headers)
    g.fam_all_splits(2, 4, [hb, lg], "all-splits-2req")
    g.fam_all_splits(1, 4, [dr2], "all-splits-flex")
    if ck.thorough:
        g.fam_all_splits(3, 4, [hb, lg], "all-splits-3req")
        g.fam_all_splits(1, 4, [lpr], "all-splits-flex2")
        g.fam_all_splits(1, 4, [idx[("FindCoordinator", 0)]], "all-splits-1req")
        g.fam_all_splits(2, 3, [dr2, idx[("Heartbeat", 1)]], "all-splits-mixed")
    g.fam_cut_everywhere(ck.n(3, 40))
    g.fam_timeouts(ck.n(25, 400))
    g.fam_random(ck.n(1000, 40000))
    return g.scenarios


# ------------------------------------------------------------------------------ model trace
def model_events(sc, cat, streams=None):
    out = []
    clients = []
    stream = bytes.fromhex(sc["meta"].get("stream", "")) if streams is not None else b""
    sname = None
    off = 0
    for e in sc["events"]:
        k = e[0]
        if k == "send":
            c = cat[e[1]]
            out.append(f"Send {e[1]} {'true' if c['flex'] else 'false'} {'true' if c['quirk'] else 'false'}")
            clients.append(bool(e[2]))
        elif k == "send_raw":
            out.append("SendRaw")
            clients.append(False)
        elif k == "send_noresp":
            out.append("SendNoResp")
        elif k in ("feed", "feed_eof"):
            chunk = bytes.fromhex(e[1])
            if streams is not None and len(chunk) >= 1 and stream[off:off + len(chunk)] == chunk:
                if sname is None:
                    sname = streams.setdefault(stream.hex(), f"st{len(streams)}")
                out.append(f"Feed (sl {sname} {off} {off + len(chunk)})")
                off += len(chunk)
            else:
                out.append(f'Feed (hx "{e[1]}")')
            if k == "feed_eof":
                out.append("Eof")       # the peer's bytes and its EOF reach the stream reader in the same loop iteration
        elif k == "timeout":
            out.append(f"Timeout {e[1]}%nat {'true' if clients[e[1]] else 'false'}")
        elif k == "cancel":
            out.append(f"Cancel {e[1]}%nat")
        elif k == "eof":
            out.append("Eof")
        elif k == "reset":
            out.append("Reset")
        elif k == "close":
            out.append("Close")
    return "[" + "; ".join(out) + "]"


CODE = {2: ["CorrErr"], 3: ["TimedOut"], 4: ["Cancelled"], 10: ["ConnErr", "none"], 11: ["ConnErr", "eof"],
        12: ["ConnErr", "reset"], 13: ["ConnErr", "unsolicited"], 14: ["ConnErr", "malformed"],
        15: ["ConnErr", "noconn"]}


def scenario_queries(sc, cat):
    """(kind, frame) pairs whose body-decodability the model may ask for: the head of the queue is
    asked to decode a body only when the frame's correlation id is its own (or 0 for a quirk
    waiter), so only those pairs are needed (a miss answers false and would surface as a
    disagreement)"""
    stream = b"".join(bytes.fromhex(e[1]) for e in sc["events"] if e[0] in ("feed", "feed_eof"))
    frames, _ = split_frames(stream)
    # correlation ids as send() assigns them while the connection is open
    corr = sc["corr0"]
    want = []
    for e in sc["events"]:
        if e[0] == "send_noresp":
            corr = (corr + 1) % M31
        elif e[0] == "send":
            corr = (corr + 1) % M31
            want.append((e[1], corr))
    out = []
    seen = set()
    for f in frames:
        if len(f) < 4:
            continue
        (rc,) = struct.unpack(">i", f[:4])
        for kind, c in want:
            if (rc == c or (cat[kind]["quirk"] and rc == 0)) and (kind, f) not in seen:
                seen.add((kind, f))
                out.append((kind, f.hex()))
    return out


def expected_from_model(sc, mv, oracle):
    """translate the rendered model state into the shape of the real result"""
    is_open, corr, pending, log, rbuf_len, nreqs = mv
    outs = {}
    for (wid, (code, frame)) in log:
        kind = sc["reqs"][wid]["kind"] if wid < len(sc["reqs"]) else None
        if code == 0:
            o = oracle.get((kind, bytes(frame).hex()))
            outs[wid] = ["Resp", o[4], o[3]] if o and o[2] else ["Resp", "?", "?"]
        elif code == 1:
            outs[wid] = ["Raw", bytes(frame).hex()]
        else:
            outs[wid] = CODE[code]
    nw = len(sc["reqs"])
    return {"outcomes": [outs.get(i, ["Pending"]) for i in range(nw)], "open": bool(is_open), "corr": corr,
            "inflight": nreqs}


def canon_real(res):
    outs = []
    for o in res["outcomes"]:
        if o[0] == "ConnErr":
            outs.append(o[:2])
        elif o[0] == "TimedOut":
            outs.append(["TimedOut"])
        else:
            outs.append(o)
    return {"outcomes": outs, "open": res["open"], "corr": res["corr"], "inflight": res["inflight"]}


# ------------------------------------------------------------------------------ monitors
def monitor(sc, res, oracle, cat):
    """the property on the real outcome of one scenario -> list of (clause, message, signature)"""
    bad = []
    meta = sc["meta"]
    outs = res["outcomes"]
    reqs = sc["reqs"]
    # the correlation ids the connection put on the wire: in range, consecutive mod 2^31, distinct
    wire = [c for c in res["sent_corr"] if c is not None]
    exp = []
    c = sc["corr0"]
    for _ in wire:
        c = (c + 1) % M31
        exp.append(c)
    if wire != exp or any(not (0 <= x < M31) for x in wire) or len(set(wire)) != len(wire):
        bad.append(("corr_range", f"correlation ids on the wire {wire} (counter preset {sc['corr0']}), "
                                  f"expected {exp}", "corr-range"))
    wcorr = res["waiter_corr"]
    # exact delivery, in request order: the delivered responses, by waiter id, are matched greedily to
    # frames of the stream carrying the waiter's own correlation id
    stream = b"".join(bytes.fromhex(e[1]) for e in sc["events"] if e[0] in ("feed", "feed_eof"))
    frames, _ = split_frames(stream)
    pos = 0
    for wid, o in enumerate(outs):
        if o[0] != "Resp" or wid >= len(reqs) or reqs[wid]["kind"] is None:
            continue
        kind = reqs[wid]["kind"]
        if o[1] != cat[kind]["response"]:
            bad.append(("exact_delivery", f"waiter {wid} ({cat[kind]['name']} v{cat[kind]['version']}) got a {o[1]}",
                        "wrong-class"))
        found = None
        mine = wcorr[wid] if wid < len(wcorr) else None
        for strict in (True, False):      # prefer a frame that carries the waiter's own id
            for p in range(pos, len(frames)):
                q = oracle.get((kind, frames[p].hex()))
                if q and q[2] and q[3] == o[2] and (q[5] == mine or not strict):
                    found = (p, q[5])
                    break
            if found:
                break
        if found is None:
            bad.append(("exact_delivery", f"waiter {wid} received a response that is no frame of the stream after "
                                          f"the previous delivery", "not-in-order"))
            continue
        pos = found[0] + 1
        if found[1] != mine:
            if cat[kind]["quirk"] and found[1] == 0:
                bad.append(("exact_delivery", QUIRK_SIG + f" (sent {mine})", QUIRK_SIG))
            else:
                bad.append(("exact_delivery", f"waiter {wid} sent correlation id {mine} and was given the response "
                                              f"carrying {found[1]}", "foreign-response"))
    # failure fails all
    if not res["open"] and any(o[0] == "Pending" for o in outs):
        bad.append(("failure_fails_all", f"connection closed but waiter(s) "
                                         f"{[i for i, o in enumerate(outs) if o[0] == 'Pending']} still pending",
                    "pending-after-close"))
    if not res["open"] and res["inflight"]:
        bad.append(("failure_fails_all", "connection closed with requests still queued", "queue-after-close"))
    if meta.get("expect_closed") and res["open"]:
        bad.append(("failure_fails_all", f"connection still open after {meta.get('fault') or meta['family']}",
                    "open-after-failure"))
    if meta.get("expect_closed") is False and meta.get("fault") in ("wrong_corr", "corr_zero") and res["open"] \
            and not meta.get("disturbed") and not meta.get("terminated"):
        bad.append(("failure_fails_all", QUIRK_SIG + ": the connection stays open", QUIRK_SIG))
    # a clean exchange: every waiter gets its own response, the connection stays open
    if meta.get("clean") and not meta.get("short"):
        for wid, o in enumerate(outs):
            if o[0] not in ("Resp", "Raw"):
                bad.append(("exact_delivery", f"clean exchange: waiter {wid} ended with {o}", "clean-not-delivered"))
                break
        if not res["open"]:
            bad.append(("exact_delivery", "clean exchange closed the connection", "clean-closed"))
    return bad


# ------------------------------------------------------------------------------ driver
def public(sc):
    return {"profile": sc["profile"], "corr0": sc["corr0"], "events": sc["events"], "reqs": sc["reqs"],
            "meta": {k: v for k, v in sc["meta"].items() if k not in ("stream",)}}


def run_real(ck, scenarios, cat, nshards=16):
    import concurrent.futures as cf
    parts = [scenarios[k::nshards] for k in range(nshards)]
    queries = [sorted({q for sc in p for q in scenario_queries(sc, cat)}) for p in parts]

    def one(k):
        if not parts[k]:
            return {"results": [], "oracle": []}
        return run_impl("c12_impl.py", {"mode": "run", "kinds": KINDS,
                                        "scenarios": [{"profile": s["profile"], "corr0": s["corr0"],
                                                       "events": s["events"]} for s in parts[k]],
                                        "queries": queries[k]}, timeout=1500)
    with cf.ThreadPoolExecutor(max_workers=nshards) as ex:
        outs = list(ex.map(one, range(nshards)))
    res = [None] * len(scenarios)
    oracle = {}
    for k, o in enumerate(outs):
        for j, r in enumerate(o["results"]):
            res[k + j * nshards] = r
        for (kind, fhex), ent in zip(queries[k], o["oracle"]):
            oracle[(kind, fhex)] = ent
    return res, oracle


def run_model(ck, scenarios, oracle, cat, label="cases", nshards=16):
    nshards = max(1, min(nshards, len(scenarios) // 50 + 1))
    bodies = []
    for s in range(nshards):
        part = list(range(s, len(scenarios), nshards))
        tabs = {}
        streams = {}
        lines = []
        for i in part:
            sc = scenarios[i]
            ev_txt = model_events(sc, cat, streams)
            stream = bytes.fromhex(sc["meta"].get("stream", ""))
            sname = streams.get(stream.hex())
            ents = []
            seen = set()
            for q in scenario_queries(sc, cat):
                o = oracle.get(q)
                if o is None or o[1] is None:
                    continue
                key = (o[0], o[1])
                if key in seen:
                    continue
                seen.add(key)
                frame = bytes.fromhex(q[1])
                blen = len(o[1]) // 2
                pos = stream.find(struct.pack(">i", len(frame)) + frame) if sname else -1
                if pos >= 0 and blen:
                    end = pos + 4 + len(frame)
                    btxt = f"sl {sname} {end - blen} {end}"
                else:
                    btxt = f'hx "{o[1]}"'
                ents.append(f'({o[0]}, {btxt}, {"true" if o[2] else "false"})')
            t = "[" + "; ".join(ents) + "]"
            if t not in tabs:
                tabs[t] = f"t{len(tabs)}"
            lines.append(f"({tabs[t]}, {sc['corr0']}, {ev_txt})")
        body = "Import Oracle.\n"
        for st, name in streams.items():
            body += f'Definition {name} : bytes := hx "{st}".\n'
        for t, name in tabs.items():
            body += f"Definition {name} : list (Z * bytes * bool) := {t}.\n"
        body += "Definition scs := [" + ";\n ".join(lines) + "].\n"
        body += "Eval vm_compute in (map (fun '(t, c0, evs) => run_render t c0 evs) scs).\n"
        bodies.append((part, body))
    outs = ck.coq_eval_sharded(f"c12_{label}", ["Imp", "NextCorr", "C12_Conn"], [b for _, b in bodies], timeout=1500)
    model = [None] * len(scenarios)
    err = ""
    for (part, _), (ok, out) in zip(bodies, outs):
        if not ok:
            err = err or ("coqc failed: " + out[-800:])
            continue
        vals = [parse_coq_value(v) for v in parse_eval_outputs(out)]
        if len(vals) != 1 or len(vals[0]) != len(part):
            err = err or f"unexpected Coq output shape ({len(vals)} values)"
            continue
        for i, mv in zip(part, vals[0]):
            model[i] = mv
    return model, err


def evaluate(ck, scenarios, cat, label="cases"):
    import time
    t0 = time.time()
    res, oracle = run_real(ck, scenarios, cat)
    t1 = time.time()
    model, err = run_model(ck, scenarios, oracle, cat, label)
    ck.extra["timing_s"] = {"real": round(t1 - t0, 1), "model": round(time.time() - t1, 1)}
    ck.log(f"real run {t1 - t0:.1f}s, model run {time.time() - t1:.1f}s")
    mism = 0
    first = err
    nviol = 0
    fam_out = {}
    for i, (sc, r) in enumerate(zip(scenarios, res)):
        if r is None or "driver_error" in r:
            mism += 1
            first = first or f"scenario {i}: driver error {r and r.get('driver_error')}"
            continue
        for clause, msg, sig in monitor(sc, r, oracle, cat):
            nviol += 1
            if nviol <= 400:
                ck.violation(f"{clause}: {msg}", {"scenario": public(sc), "kinds": KINDS, "real": r, "clause": clause},
                             signature=sig if sig == QUIRK_SIG else f"{clause}:{sig}:{sc['meta']['family']}")
        if model[i] is None:
            mism += 1
            continue
        want = expected_from_model(sc, model[i], oracle)
        got = canon_real(r)
        if want != got:
            mism += 1
            if mism <= 5:
                ck.violation(f"model/implementation disagreement ({sc['meta']['family']}, fault {sc['meta'].get('fault')}): "
                             f"real {json.dumps(got)[:300]} model {json.dumps(want)[:300]}",
                             {"scenario": public(sc), "kinds": KINDS, "real": r, "model": want,
                              "clause": "correspondence"},
                             signature=f"correspondence:{sc['meta']['family']}:{sc['meta'].get('fault')}")
            first = first or f"scenario {i} ({sc['meta']['family']}): real {json.dumps(got)[:400]} / model {json.dumps(want)[:400]}"
        # chunking independence on the real outcomes, within an all-splits family
        fam = sc["meta"]["family"]
        if fam.startswith("all-splits"):
            key = (fam, sc["meta"]["stream"])
            sig = json.dumps(canon_real(r), sort_keys=True)
            if key not in fam_out:
                fam_out[key] = sig
            elif fam_out[key] != sig:
                nviol += 1
                ck.violation("chunking: the same response stream split differently gives different outcomes",
                             {"scenario": public(sc), "kinds": KINDS, "real": r, "clause": "chunking"},
                             signature=f"chunking:{fam}")
        kinds_used = tuple(sorted({x["kind"] for x in sc["reqs"] if x["kind"] is not None}))
        ck.count(key=(fam, sc["corr0"], json.dumps(sc["events"])),
                 nontrivial=not (sc["meta"].get("clean") and len(sc["events"]) <= 2),
                 sample={"family": fam, "fault": sc["meta"].get("fault"), "events": [e[0] for e in sc["events"]],
                         "outcomes": [o[0] for o in r["outcomes"]], "open": r["open"], "kinds": kinds_used}
                 if i % 997 == 0 else None)
    return mism, nviol, first, res


def run(ck: Check):
    ck.trusted += [
        "Coq 8.16.1 kernel (coqc); vm_compute for evaluating the model",
        "translator/py2gallina.py for NextCorr (the correlation counter is compared with the real one on every scenario)",
        "model/C12_Conn.v is a hand-written model of conn.py send/_read/_handle_frame/close; tied to the code by the "
        "correspondence run (real AIOKafkaConnection on an in-memory transport, virtual-time loop)",
        "RESPONSE_TYPE.decode (the body decoder, property C11) enters the model as an oracle table computed with the "
        "real decoder; asyncio streams/tasks/timeouts (async_timeout) are used as they are",
        "the harness lets the loop settle after every event: races inside one loop iteration (a response arriving in "
        "the same iteration as the timeout) are not explored",
    ]
    ck.cov["rule"] = ("one evaluation = one event sequence (sends of mixed API types, response bytes in chunks, timeouts, "
                      "cancellations, EOF/reset/close) on a fresh real connection, compared with the model; non-trivial = "
                      "anything but a one-chunk clean exchange; distinct by (family, counter preset, event list)")
    ok_t, _ = ck.regenerate(["NextCorr"])
    ok_p, _ = ck.coq_props("C12")
    ck.log(f"translation ok={ok_t}, proofs ok={ok_p}")
    cat = run_impl("c12_impl.py", {"mode": "catalog", "kinds": KINDS, "seed": ck.seed, "bodies": 8})["kinds"]
    okc = all(k.get("ok") for k in cat) and any(k["flex"] for k in cat) and any(k["quirk"] for k in cat)
    ck.obligation("correspondence:api-catalog", okc,
                  "" if okc else "some request kind could not be built: " + json.dumps([k for k in cat if not k.get("ok")])[:300])
    scenarios = gen_scenarios(ck, cat)
    ck.log(f"{len(scenarios)} scenarios")
    mism, nviol, first, res = evaluate(ck, scenarios, cat)
    ck.obligation("correspondence:real-AIOKafkaConnection-vs-model", mism == 0,
                  first or f"{len(scenarios)} event sequences: every waiter outcome, open flag, correlation counter and "
                           f"queue length agree")
    known = sum(1 for v in ck.violations if v.signature == QUIRK_SIG)
    ck.obligation("monitor:property-on-real-outcomes", nviol - known == 0,
                  f"{nviol - known} violation(s) besides {known} hit(s) of the known finding" if nviol
                  else f"{len(scenarios)} scenarios satisfy the property")
    fams = {}
    outc = {}
    for sc, r in zip(scenarios, res):
        f = sc["meta"]["family"]
        fams[f] = fams.get(f, 0) + 1
        for o in (r or {}).get("outcomes", []):
            k = o[0] + (":" + o[1] if o[0] == "ConnErr" else "")
            outc[k] = outc.get(k, 0) + 1
    ck.extra["scenarios_by_family"] = fams
    ck.extra["waiter_outcomes"] = outc
    ck.extra["faults"] = {}
    for sc in scenarios:
        f = sc["meta"].get("fault")
        ck.extra["faults"][str(f)] = ck.extra["faults"].get(str(f), 0) + 1
    ck.extra["flexible_header_scenarios"] = sum(1 for sc in scenarios
                                                if any(x["kind"] is not None and cat[x["kind"]]["flex"] for x in sc["reqs"]))
    ck.extra["wrap_scenarios"] = sum(1 for sc in scenarios if sc["corr0"] + len(sc["reqs"]) >= M31)
    ck.log(f"{len(scenarios)} scenarios; {mism} disagreement(s); {nviol} monitor hit(s) ({known} known finding)")


def replay(ck: Check, path):
    rp = json.load(open(path))["replay"]
    sc = rp["scenario"]
    sc.setdefault("meta", {}).setdefault("family", "replay")
    cat = run_impl("c12_impl.py", {"mode": "catalog", "kinds": KINDS, "seed": ck.seed, "bodies": 8})["kinds"]
    res, oracle = run_real(ck, [sc], cat, nshards=1)
    print(json.dumps({"scenario": sc, "real": res[0]}, indent=1)[:6000])
    for clause, msg, sig in monitor(sc, res[0], oracle, cat):
        print(f"REPRODUCED {clause}: {msg}")
        ck.violation(f"{clause}: {msg}", {"scenario": public(sc), "kinds": KINDS, "real": res[0], "clause": clause},
                     signature=sig if sig == QUIRK_SIG else f"{clause}:{sig}:{sc['meta']['family']}")
    model, err = run_model(ck, [sc], oracle, cat, "replay")
    if model[0] is not None:
        want = expected_from_model(sc, model[0], oracle)
        print("model:", json.dumps(want))
        if want != canon_real(res[0]):
            print("REPRODUCED model/implementation disagreement")
    return ck.finish()
