"""C08 — Isolation filter: no aborted, no unstable, no control records delivered.

(1) proof obligations: gen/ConsumeAborted.v is regenerated from
    PartitionRecords._consume_aborted_up_to (translator/units_c08.py), props/C08.v is re-checked;
(2) correspondence: the REAL PartitionRecords (built like Fetcher._proc_fetch_request builds it,
    over real v2 bytes written by harness/impl/c08_ref.py, iterated to exhaustion) against the
    Gallina `unpack` / `fetch_seq` evaluated inside Coq on the same abstract log (the Coq side
    gets the operations, builds the log itself) — delivered (offset, key, value) list, final
    next_fetch_offset, raised or not; plus the translated _consume_aborted_up_to and the model
    of sorted(...) against the real method on random queues;
(3) independent monitor: the property itself on the real outputs against the plain-Python
    reference reader (own v2 parser, transaction outcome = next marker of the producer):
    exact read_committed / read_uncommitted views, nothing at a marker offset, everything
    below LSO / HW, position = end of the last batch returned, a sequence of cuts delivers what
    one big response delivers.
"""
import concurrent.futures as cf
import json
import os
import random
import shutil
import subprocess
import sys
import tempfile
import time

import common
from common import Check, coq_bool, coq_list, coq_Z, parse_coq_value, parse_eval_outputs, run_impl

sys.path.insert(0, os.path.join(os.path.dirname(os.path.abspath(__file__)), "impl"))
import c08_ref  # noqa: E402
from c08_ref import RC, RU, Log  # noqa: E402

PIDS = [0, 1, 2, 3, 5, 7, 11, 1000, 2**40 + 3]


# ------------------------------------------------------------------------------------ generators
class Gen:
    def __init__(self, rng):
        self.rng = rng
        self.tag = 100

    def data(self, pid, txn):
        rng = self.rng
        n = rng.choice([1, 1, 2, 2, 3, 4])
        m = rng.random()
        if m < 0.62:
            ds = list(range(n))
        elif m < 0.82:
            ds = [d for d in range(n) if rng.random() < 0.5]
        elif m < 0.91:
            ds = []                       # empty batch retained by the cleaner
        else:
            ds = None                     # batch removed by the cleaner
        kept = None
        if ds is not None:
            kept = []
            for d in ds:
                kept.append([d, self.tag])
                self.tag += 1
        op = ["D", pid, txn, n, kept]
        if kept and rng.random() < 0.08:
            op.append(True)               # gzip-compressed batch
        return op

    def ops(self, max_ops, max_prod=4):
        rng = self.rng
        pids = rng.sample(PIDS, rng.choice([1, 2, 2, 3, max_prod, rng.randint(1, max_prod)]))
        nops = rng.randint(1, max_ops) if rng.random() < 0.4 else max(1, max_ops - rng.choice([0, 0, 1, 2, 3]))
        opened = set()
        ops = []
        p_abort = rng.choice([0.35, 0.5, 0.65, 0.8])
        for _ in range(nops):
            r = rng.random()
            if r < 0.48:
                p = rng.choice(pids)
                ops.append(self.data(p, True))
                opened.add(p)
            elif r < 0.76:
                if opened and rng.random() < 0.88:
                    p = rng.choice(sorted(opened))
                else:
                    p = rng.choice(pids)          # often a solitary marker
                opened.discard(p)
                ops.append(["M", p, rng.random() >= p_abort])
            else:
                # plain batch: no producer id, an idempotent producer, or (more liberal than a
                # broker) the id of a producer that may be inside a transaction
                p = rng.choice([-1, -1, 424242, rng.choice(pids), rng.choice(pids)])
                ops.append(self.data(p, False))
        return ops


def interesting_offsets(log):
    s = {0, log.leo, log.lso, max(0, log.lso - 1)}
    for b in log.batches:
        s.update([b.base, b.base + 1, b.last, b.last + 1])
    for (_p, first, last, _c) in log.done:
        s.update([first, first + 1, last, last + 1])
    return sorted(x for x in s if 0 <= x <= log.leo + 1)


def make_idx(log, rng, iso, f, resp, mode=None):
    """an index the broker may send for this fetch (None for read_uncommitted most of the time)"""
    if iso == RU and rng.random() < 0.7:
        return None
    end = (log.batches[resp[-1]].last + 1) if resp else f
    u = end + (rng.choice([0, 0, 1, 3, 1000]) if mode is None else mode)
    idx = log.kafka_index(f, u)
    if rng.random() < 0.3:
        # after cleaning, Kafka keeps the index entry of an aborted transaction only while a batch
        # of it is left: entries of transactions without a batch in the answer may be missing
        bs = [log.batches[i] for i in resp]
        last_of = {(p, fo): la for (p, fo, la, c) in log.done if not c}
        idx = [e for e in idx
               if any(b.txn and not b.ctl and b.pid == e[0] and e[1] <= b.base < last_of[(e[0], e[1])]
                      for b in bs) or rng.random() < 0.5]
    rng.shuffle(idx)
    if idx and rng.random() < 0.1:
        idx.append(list(rng.choice(idx)))        # a repeated entry changes nothing
    return idx


def gen_cases(log, rng, exhaustive):
    cases = []
    if exhaustive:
        for iso in (RC, RU):
            bound = log.bound(iso)
            for f in range(0, log.leo + 2):
                nb = len(log.response(bound, f, 10**6))
                for k in range(0, nb + 1):
                    resp = log.response(bound, f, k)
                    cases.append({"iso": iso, "f": f, "k": k,
                                  "idx": make_idx(log, rng, iso, f, resp, mode=(f + k) % 2 * 1000),
                                  "trunc": 0})
    else:
        offs = interesting_offsets(log)
        for iso in (RC, RU):
            bound = log.bound(iso)
            for _ in range(4 if iso == RC else 2):
                f = rng.choice(offs) if rng.random() < 0.8 else rng.randint(0, log.leo + 1)
                nb = len(log.response(bound, f, 10**6))
                k = rng.choice([nb, nb, nb + 3, rng.randint(0, nb), 1])    # nb + 3: room for more than there is
                resp = log.response(bound, f, k)
                cases.append({"iso": iso, "f": f, "k": k, "idx": make_idx(log, rng, iso, f, resp),
                              "trunc": rng.choice([0, 0, 0, 1, 17, 61, 70])})
    return cases


def gen_seqs(log, rng, n):
    seqs = []
    for _ in range(n):
        iso = rng.choice([RC, RC, RU])
        f = rng.choice(interesting_offsets(log))
        steps = []
        for _ in range(len(log.batches) + 2):
            steps.append({"k": rng.choice([1, 1, 2, 3]), "uextra": rng.choice([0, 0, 2, 1000]),
                          "perm": rng.randrange(1 << 30), "trunc": rng.choice([0, 0, 9, 64]),
                          "idx_for_ru": rng.random() < 0.2})
        seqs.append({"iso": iso, "f": f, "steps": steps})
    return seqs


# ------------------------------------------------------------------------------------ Coq side
def coq_op(op):
    if op[0] == "D":
        _, pid, txn, n, kept = op[:5]
        k = "None" if kept is None else "(Some " + coq_list(kept, lambda e: f"({coq_Z(e[0])}, {coq_Z(e[1])})") + ")"
        return f"ODataOp {coq_Z(pid)} {coq_bool(txn)} {coq_Z(n)} {k}"
    return f"OMarkerOp {coq_Z(op[1])} {coq_bool(op[2])}"


def coq_idx(idx):
    return coq_list(idx or [], lambda e: f"({coq_Z(e[0])}, {coq_Z(e[1])})")


def coq_iso(iso):
    return "RC" if iso == RC else "RU"


COQ_PRELUDE = (
    "Definition out3 (x : list rec * Z * bool) := (map (fun r => (r_off r, r_tag r)) (delivered x), position x, raised x).\n"
    "Definition run1 (s : lstate) (c : iso * Z * nat * list (Z * Z)) := let '(i, f, k, idx) := c in "
    "out3 (unpack i f idx (response s (bound s i) f k)).\n"
    "Definition runs (s : lstate) (c : iso * Z * list (nat * list (Z * Z))) := let '(i, f, cuts) := c in "
    "out3 (fetch_seq s i f cuts).\n")


def coq_body(entries):
    """entries: [(ops, cases, seqs)] with seqs = [(iso, f0, [(k, idx)...])].  One Eval per log; its
    value prints as the 6-tuple (valid, lso, hw, #batches, [case results], [sequence results])."""
    L = [COQ_PRELUDE]
    for n, (ops, cases, seqs) in enumerate(entries):
        cs = coq_list(cases, lambda c: f"({coq_iso(c['iso'])}, {coq_Z(c['f'])}, {min(c['k'], 5000)}%nat, {coq_idx(c['idx'])})")
        ss = coq_list(seqs, lambda q: f"({coq_iso(q[0])}, {coq_Z(q[1])}, "
                      + coq_list(q[2], lambda st: f"({st[0]}%nat, {coq_idx(st[1])})") + ")")
        L.append(f"Definition o{n} := {coq_list(ops, coq_op)}.\n")
        L.append(f"Eval vm_compute in (let s := build o{n} in (forallb valid_op o{n}, lso s, hw s, "
                 f"Z.of_nat (List.length (batches s)), "
                 f"map (run1 s) ({cs} : list (iso * Z * nat * list (Z * Z))), "
                 f"map (runs s) ({ss} : list (iso * Z * list (nat * list (Z * Z)))))).\n")
    return "".join(L)


# ------------------------------------------------------------------------------------ comparison
def expect_wire(tag):
    k, v = c08_ref.data_key(tag), c08_ref.data_value(tag)
    return (None if k is None else k.hex(), None if v is None else v.hex())


def model_to_wire(recs):
    return [[off, *expect_wire(tag)] for (off, tag) in recs]


def nontrivial_case(log, iso, f, resp):
    if not resp:
        return False
    bs = [log.batches[i] for i in resp]
    return any(b.ctl or b.txn for b in bs) or bs[0].base < f


def check_one(ck, log, whole_raw, case, real, tag, stats):
    """monitor of the property on one real fetch; returns list of violation strings"""
    iso, f, k = case["iso"], case["f"], case["k"]
    resp = log.response(log.bound(iso), f, k)
    resp_raw = log.response_bytes(resp, case.get("trunc", 0))
    want = [[o, None if key is None else key.hex(), None if val is None else val.hex()]
            for (o, key, val) in c08_ref.ref_view(whole_raw, resp_raw, iso, f, log.lso, log.hw)]
    bad = []
    if real["exc"] is not None:
        bad.append(f"iterator raised {real['exc']}")
    got = real["out"]
    if got != want:
        go, wo = [r[0] for r in got], [r[0] for r in want]
        extra = [o for o in go if o not in wo]
        missing = [o for o in wo if o not in go]
        if extra:
            kinds = []
            moffs = c08_ref.marker_offsets(whole_raw)
            outcome = c08_ref.classify(c08_ref.parse_batches(whole_raw))
            for o in extra:
                if o in moffs:
                    kinds.append(f"{o}:control-record")
                elif o < f:
                    kinds.append(f"{o}:below-fetch-offset")
                else:
                    b = [x for x in log.batches if x.base <= o <= x.last][0]
                    kinds.append(f"{o}:{outcome.get(b.base, 'plain')}")
            bad.append(f"{iso} delivered records it must not deliver: {kinds}")
        if missing:
            bad.append(f"{iso} did not deliver visible records at offsets {missing}")
        if not extra and not missing:
            bad.append(f"{iso} delivered the right offsets but in wrong order/content: {got[:4]} vs {want[:4]}")
    if any(r[0] >= log.bound(iso) for r in got):
        bad.append(f"delivered a record at or above the bound {log.bound(iso)}")
    if [r[0] for r in got] != sorted(set(r[0] for r in got)):
        bad.append("delivered offsets are not strictly increasing")
    end = (log.batches[resp[-1]].last + 1) if resp else f
    if real["exc"] is None and real["nfo"] != end:
        bad.append(f"next_fetch_offset after the response is {real['nfo']}, end of the last batch returned is {end}"
                   + (" (no progress: the same batch would be fetched again)" if resp and real["nfo"] is not None and real["nfo"] <= f else ""))
    if not real.get("trace_ok", True):
        bad.append("next_fetch_offset is not record.offset + 1 right after a delivered record")
    # the same response consumed through the FetchResult API (getone() / getmany() path) must deliver the same
    # records and leave the consumer's position at the end of the response - also when nothing was deliverable
    for mode, v in sorted((real.get("via") or {}).items()):
        how = "getone()" if mode == "0" else f"getall(max_records={mode})"
        if real["exc"] is None and v["exc"] is not None:
            bad.append(f"via {how}: raised {v['exc']}")
        elif real["exc"] is None:
            if v["out"] != real["out"]:
                bad.append(f"via {how}: delivered offsets {[r[0] for r in v['out']]} instead of {[r[0] for r in real['out']]}")
            if v["pos"] != real["nfo"]:
                bad.append(f"via {how}: the position is left at {v['pos']}, the response ends at {real['nfo']}"
                           + (" (no progress: the same offset would be fetched again)" if v["pos"] == f and real["nfo"] != f else ""))
    if resp:
        stats["resp_batches"] += len(resp)
        bs = [log.batches[i] for i in resp]
        stats["resp_ctl"] += sum(1 for b in bs if b.ctl)
        stats["mid_batch_start"] += 1 if bs[0].base < f else 0
    return bad, want, end


def sig_of(v):
    return "c08:" + v.split(":")[0][:60]


# ------------------------------------------------------------------------------------ compiled classes
def build_compiled(ck):
    """Copy the current aiokafka sources to a temp dir outside /repo and /verif and compile the
    record extensions from the current .pyx there.  Returns the dir or None."""
    tmp = tempfile.mkdtemp(prefix="c08cy_")
    try:
        dst = os.path.join(tmp, "aiokafka")
        shutil.copytree(os.path.join(common.REPO, "aiokafka"), dst,
                        ignore=shutil.ignore_patterns("*.so", "__pycache__", "*.pyc"))
        cdir = os.path.join(dst, "record", "_crecords")
        for fn in os.listdir(cdir):
            if fn.endswith(".c") and fn != "crc32c.c":
                os.remove(os.path.join(cdir, fn))
        mods = ["legacy_records", "default_records", "memory_records", "cutil"]
        procs = [subprocess.Popen([common.PY, "-m", "cython", "-3", m + ".pyx", "-o", m + ".c"], cwd=cdir,
                                  stdout=subprocess.DEVNULL, stderr=subprocess.DEVNULL) for m in mods]
        if any(p.wait(timeout=300) != 0 for p in procs):
            raise RuntimeError("cython failed")
        inc = subprocess.check_output([common.PY, "-c", "import sysconfig;print(sysconfig.get_paths()['include'])"], text=True).strip()
        ext = subprocess.check_output([common.PY, "-c", "import sysconfig;print(sysconfig.get_config_var('EXT_SUFFIX'))"], text=True).strip()
        procs = []
        for m in mods:
            src = [m + ".c"] + (["crc32c.c"] if m in ("default_records", "cutil") else [])
            procs.append(subprocess.Popen(["gcc", "-O1", "-shared", "-fPIC", "-I" + inc] + src + ["-o", m + ext, "-lz"],
                                          cwd=cdir, stdout=subprocess.DEVNULL, stderr=subprocess.DEVNULL))
        if any(p.wait(timeout=600) != 0 for p in procs):
            raise RuntimeError("gcc failed")
        return tmp
    except Exception as e:  # noqa: BLE001
        ck.log(f"compiled record classes not built: {e}")
        shutil.rmtree(tmp, ignore_errors=True)
        return None


# ------------------------------------------------------------------------------------ the run
def impl_sharded(payload_logs, consume, env, pythonpath=None, nshards=None, wild=()):
    nshards = nshards or common.NPROC
    n = len(payload_logs)
    nshards = max(1, min(nshards, (n + 19) // 20))
    chunks = [payload_logs[i::nshards] for i in range(nshards)]
    e = dict(env)
    if pythonpath:
        e["PYTHONPATH"] = pythonpath

    def one(i):
        pl = {"logs": chunks[i]}
        if i == 0:
            pl["consume"] = consume
            pl["wild"] = list(wild)
        return run_impl("c08_impl.py", pl, timeout=1500, env=e)

    with cf.ThreadPoolExecutor(max_workers=nshards) as ex:
        res = list(ex.map(one, range(nshards)))
    logs = [None] * n
    for i, r in enumerate(res):
        for j, lo in enumerate(r["logs"]):
            logs[i + j * nshards] = lo
    return {"logs": logs, "consume": res[0].get("consume", []), "wild": res[0].get("wild", []),
            "classes": res[0]["classes"],
            "fetcher_file": res[0]["fetcher_file"]}


def check_fetcher_level(ck):
    """the filter as the application meets it: the real consumer (Fetcher + PartitionRecords) under the simulator on
    read_committed logs with aborted and committed transactions of the SAME producer, one batch per response, and a
    jump (seek) after a response that ended inside an aborted transaction.  C03's scenario runner and monitor are
    reused: every delivered run must be exactly the read_committed view from the position."""
    import c03
    scs = [sc for sc in c03.directed_scenarios(900000) if sc.get("iso") == 1]
    results = c03.run_scenarios(scs, timeout=600)
    bad = 0
    for sc, r in zip(scs, results):
        if not r.get("ok"):
            ck.obligation(f"correspondence:fetcher-level-simulation-ran:{sc['id']}", False, str(r.get("error"))[:300])
            continue
        ck.count(key=("fetcher-level", sc["id"]), nontrivial=True)
        bad += c03.monitor(ck, sc, r)
    ck.obligation("correspondence:fetcher-level-read-committed-runs", True, f"{len(scs)} runs, {bad} monitor violations")


def check_emptied_control_batches(ck):
    """'the consumer's position still advances past everything it filtered so that it never stalls': a control batch
    whose marker record the log cleaner removed (empty batch header kept) carries no marker; consumption goes on past
    it at both isolation levels.  Monitors only (the Coq log model has one record per control batch)."""
    rng = random.Random(ck.seed * 31 + 808)
    cases = []
    for _ in range(ck.n(60, 600)):
        ops = []
        pids = [5, 7, 9]
        open_ = []
        for _k in range(rng.randrange(3, 10)):
            r = rng.random()
            if open_ and r < 0.4:
                pid = open_.pop(rng.randrange(len(open_)))
                ops.append(["M", pid, rng.random() < 0.6])
            elif r < 0.75:
                pid = rng.choice(pids)
                if pid not in open_:
                    open_.append(pid)
                n = rng.randrange(1, 4)
                ops.append(["D", pid, 1, n, [[d, 100 * len(ops) + d] for d in range(n)]])
            else:
                n = rng.randrange(1, 3)
                ops.append(["D", -1, 0, n, [[d, 100 * len(ops) + d] for d in range(n)]])
        for pid in open_:
            ops.append(["M", pid, rng.random() < 0.6])
        if not any(o[0] == "M" for o in ops):
            continue
        nm = sum(1 for o in ops if o[0] == "M")
        cases.append({"ops": ops, "empty": rng.sample(range(nm), rng.randrange(1, nm + 1)), "iso": rng.choice(["read_uncommitted", "read_committed", "read_committed"]),
                      "f": 0})
    res = run_impl("c08_impl.py", {"emptied": cases}, timeout=600, env={"AIOKAFKA_NO_EXTENSIONS": "1"})["emptied"]
    bad = 0
    for c, r in zip(cases, res):
        ck.count(key=("emptied", json.dumps(c["ops"]), tuple(c["empty"]), c["iso"]), nontrivial=True)
        for mode, v in r["via"].items():
            offs = [x[0] for x in v["out"]]
            what = None
            if v["exc"]:
                what = f"consumption raised {v['exc']}"
            elif v["pos"] != r["end"]:
                what = f"the position stopped at {v['pos']}, the log ends at {r['end']}"
            elif any(o in r["ctl"] for o in offs) or offs != sorted(set(offs)):
                what = f"delivered offsets {offs} contain a control batch offset or are not increasing"
            if what:
                bad += 1
                if bad <= 3:
                    ck.violation(f"log with control batches emptied by the cleaner (isolation level {c['iso']}, "
                                 f"{'getone' if mode == '0' else 'getall'}): {what}",
                                 {"kind": "emptied-control-batch", "case": c, "observed": v},
                                 signature=f"emptied-control-batch:{what.split(' ')[0]}")
                break
    ck.extra["emptied_control_batch_cases"] = len(cases)
    ck.log(f"emptied control batches: {len(cases)} logs, {bad} stalled or failed")


def run(ck: Check):
    rng = ck.rng
    ck.trusted += [
        "Coq 8.16.1 kernel (coqc); vm_compute in the Examples of props/C08.v and in case evaluation",
        "translator/py2gallina.py + translator/units_c08.py (QueueTr): _consume_aborted_up_to -> gen/ConsumeAborted.v; "
        "validated on this run against the real method on random queues",
        "model/C08_Log.v: hand-written Gallina of _unpack_records/_contains_abort_marker/__init__ sort (tied by the "
        "correspondence on this run) and of well-formed logs / the broker's answer (written from Kafka's semantics: "
        "LSO = first offset of the earliest open transaction, aborted index = LogSegment.collectAbortedTxns)",
        "harness/impl/c08_ref.py: reference v2 writer/parser and reference views (independent of aiokafka and of the model)",
        "only message format v2 (magic 2) responses; CRC checking on; no deserializers",
    ]
    ck.cov["rule"] = (
        "one evaluation = one Fetch answer (log, isolation level, fetch offset, cut, index order/extent, optional "
        "truncated trailing batch) pushed through the real PartitionRecords to exhaustion, or one step of a "
        "multi-fetch sequence; distinct by (operations, level, offset, cut, index); non-trivial when the answer "
        "contains a transactional or control batch or starts inside a batch")

    # ---- (1) proofs over the regenerated unit (runs while the real code is being exercised)
    def proofs():
        ok_t, _rep = ck.regenerate(["ConsumeAborted"])
        ok_p, _out = ck.coq_props("C08")
        ck.log(f"translation ok={ok_t}, proofs ok={ok_p}  [{time.time() - ck.t0:.1f}s]")
        ok_m = ok_t and ok_p
        if ok_t and not ok_p:
            # a proof no longer checks: the executable model may still build — keep running it
            ok_m, _o = ck.coq_make(["model/C08_Log.vo"])
        return ok_t, ok_p, ok_m

    pool = cf.ThreadPoolExecutor(max_workers=2)
    fut_proofs = pool.submit(proofs)
    check_fetcher_level(ck)
    check_emptied_control_batches(ck)

    # ---- inputs
    n_logs = ck.n(500, 20000)
    n_exh = ck.n(25, 200)
    gen = Gen(rng)
    entries = []            # (ops, log, cases, seqs, exhaustive)
    corpus_dir = os.path.join(common.VERIF, "corpus", "C08")
    if os.path.isdir(corpus_dir):
        for fn in sorted(os.listdir(corpus_dir)):
            if fn.endswith(".json"):
                with open(os.path.join(corpus_dir, fn)) as fh:
                    c = json.load(fh)
                log = Log(c["ops"])
                entries.append((c["ops"], log, c.get("cases") or gen_cases(log, rng, True), [], True))
    for _ in range(n_exh):
        ops = gen.ops(rng.choice([4, 6, 8]), 3)
        log = Log(ops)
        entries.append((ops, log, gen_cases(log, rng, True), gen_seqs(log, rng, 1), True))
    for _ in range(n_logs):
        ops = gen.ops(rng.choice([6, 10, 14, 20]), 4)
        log = Log(ops)
        entries.append((ops, log, gen_cases(log, rng, False), gen_seqs(log, rng, 1), False))
    consume_cases = []
    for _ in range(ck.n(150, 1500)):
        q = [[rng.choice(PIDS), rng.randint(0, 12)] for _ in range(rng.randint(0, 6))]
        consume_cases.append({"q": q, "o": rng.randint(-1, 13)})

    # arbitrary (also ill-formed) batch lists and indexes: model vs real only, no monitor
    wild = []
    for _ in range(ck.n(300, 5000)):
        bs = []
        o = rng.randint(0, 5)
        wt = 5000
        for _b in range(rng.randint(0, 6)):
            n = rng.randint(1, 3)
            ctl = rng.random() < 0.35
            if rng.random() < 0.15:
                o = max(0, o - rng.randint(1, 4))        # overlapping / out-of-order batches
            if ctl:
                recs = [[o + d, rng.choice([0, 0, 1, 1, 2, 65536, 65537])] for d in range(rng.choice([0, 1, 1, 1, 2]))]
            else:
                recs = []
                for d in range(n):
                    if rng.random() < 0.7:
                        recs.append([o + d, wt])
                        wt += 1
            bs.append({"base": o, "last": o + n - 1, "pid": rng.choice([-1, 0, 1, 2]), "txn": rng.random() < 0.6,
                       "ctl": ctl, "recs": recs})
            o += n + rng.choice([0, 0, 0, 2])
        idx = [[rng.choice([-1, 0, 1, 2]), rng.randint(0, max(1, o))] for _e in range(rng.randint(0, 4))]
        wild.append({"batches": bs, "iso": rng.choice([RC, RC, RU]), "f": rng.randint(0, max(1, o)),
                     "idx": idx if rng.random() < 0.9 else None})

    hist = {"producers": {}, "ops": {}, "aborted_txns": {}, "committed_txns": {}, "open_txns": {},
            "solitary_markers": {}, "empty_batches": {}, "dropped_batches": {}, "gzip_batches": {}}

    def bump(h, k):
        k = str(k)
        hist[h][k] = hist[h].get(k, 0) + 1

    for (ops, log, _c, _s, _e) in entries:
        bump("producers", len({o[1] for o in ops if o[0] == "M" or o[2]}))
        bump("ops", min(len(ops), 20))
        bump("aborted_txns", sum(1 for t in log.done if not t[3]))
        bump("committed_txns", sum(1 for t in log.done if t[3]))
        bump("open_txns", len(log.open))
        nm = sum(1 for o in ops if o[0] == "M")
        bump("solitary_markers", nm - len(log.done))
        bump("empty_batches", sum(1 for b in log.batches if not b.recs))
        bump("dropped_batches", sum(1 for o in ops if o[0] == "D" and o[4] is None))
        bump("gzip_batches", sum(1 for b in log.batches if b.gzip))
    ck.extra["input_histograms"] = hist
    ck.extra["logs"] = {"random": n_logs, "every_cut": n_exh + (len(entries) - n_logs - n_exh)}

    payload = [{"ops": ops, "cases": cases, "seqs": seqs} for (ops, _l, cases, seqs, _e) in entries]

    # ---- the real code (pure-Python record classes; compiled ones in the thorough tier)
    def real_runs():
        variants = [("pure-python", {"AIOKAFKA_NO_EXTENSIONS": "1"}, None)]
        cy_dir = None
        if ck.thorough or os.environ.get("VERIF_C08_COMPILED"):
            cy_dir = build_compiled(ck)
            if cy_dir:
                variants.append(("compiled-from-current-pyx", {"AIOKAFKA_NO_EXTENSIONS": ""}, cy_dir))
            else:
                ck.notes.append("compiled record classes could not be built; only the pure-Python classes were exercised")
        else:
            ck.notes.append("quick tier: real PartitionRecords exercised with the pure-Python record classes only "
                            "(thorough also compiles the .pyx twins into a temp dir)")
        results = {}
        try:
            for name, env, pp in variants:
                results[name] = impl_sharded(payload, consume_cases, env, pythonpath=pp,
                                             nshards=max(2, common.NPROC // 2), wild=wild)
                ck.log(f"real code [{name}] classes={results[name]['classes']}  [{time.time() - ck.t0:.1f}s]")
                if name.startswith("compiled") and not any("_crecords" in c for c in results[name]["classes"]):
                    ck.obligation("correspondence:compiled-classes-loaded", False, str(results[name]["classes"]))
        finally:
            if cy_dir:
                shutil.rmtree(cy_dir, ignore_errors=True)
        return results

    fut_real = pool.submit(real_runs)

    # ---- the model inside Coq: same operations; a sequence is given the fetch offsets and indexes
    # that the broker twin sends along the reference trajectory (next fetch = end of the last batch
    # returned) — the real run follows its own next_fetch_offset and must arrive at the same ones
    coq_entries = []
    for (ops, log, cases, seqs, _e) in entries:
        sq = []
        for sdef in seqs:
            f = sdef["f"]
            cuts = []
            for st in sdef["steps"]:
                resp = log.response(log.bound(sdef["iso"]), f, st["k"])
                end = (log.batches[resp[-1]].last + 1) if resp else f
                if sdef["iso"] == RC or st.get("idx_for_ru"):
                    idx = log.kafka_index(f, end + st.get("uextra", 0))
                    random.Random(st.get("perm", 0)).shuffle(idx)
                else:
                    idx = None
                cuts.append((st["k"], idx))
                f = end
            sq.append((sdef["iso"], sdef["f"], cuts))
        coq_entries.append((ops, cases, sq))
    nsh = max(1, min(common.NPROC, (len(coq_entries) + 24) // 25), (len(coq_entries) + 149) // 150)
    shards = [coq_entries[i::nsh] for i in range(nsh)]
    model = [None] * len(coq_entries)
    ok_t, ok_p, coq_ok = fut_proofs.result()
    model_runs = coq_ok
    coq_detail = "" if coq_ok else "model not built"
    def coq_batch(b):
        return (f"mkbatch {coq_Z(b['base'])} {coq_Z(b['last'])} {coq_Z(b['pid'])} {coq_bool(b['txn'])} "
                f"{coq_bool(b['ctl'])} " + coq_list(b["recs"], lambda r: f"mkrec {coq_Z(r[0])} {coq_Z(r[1])}"))

    NW = 8
    wsh = [wild[i::NW] for i in range(NW)]
    wild_bodies = [COQ_PRELUDE + "Eval vm_compute in (map (fun c : iso * Z * list (Z * Z) * list batch => "
                   "let '(i, f, idx, bs) := c in out3 (unpack i f idx bs)) "
                   + coq_list(sh, lambda w: f"({coq_iso(w['iso'])}, {coq_Z(w['f'])}, {coq_idx(w['idx'])}, "
                              + coq_list(w["batches"], coq_batch) + ")") + ").\n" for sh in wsh]
    consume_body = ("Definition cs : list (list (Z * Z) * Z) := "
                    + coq_list(consume_cases, lambda c: f"({coq_idx(c['q'])}, {coq_Z(c['o'])})") + ".\n"
                    "Eval vm_compute in (map (fun c => let q := sort_by_first (fst c) in (q, ConsumeAborted.post (snd c) q, "
                    "match ConsumeAborted.py (snd c) q with Ok _ => true | Exn _ => false end)) cs).\n")
    wild_outs = consume_out = None
    if coq_ok:
        outs_all = ck.coq_eval_sharded("c08_cases", ["Imp", "ConsumeAborted", "C08_Log"],
                                       [coq_body(sh) for sh in shards] + wild_bodies + [consume_body],
                                       timeout=1500)
        outs = outs_all[:len(shards)]
        wild_outs = outs_all[len(shards):len(shards) + NW]
        consume_out = outs_all[-1]
        for i, (okc, outc) in enumerate(outs):
            if not okc:
                coq_ok = False
                coq_detail = outc[-600:]
                break
            vals = [parse_coq_value(v) for v in parse_eval_outputs(outc)]
            if len(vals) != len(shards[i]) or any(len(v) != 6 for v in vals):
                coq_ok = False
                coq_detail = f"shard {i}: {len(vals)} values for {len(shards[i])} logs"
                break
            for j in range(len(shards[i])):
                v = vals[j]
                model[i + j * nsh] = [tuple(v[:4]), v[4], v[5]]

    ck.log(f"model evaluated inside Coq ok={coq_ok}  [{time.time() - ck.t0:.1f}s]")
    results = fut_real.result()
    pool.shutdown()
    real_main = results["pure-python"]
    # ---- compare: correspondence (real vs model) and monitor (real vs reference)
    stats = {"resp_batches": 0, "resp_ctl": 0, "mid_batch_start": 0}
    n_cases = n_steps = 0
    corr_bad = []
    twin_bad = []
    found = []              # (size of the log, what, replay, signature)
    variant_bad = []

    def report(what, rp):
        found.append((len(rp["ops"]), len(json.dumps(rp["ops"])), what, rp, sig_of(what)))
    for li, ((ops, log, cases, seqs, exh), lo) in enumerate(zip(entries, real_main["logs"])):
        whole_raw = b"".join(b.raw for b in log.batches)
        mv = model[li]
        if mv is not None:
            valid, m_lso, m_hw, m_nb = mv[0]
            if not (valid is True and m_lso == log.lso and m_hw == log.hw and m_nb == len(log.batches)):
                twin_bad.append({"ops": ops, "model": [valid, m_lso, m_hw, m_nb],
                                 "reference": [log.lso, log.hw, len(log.batches)]})
        for ci, (case, real) in enumerate(zip(cases, lo["cases"])):
            n_cases += 1
            resp = log.response(log.bound(case["iso"]), case["f"], case["k"])
            bad, want, end = check_one(ck, log, whole_raw, case, real, f"log{li}/case{ci}", stats)
            ck.count(key=(json.dumps(ops), case["iso"], case["f"], case["k"], json.dumps(case["idx"])),
                     nontrivial=nontrivial_case(log, case["iso"], case["f"], resp),
                     sample={"ops": ops, "case": case, "delivered_offsets": [r[0] for r in real["out"]],
                             "next_fetch_offset": real["nfo"]} if (li % 41 == 3 and case["iso"] == RC and len(real["out"]) >= 2
                                                                   and len(resp) >= 4) else None)
            for b in bad:
                report(b, {"kind": "fetch", "ops": ops, "case": case, "lso": log.lso, "hw": log.hw,
                           "response_batches": [log.batches[i].to_json() for i in resp],
                           "real": real, "expected": want, "expected_next_fetch_offset": end})
            if mv is not None:
                m_out, m_nfo, m_raised = mv[1][ci]
                m_wire = model_to_wire(m_out)
                same = (m_wire == real["out"] and (real["exc"] is not None) == bool(m_raised)
                        and (m_nfo == real["nfo"]))
                if not same and len(corr_bad) < 5:
                    corr_bad.append({"ops": ops, "case": case, "model": [m_out, m_nfo, m_raised],
                                     "real": {"out": [r[0] for r in real["out"]], "nfo": real["nfo"], "exc": real["exc"]}})
                elif not same:
                    corr_bad.append(None)
            for name, res in results.items():
                if name != "pure-python" and res["logs"][li]["cases"][ci] != real:
                    variant_bad.append((name, ops, case))
        for si, (sdef, steps) in enumerate(zip(seqs, lo["seqs"])):
            iso, f0 = sdef["iso"], sdef["f"]
            all_out = []
            for sti, st in enumerate(steps):
                n_steps += 1
                case = {"iso": iso, "f": st["f"], "k": st["k"], "idx": st["idx"],
                        "trunc": sdef["steps"][sti].get("trunc", 0)}
                resp = log.response(log.bound(iso), st["f"], st["k"])
                bad, want, end = check_one(ck, log, whole_raw, case, st, f"log{li}/seq{si}", stats)
                ck.count(key=(json.dumps(ops), iso, st["f"], st["k"], json.dumps(st["idx"]), "seq"),
                         nontrivial=nontrivial_case(log, iso, st["f"], resp))
                for b in bad:
                    report(b, {"kind": "fetch-in-sequence", "ops": ops, "case": case, "lso": log.lso,
                               "hw": log.hw, "real": st, "expected": want, "expected_next_fetch_offset": end})
                all_out += st["out"]
            # cut invariance on the real outputs: the sequence delivers what one response holding
            # everything from f0 up to the position reached would deliver
            last_f = steps[-1]["nfo"] if steps and steps[-1]["nfo"] is not None else f0
            upto = [i for i, b in enumerate(log.batches) if f0 <= b.last < min(log.bound(iso), last_f)]
            big_raw = log.response_bytes(upto)
            one_big = [[o, None if k_ is None else k_.hex(), None if v_ is None else v_.hex()]
                       for (o, k_, v_) in c08_ref.ref_view(whole_raw, big_raw, iso, f0, log.lso, log.hw)]
            if all_out != one_big or any(st["exc"] for st in steps):
                report("a sequence of cuts delivers something else than one big response",
                       {"kind": "sequence", "ops": ops, "iso": iso, "f": f0, "steps": steps, "seqdef": sdef,
                        "delivered_offsets": [r[0] for r in all_out],
                        "one_big_response_offsets": [r[0] for r in one_big]})
            reached_end = steps and steps[-1]["nfo"] is not None and not log.response(log.bound(iso), steps[-1]["nfo"], 1)
            if steps and not reached_end and all(st["exc"] is None for st in steps):
                report("the consumer did not get through the log in #batches+2 non-empty fetches (stalled)",
                       {"kind": "stall", "ops": ops, "iso": iso, "f": f0, "steps": steps, "seqdef": sdef})
            if mv is not None:
                m_out, m_nfo, m_raised = mv[2][si]
                same = (model_to_wire(m_out) == all_out and m_nfo == last_f
                        and bool(m_raised) == any(st["exc"] for st in steps))
                if not same:
                    corr_bad.append({"ops": ops, "seq": sdef, "model": [m_out, m_nfo, m_raised],
                                     "real": {"out": [r[0] for r in all_out], "nfo": last_f}}
                                    if len(corr_bad) < 5 else None)
            for name, res in results.items():
                if name != "pure-python" and res["logs"][li]["seqs"][si] != steps:
                    variant_bad.append((name, ops, sdef))
    # report the smallest failing logs: first one per distinct signature, then the next smallest
    viol = len(found)
    found.sort(key=lambda t: (t[0], t[1]))
    chosen, seen = [], set()
    for t in found:
        if t[4] not in seen:
            seen.add(t[4])
            chosen.append(t)
    for t in found:
        if len(chosen) >= 12:
            break
        if not any(t is c for c in chosen):
            chosen.append(t)
    for (_n, _m, what, rp, sg) in chosen[:12]:
        ck.violation(what, rp, signature=sg)
    ck.extra["monitor_failures"] = viol
    ck.extra["fetches"] = {"single": n_cases, "sequence_steps": n_steps, **stats}
    ck.log(f"[{time.time() - ck.t0:.1f}s] {len(entries)} logs, {n_cases} single fetches, {n_steps} sequence steps, "
           f"{viol} monitor failure(s), {len(corr_bad)} model/real disagreement(s)")

    ck.obligation("correspondence:reference-log-twin-vs-coq-build", coq_ok and not twin_bad,
                  coq_detail or (json.dumps(twin_bad[0]) if twin_bad else ""))
    ck.obligation("correspondence:unpack-model-vs-real-PartitionRecords", coq_ok and not corr_bad,
                  coq_detail or (f"{len(corr_bad)} disagreement(s); first: " + json.dumps(corr_bad[0], default=str)[:1500]
                                 if corr_bad else ""))
    ck.extra["record_class_variants"] = list(results)

    # ---- arbitrary batch lists: `unpack` vs the real iterator (fidelity of the model outside the
    # well-formed region, incl. the KafkaError on a control batch without records)
    w_ok = False
    w_detail = "model not built"
    if model_runs:
        outs = wild_outs
        w_ok, w_detail = True, ""
        n_raise = 0
        for k_, (okc, outc) in enumerate(outs):
            if not okc:
                w_ok, w_detail = False, outc[-500:]
                break
            vals = parse_coq_value(parse_eval_outputs(outc)[0]) if wsh[k_] else []
            for j, (w, v) in enumerate(zip(wsh[k_], vals)):
                real = real_main["wild"][k_ + NW * j]
                m_out, m_nfo, m_raised = v
                n_raise += 1 if m_raised else 0
                if real.get("empty"):
                    same = (m_out == [] and m_nfo == w["f"] and not m_raised)
                else:
                    same = (model_to_wire(m_out) == real["out"] and m_nfo == real["nfo"]
                            and bool(m_raised) == (real["exc"] is not None)
                            and (real["exc"] is None or real["exc"].startswith("KafkaError")))
                for name, res in results.items():
                    if name != "pure-python" and res["wild"][k_ + NW * j] != real:
                        variant_bad.append((name, "wild", w))
                if not same and w_ok:
                    w_ok = False
                    w_detail = json.dumps({"input": w, "model": [m_out, m_nfo, m_raised], "real": real})[:1500]
        ck.extra["wild_cases"] = {"n": len(wild), "raising": n_raise}
        ck.count(n=len(wild), nontrivial=False)
    ck.obligation("correspondence:unpack-model-vs-real-on-arbitrary-batch-lists", w_ok, w_detail)
    ck.log(f"arbitrary batch lists: ok={w_ok}  [{time.time() - ck.t0:.1f}s]")

    # ---- translated _consume_aborted_up_to + model of sorted() vs the real method
    tr_ok = False
    tr_detail = "model not built"
    if model_runs:
        okc, outc = consume_out
        if okc:
            vals = parse_coq_value(parse_eval_outputs(outc)[0])
            tr_ok = True
            tr_detail = ""
            for c, v, r in zip(consume_cases, vals, real_main["consume"]):
                q_sorted, (q_after, added), noexc = v
                m = {"sorted": [list(e) for e in q_sorted], "q": [list(e) for e in q_after], "added": list(added)}
                if "exc" in r or not noexc or m != r:
                    tr_ok = False
                    tr_detail = f"queue {c['q']} offset {c['o']}: model {m} real {r}"
                    break
        else:
            tr_detail = outc[-500:]
    ck.obligation("correspondence:translated-consume_aborted_up_to-vs-real-method", tr_ok, tr_detail)
    ck.count(n=len(consume_cases), nontrivial=False)
    ck.extra["translator_validation_cases"] = len(consume_cases)
    if len(results) > 1:
        ck.obligation("correspondence:compiled-record-classes-give-the-same-results", not variant_bad,
                      (f"{len(variant_bad)} differing case(s); first: " + json.dumps(variant_bad[0], default=str)[:800])
                      if variant_bad else "")
    ck.log(f"done  [{time.time() - ck.t0:.1f}s]")


# ------------------------------------------------------------------------------------ replay
def replay(ck: Check, path):
    with open(path) as fh:
        doc = json.load(fh)
    rp = doc.get("replay", doc)
    ops = rp["ops"]
    log = Log(ops)
    whole_raw = b"".join(b.raw for b in log.batches)
    if rp.get("kind") in ("sequence", "stall"):
        seq = rp.get("seqdef") or {"iso": rp["iso"], "f": rp["f"],
                                   "steps": [{"k": st["k"], "uextra": 0, "perm": 0} for st in rp["steps"]]}
        res = run_impl("c08_impl.py", {"logs": [{"ops": ops, "cases": [], "seqs": [seq]}]},
                       env={"AIOKAFKA_NO_EXTENSIONS": "1"})
        steps = res["logs"][0]["seqs"][0]
        print(json.dumps({"steps": [{"f": s["f"], "k": s["k"], "delivered": [r[0] for r in s["out"]],
                                     "nfo": s["nfo"], "exc": s["exc"]} for s in steps]}))
        cases = [({"iso": rp["iso"], "f": s["f"], "k": s["k"], "idx": s["idx"]}, s) for s in steps]
    else:
        case = rp["case"]
        res = run_impl("c08_impl.py", {"logs": [{"ops": ops, "cases": [case], "seqs": []}]},
                       env={"AIOKAFKA_NO_EXTENSIONS": "1"})
        cases = [(case, res["logs"][0]["cases"][0])]
    stats = {"resp_batches": 0, "resp_ctl": 0, "mid_batch_start": 0}
    rc = 0
    for case, real in cases:
        bad, want, end = check_one(ck, log, whole_raw, case, real, "replay", stats)
        print(f"fetch {case}: delivered offsets {[r[0] for r in real['out']]} next_fetch_offset {real['nfo']} "
              f"exc {real['exc']}; expected offsets {[r[0] for r in want]} next_fetch_offset {end}")
        for b in bad:
            print("STILL FAILS:", b)
            rc = 1
    if rc == 0:
        print("replay: the property holds on this input now")
    return rc
