"""C14 — assignors give each subscribed partition exactly one subscribed owner, balanced.

(1) proofs: coq/props/C14.v (range / round-robin models, StickyAbs, StickyCtl, checkers);
(2) correspondence:
    * range / round-robin: real assign() vs the Gallina models, exact (entry by entry),
      over the complete bounded space of the tier (extracted OCaml runner for the volume,
      a sample re-evaluated inside Coq by vm_compute) and random inputs beyond;
    * sticky: the op log of the real StickyAssignmentExecutor (recorded from outside) must be
      accepted by StickyCtl, must be a StickyAbs run, must end in the returned assignment;
      `_init_current_assignments` vs init_current; the returned assignment is fed to the
      proved checkers valid_b / within_one_b / kip54_balanced_b;
(3) independent monitors (plain Python) stating C14 on the real outputs."""
import collections
import concurrent.futures as cf
import hashlib
import json
import os
import re
import subprocess
import sys
import time

sys.path.insert(0, os.path.join(os.path.dirname(os.path.abspath(__file__)), "impl"))
import c14_space as S  # noqa: E402
from common import VERIF, NPROC, Check, parse_coq_value, parse_eval_outputs, run_impl, sh  # noqa: E402

RUNNER = os.path.join(VERIF, "ocaml", "c14_runner")
ASSIGNORS = ["range", "roundrobin", "sticky"]

SIG_UNSUB_TOPIC = "sticky-stickiness:unsubscribed-cluster-topic-defeats-identical-subscription-detection"
SIG_SUB_ORDER = "sticky-stickiness:subscription-list-order-defeats-identical-subscription-detection"
SIG_STALE_INVALID = "sticky-invalid:partition-given-to-stale-lower-generation-claimant-not-subscribed"
SIG_STALE_CRASH = "sticky-crash:KeyError-when-stale-lower-generation-claimant-is-a-fixed-consumer"
SIG_STALE_UNBALANCED = "sticky-kip54:balanced-result-reverted-because-stale-lower-generation-claimant-adds-phantom-entry-to-score"


_VCOUNT = collections.Counter()
MAX_PER_CATEGORY = 6


def viol(ck, what, replay, signature=None):
    """register a violation, but at most MAX_PER_CATEGORY per category (the part of the
    signature before the input-specific suffix): a broken assignor fails on tens of thousands
    of inputs and one replay file per input helps nobody.  All are counted."""
    sig = signature or what
    known = (SIG_UNSUB_TOPIC, SIG_SUB_ORDER, SIG_STALE_INVALID, SIG_STALE_CRASH, SIG_STALE_UNBALANCED)
    cat = sig if sig in known else sig.split(":")[0]
    _VCOUNT[cat] += 1
    ck.extra.setdefault("violations_by_category", {})[cat] = _VCOUNT[cat]
    if _VCOUNT[cat] <= MAX_PER_CATEGORY:
        ck.violation(what, replay, signature=signature)


# =============================================================================== monitors
def owners_of(out):
    """{(t, p): [owners]} of a converted assignment [[id, [[t, [p..]]..]]..]"""
    ow = collections.defaultdict(list)
    for m, a in out:
        for t, ps in a:
            for p in ps:
                ow[(t, p)].append(m)
    return ow


def loads_of(out):
    return {m: sum(len(ps) for _, ps in a) for m, a in out}


def mon_valid(case, out):
    """C14 clause 1 stated directly: every partition of every subscribed topic with metadata has
    exactly one owner, subscribed to the topic; nothing else is assigned; every member of the
    group (and nobody else) has an entry."""
    ppt = case["ppt"]
    subs = {m: set(s) for m, s in case["members"]}
    bad = []
    ids = [m for m, _ in out]
    if sorted(ids) != sorted(subs) or len(set(ids)) != len(ids):
        bad.append(("members", ids))
    ow = owners_of(out)
    for (t, p), ms in ow.items():
        for m in ms:
            if m not in subs or t not in subs[m]:
                bad.append(("unsub", m, t, p))
            if t >= len(ppt) or ppt[t] is None or not (0 <= p < ppt[t]):
                bad.append(("nopart", m, t, p))
    for t, n in enumerate(ppt):
        if n is None or not any(t in s for s in subs.values()):
            continue
        for p in range(n):
            k = len(ow.get((t, p), []))
            if k != 1:
                bad.append(("owners", t, p, k))
    return bad


def mon_range_balance(case, out):
    """per topic: the subscribers, in id order, hold consecutive slices of 0..n-1 whose lengths
    are n//k+1 for the first n%k of them and n//k for the rest"""
    ppt = case["ppt"]
    bad = []
    byid = {m: dict((t, ps) for t, ps in a) for m, a in out}
    for t, n in enumerate(ppt):
        if n is None:
            continue
        cs = sorted(m for m, s in case["members"] if t in s)
        if not cs:
            continue
        k = len(cs)
        nxt = 0
        for i, m in enumerate(cs):
            ps = byid.get(m, {}).get(t)
            want = n // k + (1 if i < n % k else 0)
            if ps is None or ps != list(range(nxt, nxt + want)):
                bad.append(("range-slice", t, m, ps, [nxt, want]))
            nxt += want
        lens = [len(byid.get(m, {}).get(t) or []) for m in cs]
        if max(lens) - min(lens) > 1:
            bad.append(("range-load", t, lens))
    return bad


def identical_subscriptions(case):
    return len({frozenset(s) for _, s in case["members"]}) <= 1


def mon_within_one(case, out):
    ld = loads_of(out)
    v = [ld.get(m, 0) for m, _ in case["members"]]
    return [] if not v or max(v) - min(v) <= 1 else [("loads", v)]


def mon_kip54(case, out):
    """no member could take a partition it is subscribed to from a member holding >= 2 more"""
    ld = loads_of(out)
    bad = []
    for m, a in out:
        for t, ps in a:
            for p in ps:
                for o, s in case["members"]:
                    if o != m and t in s and ld.get(m, 0) >= ld.get(o, 0) + 2:
                        bad.append(("kip54", t, p, m, o, ld.get(m, 0), ld.get(o, 0)))
    return bad


# ---- classification of sticky violations into the known input classes
def claim_conflicts(case):
    """partitions claimed by >= 2 members with different generations: [(tp, [(gen, member)..])]"""
    cl = case.get("claims") or []
    tab = collections.defaultdict(list)
    for (m, _), c in zip(case["members"], cl):
        if c is None:
            continue
        for t, p in c[1]:
            tab[(t, p)].append((c[0], m))
    return {tp: v for tp, v in tab.items() if len({g for g, _ in v}) >= 2}


SIG_PINGPONG = ("sticky_assignor.py:_perform_reassignments: passes alternate between the same assignments (a move is turned "
                "into moving another partition of the topic back, the next pass undoes it); stopped at the repetition, "
                "result valid but not KIP-54 balanced")


def pingpong_signature(st):
    """the balancing passes went round in a circle: replaying the recorded op log (starting assignment, placements of
    unassigned partitions, moves), the assignment the run ended with had already been reached after an earlier move.
    Before /repo's termination guard such a run never ended; with it the passes stop there, and the assignment
    returned need not be balanced"""
    if "init" not in st:
        return None
    owner = {(t, p): m for m, t, p in st["init"]}
    for t, p, m in st.get("assigns") or []:
        owner[(t, p)] = m
    seen = []
    for mv in st.get("reassigns") or []:
        owner[(mv[3], mv[4])] = mv[2]
        seen.append(frozenset(owner.items()))
    if len(seen) >= 2 and seen[-1] in seen[:-1]:
        return SIG_PINGPONG
    return None


def stale_claimant_signature(case, kind, viol=None):
    """input class of the defects fixed by /repo c41f241 (regression signatures, no longer
    listed as known): some partition is claimed with different generations and a
    lower-generation claimant is not subscribed to its topic (invalid result) / the run crashed /
    the balanced state was discarded."""
    conf = claim_conflicts(case)
    subs = {m: set(s) for m, s in case["members"]}
    if not conf:
        return None
    if kind == "invalid":
        # every reported flaw must be an 'unsub' ownership by a lower-generation claimant
        for v in viol:
            if v[0] != "unsub":
                # the partition then has a second owner or is missing only if something else broke
                return None
            _, m, t, p = v
            c = conf.get((t, p))
            if not c or t in subs.get(m, ()):
                return None
            gmax = max(g for g, _ in c)
            if not any(mm == m and g < gmax for g, mm in c):
                return None
        return SIG_STALE_INVALID
    if kind == "crash":
        return SIG_STALE_CRASH
    if kind == "unbalanced":
        # F3: the run restored its prebalance copy, and some lower-generation claimant is not
        # subscribed to the topic it claims (only such a claimant can be a "fixed" consumer
        # whose phantom empty entry inflates the balance score)
        if not viol or not viol.get("reverted"):
            return None
        for (t, p), c in conf.items():
            gmax = max(g for g, _ in c)
            if any(g < gmax and t not in subs.get(m, ()) for g, m in c):
                return SIG_STALE_UNBALANCED
        return None
    return None


# =============================================================================== encoders
def e_layout(ppt):
    s = [len(ppt)]
    for i, n in enumerate(ppt):
        s += [i, 0 if n is None else n + 1]
    return s


def e_members(ms):
    s = [len(ms)]
    for m, subs in ms:
        s += [m, len(subs)] + list(subs)
    return s


def e_claims(case):
    cl = case.get("claims") or [None] * len(case["members"])
    s = [len(cl)]
    for (m, _), c in zip(case["members"], cl):
        if c is None:
            s += [m, 0, 0]
        else:
            s += [m, c[0] + 1, len(c[1])]
            for t, p in c[1]:
                s += [t, p]
    return s


def e_triples(tr):
    s = [len(tr)]
    for m, t, p in tr:
        s += [m, t, p]
    return s


def enc_kind0(case):
    return [0] + e_layout(case["ppt"]) + e_members(case["members"])


def enc_kind1(case, st):
    s = [1] + e_layout(case["ppt"]) + e_members(case["members"]) + e_claims(case)
    s += e_triples(st["init"])
    s += [len(st["prev"])] + [x for t, p, m in st["prev"] for x in (t, p, m)]
    s += [len(st["assigns"])] + [x for t, p, c in st["assigns"] for x in (t, p, c)]
    s += [len(st["reassigns"])] + [x for r in st["reassigns"] for x in r]
    s += [st["reverted"]]
    s += e_triples(st["final"])
    return s


def enc_kind2(keep, old, new):
    return [2, len(keep)] + list(keep) + e_triples(old) + e_triples(new)


def enc_kind3(case, tr):
    return [3] + e_layout(case["ppt"]) + e_members(case["members"]) + e_triples(tr)


def triples_of_out(out):
    return [[m, t, p] for m, a in out for t, ps in a for p in ps]


def d_assignment(s, i):
    n = s[i]
    i += 1
    out = []
    for _ in range(n):
        m, k = s[i], s[i + 1]
        i += 2
        a = []
        for _ in range(k):
            t, np_ = s[i], s[i + 1]
            i += 2
            a.append([t, s[i:i + np_]])
            i += np_
        out.append([m, a])
    return out, i


def dec_kind0(s):
    rng_out, i = d_assignment(s, 0)
    if s[i] == 0:
        return rng_out, None
    rr, _ = d_assignment(s, i + 1)
    return rng_out, rr


K1_FIELDS = ["init_current", "previous_assignment", "ctl_accepts_log", "ctl_final_equals_returned",
             "abs_run_ends_in_returned", "valid_b", "within_one_b", "kip54_balanced_b",
             "prebalance_result_kip54", "prev_empty"]


# =============================================================================== evaluation engines
def ensure_runner(ck):
    """(re)build the extracted runner if the model sources changed"""
    stamp = RUNNER + ".stamp"
    srcs = [os.path.join(VERIF, "coq", "model", f) for f in ("C14_Assignors.v", "C14_Sticky.v", "C14_Run.v")]
    srcs.append(os.path.join(VERIF, "ocaml", "c14_driver.ml"))
    fresh = os.path.exists(RUNNER) and os.path.exists(stamp)
    if fresh:
        want = {}
        for ln in open(stamp).read().splitlines():
            h, _, p = ln.partition("  ")
            want[os.path.basename(p)] = h
        for p in srcs:
            if want.get(os.path.basename(p)) != hashlib.sha256(open(p, "rb").read()).hexdigest():
                fresh = False
    if not fresh:
        rc, out = sh(["flock", os.path.join(VERIF, "ocaml", ".c14lock"),
                      os.path.join(VERIF, "ocaml", "build.d", "c14.sh")], timeout=900)
        ok = rc == 0 and os.path.exists(RUNNER)
        ck.obligation("build:ocaml-extraction-of-C14_Run", ok, out[-400:] if not ok else "")
        return ok
    ck.obligation("build:ocaml-extraction-of-C14_Run", True, "up to date")
    return True


def run_ocaml(streams, nproc=NPROC):
    """evaluate run_case on every stream with the extracted runner; list of int lists"""
    if not streams:
        return []
    nchunk = max(1, min(nproc, len(streams) // 200 + 1))
    size = (len(streams) + nchunk - 1) // nchunk
    chunks = [streams[i:i + size] for i in range(0, len(streams), size)]

    def work(ch):
        inp = "\n".join(" ".join(map(str, s)) for s in ch) + "\n"
        p = subprocess.run([RUNNER], input=inp, stdout=subprocess.PIPE, stderr=subprocess.PIPE,
                           text=True, timeout=1800)
        if p.returncode != 0:
            raise RuntimeError("c14_runner failed: " + p.stderr[-300:])
        lines = p.stdout.split("\n")
        if lines and lines[-1] == "":
            lines.pop()
        if len(lines) != len(ch):
            raise RuntimeError(f"c14_runner returned {len(lines)} lines for {len(ch)} cases")
        return [[int(x) for x in ln.split()] for ln in lines]

    with cf.ThreadPoolExecutor(max_workers=nproc) as ex:
        res = list(ex.map(work, chunks))
    return [r for ch in res for r in ch]


def run_coq(ck, name, streams, shards=NPROC):
    """evaluate run_case on every stream inside Coq (vm_compute); list of int lists or None"""
    if not streams:
        return []
    shards = max(1, min(shards, len(streams)))
    size = (len(streams) + shards - 1) // shards
    bodies = []
    for i in range(0, len(streams), size):
        part = streams[i:i + size]
        lit = "[" + ";\n ".join("[" + "; ".join(map(str, s)) + "]" for s in part) + "]"
        bodies.append("Open Scope nat_scope.\nDefinition cases : list (list nat) := " + lit +
                      ".\nEval vm_compute in (map run_case cases).\n")
    res = ck.coq_eval_sharded(name, ["C14_Assignors", "C14_Sticky", "C14_Run"], bodies, timeout=1500)
    out = []
    for ok, txt in res:
        if not ok:
            return None, txt[-600:]
        vals = parse_eval_outputs(txt)
        if len(vals) != 1:
            return None, "unexpected coqc output: " + txt[-300:]
        v = parse_coq_value(vals[0])
        out += [list(x) for x in v]
    if len(out) != len(streams):
        return None, f"{len(out)} results for {len(streams)} cases"
    return out, ""


# =============================================================================== one case
class Tally:
    """accumulates agreement counters and the first few disagreements"""

    def __init__(self):
        self.n = collections.Counter()
        self.diffs = collections.defaultdict(list)

    def ok(self, key, good, detail=None):
        self.n[key + (":ok" if good else ":bad")] += 1
        if not good and len(self.diffs[key]) < 3:
            self.diffs[key].append(detail)

    def good(self, key):
        return self.n[key + ":bad"] == 0 and self.n[key + ":ok"] > 0

    def detail(self, key):
        d = self.diffs.get(key)
        return "" if not d else json.dumps(d[0], default=str)[:600]


def nontrivial(case):
    subs_t = {t for _, s in case["members"] for t in s}
    return any(case["ppt"][t] for t in subs_t if t < len(case["ppt"]) and case["ppt"][t])


def check_case(ck, case, res, tally, streams, origin):
    """monitors on the real outputs of one case + queue its streams for the model side.
    streams: list of (stream, expectation) appended here."""
    key = S.case_key(case)
    ck.count(key=key, nontrivial=nontrivial(case),
             sample={"origin": origin, "case": case, "range": res.get("range"),
                     "roundrobin": res.get("roundrobin"),
                     "sticky": (res.get("sticky") or {}).get("out")} if nontrivial(case) and len(case["members"]) > 1 else None)
    replay = {"case": case, "origin": origin}
    if case.get("dup"):
        if not isinstance(res.get("range"), dict) and not isinstance(res.get("roundrobin"), dict):
            streams.append((enc_kind0(case), ("k0", case, res.get("range"), res.get("roundrobin"))))
        tally.n["duplicate-topic-subscription-cases(correspondence only)"] += 1
        return
    # ---------------- range / round-robin
    for a in ("range", "roundrobin"):
        out = res.get(a)
        if out is None:
            continue
        if isinstance(out, dict):
            viol(ck, f"{a} assignor raised {out['exc']}", dict(replay, assignor=a, real=out),
                         signature=f"{a}-crash:{out['exc'][:60]}")
            continue
        bad = mon_valid(case, out)
        if a == "range":
            bad += mon_range_balance(case, out)
        elif identical_subscriptions(case):
            bad += mon_within_one(case, out)
        if bad:
            viol(ck, f"{a} assignor: {bad[0]}", dict(replay, assignor=a, real=out, flaws=bad[:5]),
                         signature=f"{a}:{bad[0][0]}:{key}"[:200])
    if "range" in res or "roundrobin" in res:
        streams.append((enc_kind0(case), ("k0", case, res.get("range"), res.get("roundrobin"))))
    # ---------------- sticky
    st = res.get("sticky")
    if st is not None:
        check_sticky(ck, case, st, tally, streams, origin)


def check_sticky(ck, case, st, tally, streams, origin, prop="C14"):
    replay = {"case": case, "origin": origin, "assignor": "sticky"}
    if "exc" in st:
        sig = stale_claimant_signature(case, "crash") if st["exc"].startswith("KeyError") else None
        viol(ck, f"sticky assign() raised {st['exc']}", dict(replay, real=st),
                     signature=sig or f"sticky-crash:{st['exc'][:60]}:{S.case_key(case)}"[:200])
        tally.n["sticky:raised"] += 1
        return None
    out = st["out"]
    bad = mon_valid(case, out)
    known_invalid = False
    if bad:
        sig = stale_claimant_signature(case, "invalid", bad)
        known_invalid = sig is not None
        viol(ck, f"sticky assignor: {bad[0]}", dict(replay, real=out, flaws=bad[:5], log=st),
                     signature=sig or f"sticky-invalid:{bad[0][0]}:{S.case_key(case)}"[:200])
    kb = mon_kip54(case, out)
    known_unbalanced = False
    if kb and not known_invalid:
        sig = stale_claimant_signature(case, "unbalanced", st) or pingpong_signature(st)
        known_unbalanced = sig is not None
        viol(ck, f"sticky assignor result not KIP-54 balanced: {kb[0]}",
                     dict(replay, real=out, flaws=kb[:5], log=st),
                     signature=sig or f"sticky-kip54:{S.case_key(case)}"[:200])
    # the returned dict and the executor's final state must be the same ownership
    tally.ok("sticky:returned==executor-final",
             sorted(map(tuple, triples_of_out(out))) == sorted(map(tuple, st["final"])),
             {"case": case, "out": out, "final": st["final"]})
    off_path = False
    streams.append((enc_kind1(case, st), ("k1", case, st, not bad, not kb, not mon_within_one(case, out),
                                           off_path)))
    return out


CIRCLE_RUNS = {}


def check_circle_runs(ck):
    """the op logs of the runs whose passes went round in a circle, against model/C14_Circle.v (ctl_run_circle): accepted,
    and ending in the assignment the real assign() returned"""
    if not CIRCLE_RUNS:
        return
    items = list(CIRCLE_RUNS.items())[:400]
    body = "".join("Eval vm_compute in (run_sticky_circle ([" + "; ".join(map(str, s[1:])) + "]%nat)).\n" for s, _ in items)
    okc, out = ck.coq_eval("c14_circle", ["C14_Run", "C14_Circle"], body, timeout=900)
    vals = [re.findall(r"\d+", v) for v in parse_eval_outputs(out)] if okc else []
    bad = [c for (_, c), v in zip(items, vals) if v[:2] != ["1", "1"]]
    ck.obligation("correspondence:circle-runs-accepted-by-ctl_run_circle",
                  okc and len(vals) == len(items) and not bad,
                  f"{len(items)} circle runs" if okc and not bad else f"coq ok={okc}; {len(bad)} of {len(items)} rejected; first: {json.dumps(bad[:1])[:600]} {out[-300:] if not okc else ''}")
    ck.extra["circle_runs_checked_in_coq"] = len(items)


def settle(ck, tally, streams, results, engine):
    """compare the model-side results with the expectations queued by check_case"""
    for (stream, exp), got in zip(streams, results):
        if exp[0] == "k0":
            _, case, rng_real, rr_real = exp
            try:
                rng_model, rr_model = dec_kind0(got)
            except Exception:  # noqa: BLE001
                rng_model, rr_model = "undecodable", got
            if rng_real is not None and not isinstance(rng_real, dict):
                tally.ok(f"{engine}:range", rng_model == rng_real,
                         {"case": case, "model": rng_model, "real": rng_real})
            if rr_real is not None and not isinstance(rr_real, dict):
                tally.ok(f"{engine}:roundrobin", rr_model == rr_real,
                         {"case": case, "model": rr_model, "real": rr_real})
        elif exp[0] == "k1":
            _, case, st, mv, mk, mw, known_invalid = exp
            if len(got) != len(K1_FIELDS):
                tally.ok(f"{engine}:sticky-decode", False, {"case": case, "got": got})
                continue
            g = dict(zip(K1_FIELDS, got))
            d = {"case": case, "log": {k: st[k] for k in ("init", "prev", "assigns", "reassigns", "reverted", "final")}, "model": g}
            tally.ok(f"{engine}:sticky-init_current", g["init_current"] == 1 and g["previous_assignment"] == 1, d)
            if pingpong_signature(st) is not None and g["ctl_accepts_log"] == 0:
                # the passes went round in a circle and were stopped by the termination guard: neither of the two exits
                # of the model's loop (balanced / a pass without a move) - the run is outside StickyCtl, as the known
                # finding says (its result is still checked by the monitors and against the abstract machine)
                tally.n[f"{engine}:sticky-oplog-circle-outside-StickyCtl(known finding)"] += 1
                CIRCLE_RUNS[tuple(stream)] = case        # judged by ctl_run_circle inside Coq at the end of the run
            else:
                tally.ok(f"{engine}:sticky-oplog-accepted-by-StickyCtl",
                         g["ctl_accepts_log"] == 1 and g["ctl_final_equals_returned"] == 1, d)
            if not known_invalid:
                tally.ok(f"{engine}:sticky-oplog-is-StickyAbs-run", g["abs_run_ends_in_returned"] == 1, d)
            else:
                tally.n[f"{engine}:sticky-oplog-is-StickyAbs-run:known-finding-excluded"] += 1
            tally.ok(f"{engine}:sticky-checkers-agree-with-monitors",
                     (g["valid_b"] == 1) == mv and (g["kip54_balanced_b"] == 1) == mk
                     and (g["within_one_b"] == 1) == mw, d)
            if g["ctl_accepts_log"] == 1:
                tally.ok(f"{engine}:sticky-balanced-before-revert", g["prebalance_result_kip54"] == 1 or known_invalid, d)
        elif exp[0] == "k2":
            _, info, want = exp
            tally.ok(f"{engine}:moved_among", got == [want], {"info": info, "model": got, "monitor": want})


# =============================================================================== generators
def rnd_case(rng, max_m=12, max_t=8, max_p=12, claims=False):
    T = rng.randint(1, max_t)
    M = rng.randint(1, max_m)
    ppt = [rng.choice([None] + list(range(0, max_p + 1)) * 2) for _ in range(T)]
    mode = rng.random()
    s0 = sorted(rng.sample(range(T), rng.randint(1, T)))
    ids = rng.sample(range(14), M)
    if rng.random() < 0.5:
        ids.sort()
    members = []
    for m in ids:
        s = list(s0) if mode < 0.4 else sorted(rng.sample(range(T), rng.randint(1, T)))
        if rng.random() < 0.2:
            rng.shuffle(s)
        members.append([m, s])
    case = {"ppt": ppt, "members": members}
    if not claims and rng.random() < 0.04:
        # outside the property's quantifier (a subscription is a set): a topic listed twice.
        # Used for the range / round-robin correspondence only (the models are faithful there:
        # range then loses a partition, see Example c14_range_subs_nodup_needed)
        m = rng.choice(members)
        m[1].append(rng.choice(m[1]))
        case["dup"] = True
    if rng.random() < 0.15:
        # some of the topics are broker-internal ones (the real ClusterMetadata is used for these cases)
        known = [t for t, n in enumerate(ppt) if n is not None and n > 0]
        if known:
            case["internal"] = sorted(rng.sample(known, rng.randint(1, len(known))))
    if claims:
        case["claims"] = rnd_claims(rng, case)
    return case


def rebalance_case(rng):
    """An ordinary rebalance: members with DIFFERENT subscriptions, some of them owning a consistent previous
    generation (every partition owned by at most one old member that subscribes to it, skewed as after members
    left), the others joining without user data.  Partitions of one topic then travel in both directions between
    members inside one balance() - the domain of PartitionMovements' pair bookkeeping."""
    T = rng.randint(2, 6)
    ppt = [rng.randint(1, 8) for _ in range(T)]
    M = rng.randint(3, 6)
    ids = sorted(rng.sample(range(14), M))
    members = []
    for m in ids:
        s = rng.sample(range(T), rng.randint(1, T))
        if rng.random() < 0.5:
            s.sort()
        members.append([m, s])
    old = set(rng.sample(range(M), rng.randint(1, M - 1)))
    owned = {i: [] for i in old}
    for t, n in enumerate(ppt):
        cands = [i for i in old if t in members[i][1]]
        if not cands:
            continue
        fav = rng.choice(cands)
        for q in range(n):
            i = fav if rng.random() < 0.7 else rng.choice(cands)
            if rng.random() < 0.9:
                owned[i].append([t, q])
    claims = [[1, owned[i]] if i in old else None for i in range(M)]
    return {"ppt": ppt, "members": members, "claims": claims}


def rnd_claims(rng, case):
    """adversarial user data: arbitrary claims (possibly for topics without metadata,
    unsubscribed topics, partitions beyond the count), equal / different / zero / default
    generations => conflicts"""
    T = len(case["ppt"])
    style = rng.random()
    allp = [(t, p) for t in range(T) for p in range((case["ppt"][t] or 0) + (1 if rng.random() < 0.1 else 0))]
    if rng.random() < 0.15:
        allp += [(t, p) for t in range(T) if case["ppt"][t] is None for p in range(2)]
    out = []
    gens = [rng.choice([-1, 0, 1, 2, 2, 3]) for _ in case["members"]]
    if style < 0.4:
        gens = [2] * len(gens)
    for (m, subs), g in zip(case["members"], gens):
        if rng.random() < 0.2 or not allp:
            out.append(None)
            continue
        k = rng.randint(0, min(len(allp), 6))
        mine = rng.sample(allp, k)
        if style < 0.7:
            # mostly claim partitions of subscribed topics
            mine = [x for x in mine if x[0] in subs or rng.random() < 0.2]
        out.append([g, [list(x) for x in mine]])
    return out


# =============================================================================== run
def run(ck: Check):
    t_start = time.time()
    ck.trusted += [
        "Coq 8.16.1 kernel (coqc); vm_compute for the sampled in-Coq evaluation of run_case and the _refuted witness",
        "OCaml extraction (ExtrOcamlBasic only) of C14_Run.run_case + ocaml/c14_driver.ml (int <-> Peano nat, line I/O): used for the volume evaluation only; a sample of the same cases is re-evaluated inside Coq and must give identical results",
        "harness/c14.py encoders/decoders of the case streams, harness/impl/c14_impl.py wrappers recording the sticky op log (monkeypatching StickyAssignmentExecutor._assign_partition/_reassign_partition_to_consumer/_move_partition/_get_balance_score/balance/__init__)",
        "StubCluster (topics(), partitions_for_topic()) stands for ClusterMetadata; partitions of a topic are 0..n-1",
        "member/topic names are zero padded so that string order = numeric order (the models sort numerically)",
        "StickyCtl abstracts the visiting order of partitions (sorted_partitions) and set iteration order",
    ]
    ck.cov["rule"] = (
        "exhaustive: every (layout, members) with <= 3 topics x (no metadata | 0..4 partitions) x <= 3 members (thorough: 4) "
        "x every non-empty subscription per member, all three assignors; random beyond (<= 12 members, 8 topics, 12 "
        "partitions, shuffled ids / subscription order, sticky with and without adversarial user data); a case is "
        "non-trivial when some subscribed topic has >= 1 partition; distinct by (layout, members, claims)")
    ok_p, _ = ck.coq_props("C14")
    have_runner = ensure_runner(ck)
    tally = Tally()
    rng = ck.rng
    sample_for_coq = []          # (stream, expectation) re-evaluated by vm_compute
    n_coq = ck.n(400, 8000)

    # ---------------- known-finding corpus + corpus directory
    corpus = load_corpus()
    # ---------------- exhaustive bounded space
    max_m = ck.n(3, 4)
    blocks = S.space_blocks(3, max_m)
    total = sum(S.space_size(T, M) for T, M, _ in blocks)
    ck.log(f"exhaustive space: {len(blocks)} layout blocks, {total} inputs x 3 assignors")
    # batches of ~60k cases
    batches, cur, cur_n = [], [], 0
    for b in blocks:
        cur.append(b)
        cur_n += S.space_size(b[0], b[1])
        if cur_n >= 60000:
            batches.append(cur)
            cur, cur_n = [], 0
    if cur:
        batches.append(cur)
    # probability with which an exhaustive case is also sent to Coq
    p_coq = min(1.0, (n_coq * 0.7) / total)
    n_exh = 0
    t_impl = t_mon = t_ocaml = 0.0
    for bi, batch in enumerate(batches):
        t0 = time.time()
        jobs = split_jobs(batch, NPROC)
        res = run_impl("c14_impl.py", {"jobs": [{"kind": "blocks", "blocks": j, "assignors": ASSIGNORS} for j in jobs],
                                       "procs": NPROC}, timeout=3000)
        t_impl += time.time() - t0
        t0 = time.time()
        streams = []
        for j, r in zip(jobs, res):
            it = iter(r)
            for (T, M, li) in j:
                for case in S.block_cases(T, M, li):
                    check_case(ck, case, next(it), tally, streams, "exhaustive")
                    n_exh += 1
        t_mon += time.time() - t0
        t0 = time.time()
        if have_runner:
            results = run_ocaml([s for s, _ in streams])
            settle(ck, tally, streams, results, "ocaml")
            for (s, e), r in zip(streams, results):
                if rng.random() < p_coq:
                    sample_for_coq.append((s, e, r))
        else:
            for s, e in streams:
                if rng.random() < p_coq:
                    sample_for_coq.append((s, e, None))
        t_ocaml += time.time() - t0
    ck.extra["exhaustive_inputs"] = n_exh
    ck.extra["exhaustive_members_max"] = max_m
    ck.log(f"exhaustive: {n_exh} inputs; real code {t_impl:.1f}s, monitors+encoding {t_mon:.1f}s, ocaml {t_ocaml:.1f}s")

    # ---------------- corpus + random beyond the bounded space
    n_rand = ck.n(3000, 40000)
    cases = list(corpus)
    for i in range(n_rand):
        cases.append(rnd_case(rng, claims=(i % 2 == 1)))
    jobs = [cases[i::NPROC] for i in range(NPROC)]
    res = run_impl("c14_impl.py", {"jobs": [{"kind": "cases", "cases": j, "assignors": ASSIGNORS} for j in jobs],
                                   "procs": NPROC}, timeout=3000)
    streams = []
    hist = collections.Counter()
    for j, r in zip(jobs, res):
        for case, rr in zip(j, r):
            origin = "corpus" if any(case is c for c in corpus) else "random"
            check_case(ck, case, rr, tally, streams, origin)
            hist[f"members={min(len(case['members']), 12)}"] += 1
            hist["claims" if case.get("claims") else "no-claims"] += 1
            st = rr.get("sticky") or {}
            hist["sticky-moves>0" if st.get("reassigns") else "sticky-moves=0"] += 1
            hist["sticky-reverted" if st.get("reverted") else "sticky-not-reverted"] += 1
            hist["prev-nonempty" if st.get("prev") else "prev-empty"] += 1
    ck.extra["random_histogram"] = dict(hist)
    # ---------------- ordinary rebalances with different subscriptions (sticky only): previous generation + joiners
    n_reb = ck.n(40000, 400000)
    rcases = [rebalance_case(rng) for _ in range(n_reb)]
    rjobs = [rcases[i::NPROC] for i in range(NPROC)]
    rres = run_impl("c14_impl.py", {"jobs": [{"kind": "cases", "cases": j, "assignors": ["sticky"]} for j in rjobs],
                                    "procs": NPROC}, timeout=3000)
    for j, r in zip(rjobs, rres):
        for case, rr in zip(j, r):
            check_case(ck, case, rr, tally, streams, "rebalance")
    ck.extra["rebalance_family_cases"] = n_reb
    if have_runner:
        results = run_ocaml([s for s, _ in streams])
        settle(ck, tally, streams, results, "ocaml")
        p2 = min(1.0, (n_coq * 0.3) / max(1, len(streams)))
        for (s, e), r in zip(streams, results):
            if rng.random() < p2:
                sample_for_coq.append((s, e, r))
    else:
        sample_for_coq += [(s, e, None) for s, e in streams[: n_coq // 3]]

    # ---------------- the sample inside Coq
    t0 = time.time()
    coq_res, err = run_coq(ck, "c14_cases", [s for s, _, _ in sample_for_coq])
    if coq_res is None:
        ck.obligation("correspondence:in-coq-evaluation-ran", False, err)
    else:
        settle(ck, tally, [(s, e) for s, e, _ in sample_for_coq], coq_res, "coq")
        same = sum(1 for (_, _, r), c in zip(sample_for_coq, coq_res) if r is None or r == c)
        ck.obligation("correspondence:extracted-runner==vm_compute-on-sample", same == len(coq_res),
                      f"{len(coq_res) - same} of {len(coq_res)} differ")
    ck.extra["in_coq_cases"] = len(sample_for_coq)
    ck.log(f"in-Coq sample: {len(sample_for_coq)} cases in {time.time() - t0:.1f}s")

    # ---------------- obligations
    for eng in (["ocaml"] if have_runner else []) + (["coq"] if coq_res is not None else []):
        for what in ("range", "roundrobin", "sticky-init_current", "sticky-oplog-accepted-by-StickyCtl",
                     "sticky-oplog-is-StickyAbs-run", "sticky-checkers-agree-with-monitors",
                     "sticky-balanced-before-revert"):
            k = f"{eng}:{what}"
            n_ok, n_bad = tally.n[k + ":ok"], tally.n[k + ":bad"]
            ck.obligation(f"correspondence:{what}[{eng}]", n_bad == 0 and n_ok > 0,
                          f"{n_ok} agree" if n_bad == 0 else f"{n_bad} of {n_ok + n_bad} disagree; first: {tally.detail(k)}")
    k = "sticky:returned==executor-final"
    ck.obligation("correspondence:sticky-returned-assignment==executor-state", tally.n[k + ":bad"] == 0,
                  tally.detail(k))
    check_circle_runs(ck)
    ck.extra["agreement_counters"] = dict(tally.n)
    ck.extra["timing_s"] = {"real_code": round(t_impl, 1), "monitors_encoding": round(t_mon, 1),
                            "ocaml": round(t_ocaml, 1), "total": round(time.time() - t_start, 1)}


def split_jobs(blocks, n):
    """split blocks into n jobs of similar case counts"""
    jobs = [[] for _ in range(n)]
    sizes = [0] * n
    for b in sorted(blocks, key=lambda b: -S.space_size(b[0], b[1])):
        i = sizes.index(min(sizes))
        jobs[i].append(b)
        sizes[i] += S.space_size(b[0], b[1])
    return [j for j in jobs if j]


def load_corpus():
    d = os.path.join(VERIF, "corpus", "C14")
    out = []
    if os.path.isdir(d):
        for fn in sorted(os.listdir(d)):
            if fn.endswith(".json"):
                with open(os.path.join(d, fn)) as f:
                    doc = json.load(f)
                out += doc["cases"] if "cases" in doc else [doc["case"]]
    return out


def replay(ck: Check, path):
    doc = json.load(open(path))
    rp = doc.get("replay", doc)
    case = rp["case"]
    res = run_impl("c14_impl.py", {"jobs": [{"kind": "cases", "cases": [case], "assignors": ASSIGNORS}]})[0][0]
    tally = Tally()
    streams = []
    check_case(ck, case, res, tally, streams, "replay")
    print(json.dumps({"case": case, "real": res}, indent=1)[:4000])
    if ensure_runner(ck):
        settle(ck, tally, streams, run_ocaml([s for s, _ in streams]), "ocaml")
        for k, v in tally.n.items():
            if k.endswith(":bad"):
                ck.obligation("correspondence:" + k[:-4], False, tally.detail(k[:-4]))
    return ck.finish()
