"""C11 — API messages encode to the Kafka wire format and negotiate versions safely.

  (1) tie T: translator/schema2gallina.py regenerates coq/gen/Schemas.v from the imported
      aiokafka.protocol classes; props/C11.v (generic round trip, layout against the
      hand-written Kafka table, prepare, pairing, guards) is re-checked against it;
  (2) correspondence: for every struct / primitive type, generated values are encoded and
      decoded by the real classes (harness/impl/c11_impl.py) and by model/Wire.v evaluated
      inside Coq — bytes identical, decode identical, and identical to the bytes of the
      independent Kafka layout table; every Request builder is driven over all (min,max)
      with 0 <= min <= max <= 13, "api key absent" and all parameter-presence combinations
      and compared with model prepare∘guard (model/C11Negotiate.v);
  (3) independent monitor on the real classes: round trip, negotiated version in range and
      highest, header carries it, reply parsed with the request version's schema and header
      form, a present listed parameter is either carried on the wire or rejected.
"""
import hashlib
import json
import os
import re

from common import (COQ, Check, coq_bool, coq_list, coq_str, coq_Z, parse_coq_value,
                    parse_eval_outputs, run_impl, sh)

IMPL_ENV = {"AIOKAFKA_NO_EXTENSIONS": "1"}
IMPORTS = ["Wire", "WireTables", "KafkaSpec", "C11Negotiate", "C11Tables", "WireRun", "Schemas"]
TRAILER = [0xA5, 0x5A]

PARAMS = ["PTransactionalId", "PIsolationLevel", "PCoordinatorType", "PTimestampSearch",
          "PAuthorizedOps", "PPartitionsOmitted", "PValidateOnly", "PIncludeSynonyms", "PTags",
          "PNoAutoTopicCreation", "PGroupInstanceId", "PRackId", "PPatternType"]
LISTED = set(PARAMS[:9])

# Independent statement (Kafka protocol knowledge, written from the property text): the
# lowest request version that can express the parameter, per builder.
MIN_VERSION = {
    ("ProduceRequest", "PTransactionalId"): 3,
    ("FetchRequest", "PIsolationLevel"): 4,
    ("OffsetRequest", "PIsolationLevel"): 2,
    ("OffsetRequest", "PTimestampSearch"): 1,
    ("FindCoordinatorRequest", "PCoordinatorType"): 1,
    ("DescribeGroupsRequest", "PAuthorizedOps"): 3,
    ("OffsetFetchRequest", "PPartitionsOmitted"): 2,
    ("CreateTopicsRequest", "PValidateOnly"): 1,
    ("DescribeConfigsRequest", "PIncludeSynonyms"): 1,
    ("DeleteRecordsRequest", "PTags"): 2,
    # not in the property's list (observations only)
    ("MetadataRequest", "PNoAutoTopicCreation"): 4,
    ("JoinGroupRequest", "PGroupInstanceId"): 5,
    ("SyncGroupRequest", "PGroupInstanceId"): 3,
    ("FetchRequest", "PRackId"): 11,
    ("DescribeAclsRequest", "PPatternType"): 1,
    ("CreateAclsRequest", "PPatternType"): 1,
    ("DeleteAclsRequest", "PPatternType"): 1,
}

INT_RANGE = {"Int8": (-2**7, 2**7 - 1), "Int16": (-2**15, 2**15 - 1), "Int32": (-2**31, 2**31 - 1),
             "Int64": (-2**63, 2**63 - 1), "UInt32": (0, 2**32 - 1), "UnsignedVarInt32": (0, 2**32 - 1),
             "VarInt32": (0, 2**31 - 1), "VarInt64": (0, 63)}
COQ_PRIM = {"Int8": "TInt8", "Int16": "TInt16", "Int32": "TInt32", "Int64": "TInt64", "UInt32": "TUInt32",
            "Boolean": "TBool", "Float64": "TFloat64", "String": "TString", "Bytes": "TBytes",
            "UnsignedVarInt32": "TUVarInt", "VarInt32": "TVarInt32", "VarInt64": "TVarInt64",
            "CompactString": "TCompactString", "CompactBytes": "TCompactBytes", "TaggedFields": "TTagged"}
VARINT_BOUNDS = [0, 1, 127, 128, 16383, 16384, 2097151, 2097152, 268435455, 268435456, 2**32 - 1]
STR_POOL = [None, "", "a", "topic-1", "é", "日本語", "\U0001F600x", "\x00", "group.id/with:chars", "T_9.-x"]
STR_POOL_LONG = ["a" * 126, "a" * 127, "b" * 128, "ü" * 100, "c" * 255, "d" * 256, "é" * 64]
F64_POOL = [0, 0x8000000000000000, 0x3FF0000000000000, 0xBFF8000000000000, 0x7FF0000000000000,
            0xFFF0000000000000, 0x7FF8000000000000, 0x7FF0000000000001, 0x7FEFFFFFFFFFFFFF, 1,
            0x400921FB54442D18, 0xFFFFFFFFFFFFFFFF]


# ------------------------------------------------------------------------------ value generation
def gen_int(k, rng, mode):
    lo, hi = INT_RANGE[k]
    if mode == "zero":
        return 0
    if mode == "min":
        return lo
    if mode == "max":
        return hi
    if mode == "one":
        return rng.randint(2, min(100, hi))
    r = rng.random()
    if k == "UnsignedVarInt32" and r < 0.7:
        return rng.choice(VARINT_BOUNDS)
    if r < 0.35:
        return rng.choice([lo, hi, lo + 1, hi - 1, 0, 1, -1 if lo < 0 else 2])
    if r < 0.5:
        c = [x for x in (127, 128, 255, 256, 32767, 32768, 65535, 2**31 - 1, 2**31, 2**32 - 1, -128, -129, -32768,
                         -32769, -2**31) if lo <= x <= hi] or [lo, hi]
        return rng.choice(c)
    if r < 0.75:
        return rng.randint(max(lo, -1000), min(hi, 1000))
    return rng.randint(lo, hi)


def gen_bytes(rng, mode, compact):
    if mode == "zero":
        return ""
    if mode == "min":
        return None
    if mode == "max":
        return "00ff7f80" + "ab" * 6
    if mode == "one":
        return "0102"
    r = rng.random()
    if r < 0.15:
        return None
    if r < 0.3:
        return ""
    if r < 0.4:
        return bytes([rng.choice([0, 0x7F, 0x80, 0xFF])] * rng.choice([1, 2, 3, 127, 128, 129])).hex()
    if r < 0.43:
        return bytes(rng.randrange(256) for _ in range(rng.choice([255, 256, 300]))).hex()
    return bytes(rng.randrange(256) for _ in range(rng.randrange(1, 24))).hex()


def gen_tagged(rng, mode):
    if mode in ("zero", "min"):
        return []
    if mode == "max":
        return [[0, ""], [127, "00"], [128, "ffff"], [4294967295, "a5" * 128]]
    if mode == "one":
        return [[1, "09"]]
    r = rng.random()
    if r < 0.45:
        return []
    n = rng.choice([1, 1, 2, 3, 5])
    tags = sorted(rng.sample(sorted(set(VARINT_BOUNDS + [2, 3, 5, 1000, 70000, 2**31])), n))
    if rng.random() < 0.3:
        rng.shuffle(tags)              # dict built in another order: must be written ascending
    return [[t, bytes(rng.randrange(256) for _ in range(rng.choice([0, 1, 2, 3, 7, 7, 127, 128]))).hex()] for t in tags]


def gen(tr, rng, mode, depth=0):
    k = tr["k"]
    if k in INT_RANGE:
        return gen_int(k, rng, mode)
    if k == "Boolean":
        if mode in ("zero", "min", "max", "one"):
            return mode in ("max", "one")
        return rng.random() < 0.5
    if k == "Float64":
        if mode == "zero":
            return 0
        if mode == "min":
            return 0xFFEFFFFFFFFFFFFF
        if mode == "max":
            return 0x7FF8000000000001
        if mode == "one":
            return 0x3FF8000000000000
        return rng.choice(F64_POOL) if rng.random() < 0.7 else rng.getrandbits(64)
    if k in ("String", "CompactString"):
        if mode == "zero":
            return ""
        if mode == "min":
            return None
        if mode == "max":
            return "日本語-é-\U0001F600"
        if mode == "one":
            return "s%d" % rng.randint(0, 9)
        r = rng.random()
        if r < 0.7:
            return rng.choice(STR_POOL)
        if r < 0.8:
            return rng.choice(STR_POOL_LONG)
        return "".join(rng.choice("abcXYZ019-_.éß中") for _ in range(rng.randrange(1, 40)))
    if k in ("Bytes", "CompactBytes"):
        return gen_bytes(rng, mode, k == "CompactBytes")
    if k == "TaggedFields":
        return gen_tagged(rng, mode)
    if k in ("Array", "CompactArray"):
        if mode == "zero":
            return []
        if mode == "min":
            return None
        if mode == "max":
            return [gen(tr["of"], rng, "max", depth + 1), gen(tr["of"], rng, "min", depth + 1)]
        if mode == "one":
            return [gen(tr["of"], rng, "one", depth + 1)]
        r = rng.random()
        if r < 0.12:
            return None
        if r < 0.25:
            return []
        prim_elem = tr["of"]["k"] not in ("Schema", "Array", "CompactArray")
        if prim_elem and r < 0.29:
            n = rng.choice([126, 127, 128, 129])           # compact length + 1 crosses one byte
        else:
            n = rng.choice([1, 1, 2, 3]) if depth < 2 else rng.choice([1, 1, 2])
        return [gen(tr["of"], rng, "rand", depth + 1) for _ in range(n)]
    if k == "Schema":
        return [gen(f, rng, mode, depth) for _, f in tr["fields"]]
    raise ValueError("gen: unknown type " + k)


def features(tr, v, h):
    """input-distribution histogram: which boundary features the generated values contain"""
    k = tr["k"]

    def inc(name):
        h[name] = h.get(name, 0) + 1
    if k in INT_RANGE:
        lo, hi = INT_RANGE[k]
        inc(f"{k}:min" if v == lo else f"{k}:max" if v == hi else f"{k}:other")
        if k == "UnsignedVarInt32":
            inc("uvarint:%d-byte" % (1 + sum(v >= b for b in (128, 16384, 2097152, 268435456))))
    elif k in ("String", "CompactString"):
        if v is None:
            inc("string:null")
        elif v == "":
            inc("string:empty")
        else:
            n = len(v.encode("utf-8"))
            inc("string:non-ascii" if n != len(v) else "string:ascii")
            if n >= 127:
                inc("string:>=127 bytes")
    elif k in ("Bytes", "CompactBytes"):
        inc("bytes:null" if v is None else "bytes:empty" if v == "" else "bytes:non-empty")
    elif k == "TaggedFields":
        inc("tagged:empty" if not v else "tagged:%d field(s)" % min(len(v), 3))
        if v != sorted(v, key=lambda kv: kv[0]):
            inc("tagged:not in ascending order")
        if any(t == 0 for t, _ in v):
            inc("tagged:tag 0")
        for t, b in v:
            inc("tag:%d-byte" % (1 + sum(t >= x for x in (128, 16384, 2097152, 268435456))))
    elif k in ("Array", "CompactArray"):
        if v is None:
            inc("array:null")
        elif not v:
            inc("array:empty")
        else:
            inc("array:>=127 elements" if len(v) >= 127 else "array:1-3 elements")
            for x in v:
                features(tr["of"], x, h)
    elif k == "Schema":
        for (_, f), x in zip(tr["fields"], v):
            features(f, x, h)
    elif k == "Boolean":
        inc("bool:true" if v else "bool:false")
    elif k == "Float64":
        inc("float64:nan" if (v & 0x7FF0000000000000) == 0x7FF0000000000000 and (v & 0xFFFFFFFFFFFFF) else "float64:other")


def pynorm(tr, v):
    """the value with every TaggedFields item list sorted by tag (Wire.vnorm): what decode returns"""
    k = tr["k"]
    if k == "TaggedFields":
        return sorted(v, key=lambda kv: kv[0])
    if k in ("Array", "CompactArray"):
        return None if v is None else [pynorm(tr["of"], x) for x in v]
    if k == "Schema":
        return [pynorm(f, x) for (_, f), x in zip(tr["fields"], v)]
    return v


def is_trivial(tr, v):
    """the all-default value of the type"""
    return v == gen(tr, None, "zero")


# ------------------------------------------------------------------------------ Coq literals
def coq_hex(h):
    """hex string -> Gallina list Z, via model/WireRun.v hx (string literals parse much faster than lists)"""
    return f'(hx "{h}")' if h else "[]"


def coq_bytes_of_hex(h):
    return coq_hex(h)


def coq_val(tr, j):
    k = tr["k"]
    if k in INT_RANGE or k == "Float64":
        return f"VInt {coq_Z(int(j))}"
    if k == "Boolean":
        return f"VBool {coq_bool(j)}"
    if k in ("String", "CompactString"):
        return "VStr None" if j is None else f"VStr (Some {coq_hex(j.encode('utf-8').hex())})"
    if k in ("Bytes", "CompactBytes"):
        return "VBytes None" if j is None else f"VBytes (Some {coq_bytes_of_hex(j)})"
    if k == "TaggedFields":
        return "VTagged " + coq_list(j, lambda kv: f"({coq_Z(kv[0])}, {coq_bytes_of_hex(kv[1])})")
    if k in ("Array", "CompactArray"):
        if j is None:
            return "VArr None"
        return "VArr (Some " + coq_list(j, lambda x: coq_val(tr["of"], x)) + ")"
    if k == "Schema":
        return "VTup " + coq_list(list(zip([f for _, f in tr["fields"]], j)), lambda fx: coq_val(fx[0], fx[1]))
    raise ValueError(k)


def coq_ty(tr):
    k = tr["k"]
    if k in COQ_PRIM:
        return COQ_PRIM[k]
    if k == "Array":
        return f"TArray ({coq_ty(tr['of'])})"
    if k == "CompactArray":
        return f"TCompactArray ({coq_ty(tr['of'])})"
    if k == "Schema":
        return "TSchema " + coq_list([f for _, f in tr["fields"]], coq_ty)
    raise ValueError(k)


def from_coq_val(tr, c):
    """printed Wire.val (parsed by parse_coq_value) -> value JSON, directed by the type"""
    k = tr["k"]

    def opt(x):
        if x is None:
            return None
        if isinstance(x, tuple) and x[0] == "Some":
            return x[1]
        raise ValueError(f"option expected: {x!r}")
    if not (isinstance(c, tuple) and len(c) == 2):
        raise ValueError(f"constructor expected: {c!r}")
    tag, arg = c
    if k in INT_RANGE or k == "Float64":
        assert tag == "VInt", c
        return arg
    if k == "Boolean":
        assert tag == "VBool", c
        return arg
    if k in ("String", "CompactString"):
        assert tag == "VStr", c
        b = opt(arg)
        return None if b is None else bytes(b).decode("utf-8")
    if k in ("Bytes", "CompactBytes"):
        assert tag == "VBytes", c
        b = opt(arg)
        return None if b is None else bytes(b).hex()
    if k == "TaggedFields":
        assert tag == "VTagged", c
        return [[t, bytes(b).hex()] for (t, b) in arg]
    if k in ("Array", "CompactArray"):
        assert tag == "VArr", c
        l = opt(arg)
        return None if l is None else [from_coq_val(tr["of"], x) for x in l]
    if k == "Schema":
        assert tag == "VTup", c
        if len(arg) != len(tr["fields"]):
            raise ValueError("tuple arity")
        return [from_coq_val(f, x) for (_, f), x in zip(tr["fields"], arg)]
    raise ValueError(k)


# flattening (model/C11Tables.v: flat): the layout a schema puts on the wire
def flat_tree(tr):
    k = tr["k"]
    if k == "Schema":
        fs = []
        for n, f in tr["fields"]:
            ft = flat_tree(f)
            if ft["k"] == "Schema" and f["k"] == "Schema":
                fs += ft["fields"]
            else:
                fs.append([n, ft])
        return {"k": "Schema", "fields": fs}
    if k in ("Array", "CompactArray"):
        of = flat_tree(tr["of"])
        if of["k"] != "Schema":
            of = {"k": "Schema", "fields": [["_", of]]}
        return {"k": k, "of": of}
    return tr


def flat_val(tr, j):
    k = tr["k"]
    if k == "Schema":
        out = []
        for (n, f), x in zip(tr["fields"], j):
            if f["k"] == "Schema":
                out += flat_val(f, x)
            else:
                out.append(flat_val(f, x))
        return out
    if k in ("Array", "CompactArray"):
        if j is None:
            return None
        if tr["of"]["k"] == "Schema":
            return [flat_val(tr["of"], x) for x in j]
        return [[flat_val(tr["of"], x)] for x in j]
    return j


def shard(xs, n):
    return [xs[i:i + n] for i in range(0, len(xs), n)]


def vhash(x):
    return hashlib.blake2b(json.dumps(x, sort_keys=True).encode(), digest_size=8).hexdigest()


# ------------------------------------------------------------------------------ the check
def run(ck: Check):
    ck.trusted += [
        "Coq 8.16.1 kernel (coqc); vm_compute used for the finite table theorems and for case evaluation",
        "translator/schema2gallina.py (object introspection of the imported aiokafka.protocol classes); "
        "cross-checked on every run: harness/impl/c11_impl.py walks the classes independently and the "
        "values it encodes are decoded by the Gallina functions applied to the translator's terms",
        "model/Wire.v: hand model of protocol/types.py (encoders/decoders), tied by the per-run byte-for-byte "
        "correspondence; str<->UTF-8 and float<->IEEE-754 bits conversions are Python's (the model starts at "
        "the encoded bytes / bit pattern)",
        "model/KafkaSpec.v: the Kafka protocol layout per (api key, version), hand-written from the Kafka "
        "protocol definition without network access; it is the oracle of c11_layout_conforms_partial",
        "model/C11Negotiate.v: hand model of Request.prepare and of the builders' build() guards, tied by the "
        "exhaustive correspondence (all builders x all ranges 0..13 x all parameter combinations)",
        "harness/impl/c11_impl.py: constructor-argument recipes per builder and marker values per parameter",
    ]
    ck.cov["rule"] = (
        "codec cases: every struct / extra schema / primitive type x {all-default, all-minimum+null, all-maximum+"
        "non-ASCII+nested, random boundary-biased values}; a case is non-trivial unless it is the all-default "
        "value; distinct by (struct, value). negotiation cases: every builder x {api key absent, all 0<=min<=max<=13}"
        " x all subsets of its parameters; distinct by (builder, range, subset); non-trivial when a range is given."
        " reply cases: every request struct x response values of its own (key, version).")
    rng = ck.rng

    # ---------------------------------------------------------------- (1) translator + proofs
    ck.regenerate(["PrepareGen"])
    ok_t, out_t = ck.regenerate_schemas()
    ok_p, out_p = ck.coq_props("C11", timeout=1200)
    import time as _time

    def lap(what):
        ck.log(f"  [{_time.time() - ck.t0:6.1f}s] {what}")
    ck.log(f"schemas translated ok={ok_t}; proofs ok={ok_p}")
    lap("translator + proofs")
    if not ok_p:
        ck.log(out_p[-1500:])
        ck.extra["coq_failure"] = failing_lemma(out_p)
        ck.log("failing lemma:", ck.extra["coq_failure"])

    if ck.thorough and ok_p:
        # independent re-check of the compiled proofs by coqchk (prints the axioms it finds: none expected)
        rc, outk = sh(["coqchk", "-silent", "-o", "-Q", "lib", "Verif", "-Q", "model", "Verif", "-Q", "gen", "Verif",
                       "-Q", "proof", "Verif", "-Q", "props", "Verif", "Verif.C11"], cwd=COQ, timeout=1200)
        summary = outk[outk.find("CONTEXT SUMMARY"):] if "CONTEXT SUMMARY" in outk else outk[-400:]
        ck.obligation("audit:coqchk-props-C11", rc == 0 and "* Axioms: <none>" in summary, summary[-400:])
        ck.extra["coqchk"] = " ".join(summary.split())[:400]
        ck.checker_cmds.append("cd coq && coqchk -o <includes> Verif.C11")
        lap("coqchk")

    # ---------------------------------------------------------------- describe the real classes
    desc = run_impl("c11_impl.py", {"describe": 1, "probes": 1}, env=IMPL_ENV)
    probes = desc["probes"]
    desc = desc["describe"]
    structs = {s["name"]: s for s in desc["structs"]}
    prims = {"prim:" + p["name"]: p for p in desc["prims"]}
    builders = {b["name"]: b for b in desc["builders"]}
    unknown_types = [n for n, s in list(structs.items()) + list(prims.items()) if "?" in json.dumps(s["tree"])]
    ck.obligation("correspondence:all-field-types-known", not unknown_types, f"unknown field types in {unknown_types[:5]}")
    ck.extra["struct_counts"] = {k: sum(1 for s in structs.values() if s["kind"] == k)
                                 for k in ("request", "response", "aux", "schema")}
    ck.extra["builders"] = len(builders)
    # the response CLASS a request names must carry the request's own api key and version: the client reads the version
    # back from the parsed reply (response.API_VERSION decides the SASL token framing after SaslHandshake, the Fetch
    # part layout, ...), so a class of another version with an identical schema is still the wrong one
    npair = 0
    for n, s_ in structs.items():
        if s_["kind"] != "request":
            continue
        r_ = structs.get(s_["resp"])
        npair += 1
        if r_ is None or r_.get("key") != s_["key"] or r_.get("ver") != s_["ver"]:
            ck.violation(f"{n} (api key {s_['key']}, version {s_['ver']}) names the response class {s_['resp']} "
                         f"(api key {r_ and r_.get('key')}, version {r_ and r_.get('ver')}): its reply is not parsed with "
                         f"the response type of the request's version",
                         {"kind": "response-class-pairing", "request": n, "response": s_["resp"],
                          "request_version": s_["ver"], "response_version": r_ and r_.get("ver")},
                         signature=f"response-class-pairing:{n}")
    ck.obligation("correspondence:response-class-pairing-checked", npair > 0, f"{npair} request classes")

    # the executable model is needed even when a proof no longer checks
    okm, outm = ck.coq_make(["model/WireRun.vo", "model/C11Tables.vo", "model/C11Negotiate.vo", "gen/Schemas.vo"])
    model_ok = ok_t and okm
    if not model_ok:
        ck.obligation("correspondence:model-builds", False, (out_t if not ok_t else outm)[-600:])

    # ---------------------------------------------------------------- (2a) codec cases
    cases = []          # (name, tree, value)
    nper = ck.n(16, 80)
    for name, s in list(structs.items()) + list(prims.items()):
        if name in unknown_types:
            continue
        tr = s["tree"]
        seen = set()
        for mode in ("zero", "min", "max", "one"):
            v = gen(tr, rng, mode)
            if vhash(v) not in seen:
                seen.add(vhash(v))
                cases.append((name, tr, v))
        tries = 0
        while len(seen) < nper and tries < 3 * nper:
            tries += 1
            v = gen(tr, rng, "rand")
            h = vhash(v)
            if h not in seen:
                seen.add(h)
                cases.append((name, tr, v))
    # corpus first: inputs of past failures (corpus/C11/*.json)
    corpus_reply = []
    n_corpus = 0
    cdir = os.path.join("corpus", "C11")
    for fn in sorted(os.listdir(cdir)) if os.path.isdir(cdir) else []:
        if fn.endswith(".json"):
            with open(os.path.join(cdir, fn)) as f:
                cj = json.load(f)
            for c in cj.get("codec", []):
                s_ = structs.get(c["s"]) or prims.get(c["s"])
                if s_ is not None:
                    cases.insert(0, (c["s"], s_["tree"], c["v"]))
                    n_corpus += 1
            corpus_reply += cj.get("reply", [])
    ck.extra["corpus_cases"] = n_corpus + len(corpus_reply)
    # every boundary of the variable-length primitives, explicitly
    for b in VARINT_BOUNDS:
        cases.append(("prim:UnsignedVarInt32", prims["prim:UnsignedVarInt32"]["tree"], b))
    for b in (0, 1, 63, 64, 8191, 8192, 2**31 - 1):
        cases.append(("prim:VarInt32", prims["prim:VarInt32"]["tree"], b))
    for b in range(0, 64, 9):
        cases.append(("prim:VarInt64", prims["prim:VarInt64"]["tree"], b))
    for n in (0, 1, 126, 127, 128, 255, 256, 300):
        cases.append(("prim:CompactString", prims["prim:CompactString"]["tree"], "s" * n))
        cases.append(("prim:CompactBytes", prims["prim:CompactBytes"]["tree"], "5a" * n))
        cases.append(("prim:String", prims["prim:String"]["tree"], "s" * n))
        cases.append(("prim:Bytes", prims["prim:Bytes"]["tree"], "5a" * n))
    # values outside the domain: the real encoder must refuse exactly where wt is false
    domain_cases = []
    for k in ("Int8", "Int16", "Int32", "Int64", "UInt32"):
        lo, hi = INT_RANGE[k]
        for v in (lo - 1, hi + 1, lo, hi):
            domain_cases.append(("prim:" + k, prims["prim:" + k]["tree"], v))
    ncodec = len(cases)
    allcases = cases + domain_cases
    impl = run_impl("c11_impl.py", {"codec": [{"s": n, "v": v} for n, _, v in allcases]}, env=IMPL_ENV,
                    timeout=900)["codec"]
    lap(f"codec: {len(allcases)} cases through the real classes")

    # ---- monitor: round trip on the real classes
    rt_fail = {}
    hist = {}
    for (name, tr, v), r in zip(cases, impl[:ncodec]):
        features(tr, v, hist)
        key = (name, vhash(v))
        ck.count(key=key, nontrivial=not is_trivial(tr, v),
                 sample={"struct": name, "value": v, "bytes": r.get("enc")} if name == "ProduceRequest_v3" and v != gen(tr, None, "zero") else None)
        bad = None
        if "exc" in r:
            bad = f"encode raised {r['exc']}"
        elif "dec_exc" in r:
            bad = f"decode of its own encoding raised {r['dec_exc']}"
        elif r["dec"] != pynorm(tr, v):
            bad = "decode(encode(v)) != v"
        elif not r.get("rest_ok"):
            bad = "decode consumed bytes beyond the encoding"
        if bad:
            rt_fail.setdefault(name, []).append((len(json.dumps(v)), bad, v, r))
    # one replay per struct, the smallest failing value; at most five structs
    for name in sorted(rt_fail, key=lambda n: min(x[0] for x in rt_fail[n]))[:5]:
        _, bad, v, r = min(rt_fail[name], key=lambda x: x[0])
        ck.violation(f"{name}: {bad} on an in-range value",
                     {"kind": "roundtrip", "struct": name, "value": v, "real": r,
                      "structs_failing": len(rt_fail)}, signature=f"roundtrip:{name}")
    ck.extra["roundtrip_failures"] = sum(len(x) for x in rt_fail.values())
    ck.extra["input_distribution"] = dict(sorted(hist.items()))

    # ---- correspondence: the same cases through model/Wire.v inside Coq
    def case_term(name, tr, v, r):
        t = ("s_" + name) if not name.startswith("prim:") else coq_ty(tr)
        s = structs.get(name)
        if s and s["kind"] in ("request", "response"):
            fn = "spec_request" if s["kind"] == "request" else "spec_response"
            spec = f"({fn} {coq_Z(s['key'])} {coq_Z(s['ver'])})"
        elif s and s["kind"] in ("aux", "schema"):
            spec = f"(lookup {coq_str(name)} aux_spec)"
        else:
            spec = "None"
        return f"({t}, {coq_val(tr, v)}, {coq_hex(r.get('enc', ''))}, {spec})"

    def case_file(sh, details=False):
        fn = "run_case_details" if details else "run_case"
        return ("Definition cases : list (ty * val * list Z * option ty) := [\n" + ";\n".join(
            case_term(n, tr, v, r) for (n, tr, v), r in sh) + f"].\nEval vm_compute in (map {fn} cases).\n")

    pairs = list(zip(allcases, impl))
    if not ck.thorough:
        # quick tier: the model sees the four fixed values and the first random ones of every struct
        # (the real classes and the monitor see all of them)
        seen_n = {}
        keep = []
        for pr in pairs:
            nm = pr[0][0]
            seen_n[nm] = seen_n.get(nm, 0) + 1
            if seen_n[nm] <= 8 or nm.startswith("prim:"):
                keep.append(pr)
        pairs = keep
    # balance the shards by size of the encoding
    pairs_sorted = sorted(range(len(pairs)), key=lambda i: -len(pairs[i][1].get("enc", "")))
    nshards = max(1, min(64, (len(pairs) + 299) // 300))
    shard_idx = [[] for _ in range(nshards)]
    for rank, i in enumerate(pairs_sorted):
        shard_idx[rank % nshards].append(i)
    shards = [[pairs[i] for i in sorted(idx)] for idx in shard_idx if idx]
    corr_ok = model_ok
    corr_detail = "" if model_ok else "model did not build"
    n_model = 0
    disagree = []       # cases to print in detail
    layout_byte_diffs = {}
    if model_ok:
        results = ck.coq_eval_sharded("c11_codec", IMPORTS, [case_file(sh) for sh in shards], timeout=900)
        for shd, (okc, outc) in zip(shards, results):
            sh_cases = shd
            if not okc:
                corr_ok = False
                corr_detail = corr_detail or ("coq evaluation failed: " + outc[-400:])
                continue
            try:
                parsed = parse_coq_value(parse_eval_outputs(outc)[0])
            except Exception as e:  # noqa: BLE001
                corr_ok = False
                corr_detail = corr_detail or f"cannot parse coq output: {e}"
                continue
            if len(parsed) != len(sh_cases):
                corr_ok = False
                corr_detail = corr_detail or f"coq printed {len(parsed)} results for {len(sh_cases)} cases"
                continue
            for (case, r), (m_wt, m_wtu, m_enc_eq, m_dec_ok, m_spec) in zip(sh_cases, parsed):
                name, tr, v = case
                n_model += 1
                in_domain = case not in domain_cases
                canonical = pynorm(tr, v) == v
                if m_wt and not m_wtu:
                    corr_ok = False
                    corr_detail = corr_detail or f"{name}: wt holds but wtu does not on {json.dumps(v)[:160]}"
                m_wt = m_wt if canonical else m_wtu      # dicts in another order: the wider domain
                if "exc" in r:
                    # the real encoder refused the value: the model must say "outside the domain"
                    if m_wtu:
                        corr_ok = False
                        corr_detail = corr_detail or f"{name}: model says in range, real encode raised {r['exc']} on {v!r}"
                    continue
                real_dec_ok = ("dec_exc" not in r) and r.get("dec") == pynorm(tr, v) and bool(r.get("rest_ok"))
                why = None
                if not m_enc_eq:
                    why = "bytes differ"
                elif in_domain and not m_wt:
                    why = "generated value is outside the model's domain"
                elif m_dec_ok != real_dec_ok and (m_wt or in_domain):
                    why = f"decode differs (model round trip {m_dec_ok}, real {real_dec_ok})"
                if why:
                    corr_ok = False
                    if len(disagree) < 4:
                        disagree.append((case, r, why))
                if m_spec is not None and in_domain:
                    spec_ok = m_spec[1] if isinstance(m_spec, tuple) else m_spec
                    if not spec_ok and (name not in layout_byte_diffs
                                        or len(r["enc"]) < len(layout_byte_diffs[name][1]["enc"])):
                        layout_byte_diffs[name] = (case, r)
        # details for the cases that disagree / deviate (small second evaluation)
        want = [(c, r) for c, r, _ in disagree] + list(layout_byte_diffs.values())
        if want:
            okc, outc = ck.coq_eval("c11_codec_details", IMPORTS, case_file(want, details=True), timeout=600)
            det = parse_coq_value(parse_eval_outputs(outc)[0]) if okc else [None] * len(want)
            for (case, r, why), d in zip(disagree, det):
                name, tr, v = case
                model_bytes = bytes(b % 256 for b in d[0]).hex() if d else "?"
                corr_detail = corr_detail or (f"{name}: {why} on value {json.dumps(v)[:300]}: real bytes {r.get('enc', '')[:120]} "
                                              f"model bytes {model_bytes[:120]}; real decode {json.dumps(r.get('dec', r.get('dec_exc')))[:120]}")
            for (name, (case, r)), d in zip(list(layout_byte_diffs.items()), det[len(disagree):]):
                sb = None
                if d and d[2] is not None:
                    sb = bytes(b % 256 for b in (d[2][1] if isinstance(d[2], tuple) else d[2])).hex()
                layout_byte_diffs[name] = {"struct": name, "value": case[2], "real_bytes": r["enc"],
                                           "kafka_table_bytes": sb}
    ck.obligation("correspondence:codec-model-vs-real-classes", corr_ok, corr_detail)
    lap(f"codec: {n_model} cases through the model in {len(shards)} coq shards")
    ck.extra["codec_cases_model"] = n_model
    ck.count(n=n_model, nontrivial=False)

    # ---------------------------------------------------------------- layout deviations / coverage
    tables_ok = model_ok
    deviating, uncovered = [], []
    if model_ok:
        body = (
            "Eval vm_compute in (map rq_name (filter (fun r => negb (req_layout_ok r)) requests) ++ "
            "map rs_name (filter (fun r => negb (resp_layout_ok r)) responses) ++ "
            "map fst (filter (fun e => negb (aux_layout_ok e)) aux_structs))%list.\n"
            "Eval vm_compute in (map rq_name (filter (fun r => negb (req_covered r)) requests) ++ "
            "map rs_name (filter (fun r => negb (resp_covered r)) responses) ++ "
            "map fst (filter (fun e => negb (aux_covered e)) aux_structs))%list.\n"
            "Eval vm_compute in (map (fun r => (rq_name r, rq_key r, rq_ver r, rq_name_ver r)) "
            "(filter (fun r => negb (pairing_ok responses r)) requests), "
            "map (fun r => rq_name r) (filter (fun r => negb (req_name_ok r)) requests), "
            "map (fun r => rs_name r) (filter (fun r => negb (resp_name_ok r)) responses), "
            "map bd_name (filter (fun b => negb (builder_ok requests b)) builders)).\n")
        okc, outc = ck.coq_eval("c11_tables", IMPORTS, body)
        if okc:
            vals = [parse_coq_value(v) for v in parse_eval_outputs(outc)]
            deviating, uncovered = vals[0], vals[1]
            bad_pairing, bad_req_names, bad_resp_names, bad_builders = vals[2]
            ck.extra["not_covered_by_KafkaSpec"] = uncovered
            ck.extra["layout_deviations"] = deviating
            ck.extra["table_check_failures"] = {"pairing": [p[0] for p in bad_pairing], "request_names": bad_req_names,
                                                "response_names": bad_resp_names, "builders": bad_builders}
        else:
            tables_ok = False
            ck.obligation("correspondence:table-evaluation", False, outc[-400:])
    # a layout deviation is a violation with the bytes as replay (known ones are listed in known_findings.d)
    for name in sorted(set(deviating) | set(layout_byte_diffs)):
        rp = layout_byte_diffs.get(name)
        if not isinstance(rp, dict):
            rp = {"struct": name, "note": "schema differs from KafkaSpec; no generated value produced different bytes"}
        rp["kind"] = "layout"
        s = structs.get(name, {})
        ck.violation(f"{name} (api key {s.get('key')}, v{s.get('ver')}) does not follow the Kafka layout of its "
                     f"version", rp, signature=f"layout:{name}", no_input="real_bytes" not in rp)

    # ---------------------------------------------------------------- (2b) negotiation: model
    advs = [None] + [(lo, hi) for lo in range(14) for hi in range(lo, 14)]

    def powerset(l):
        if not l:
            return [[]]
        p = powerset(l[1:])
        return p + [[l[0]] + x for x in p]

    model_neg = {}
    if model_ok:
        body = (
            "Fixpoint powerset {A} (l : list A) : list (list A) := match l with [] => [[]] | x :: r => "
            "let p := powerset r in p ++ map (cons x) p end.\n"
            "Definition pidx (p : param) : Z := (fix go (l : list param) (n : Z) := match l with [] => -1 | q :: r => "
            "if param_eqb p q then n else go r (n + 1) end) all_params 0.\n"
            "Definition rng (lo hi : Z) : list Z := map (fun n => lo + Z.of_nat n) (seq 0 (Z.to_nat (hi - lo + 1))).\n"
            "Definition advs : list (option (Z * Z)) := None :: flat_map (fun lo => map (fun hi => Some (lo, hi)) "
            "(rng lo 13)) (rng 0 13).\n"
            "Definition oc (o : outcome) : Z := match o with Chosen i _ => Z.of_nat i | ErrIncompatible => -1 "
            "| ErrNotImplemented => -2 | ErrIndex => -3 end.\n"
            "Eval vm_compute in (map (fun b => let ps := filter (applies (bd_key b)) all_params in "
            "(bd_name b, map pidx ps, map (fun adv => map (fun combo => oc (negotiate (bd_key b) (map snd (bd_classes b)) "
            "(bd_allow_unknown b) adv (fun p => existsb (param_eqb p) combo))) (powerset ps)) advs)) builders).\n")
        okc, outc = ck.coq_eval("c11_negotiate", IMPORTS, body)
        if okc:
            for (bname, pids, rows) in parse_coq_value(parse_eval_outputs(outc)[0]):
                model_neg[bname] = ([PARAMS[i] for i in pids], rows)
        else:
            ck.obligation("correspondence:negotiation-evaluation", False, outc[-400:])
    # the parameters the harness itself attributes to each builder (independent of the model)
    own_params = {b: [p for p in PARAMS if (b, p) in MIN_VERSION] for b in builders}
    neg_req = []
    for b in builders:
        ps = model_neg[b][0] if b in model_neg else own_params[b]
        neg_req.append({"builder": b, "combos": powerset(ps)})
    neg = run_impl("c11_impl.py", {"negotiate": neg_req, "maxv": 13}, env=IMPL_ENV, timeout=900)["negotiate"]

    neg_ok = bool(model_neg) and set(model_neg) == set(builders)
    neg_detail = "" if neg_ok else f"builders differ: model {sorted(set(model_neg) ^ set(builders))[:6]}"
    n_neg = 0
    observations = {}
    nviol_neg = 0
    seen_what = set()
    for req in neg_req:
        b = req["builder"]
        info = builders[b]
        combos = req["combos"]
        declared = [name_version(c[0]) for c in info["classes"]]
        for ai, adv in enumerate(advs):
            for ci, combo in enumerate(combos):
                r = neg[b][ai][ci]
                n_neg += 1
                ck.count(key=("neg", b, adv, tuple(combo)), nontrivial=adv is not None,
                         sample={"builder": b, "advertised": adv, "present": combo, "outcome": r}
                         if (b == "OffsetRequest" and adv == (0, 1) and combo) else None)
                # ---- correspondence with the model
                if b in model_neg:
                    m = model_neg[b][1][ai][ci]
                    if "cls" in r:
                        real_code = [c[0] for c in info["classes"]].index(r["cls"]) if r["cls"] in [c[0] for c in info["classes"]] else -9
                    else:
                        real_code = {"IncompatibleBrokerVersion": -1, "NotImplementedError": -2,
                                     "IndexError": -3}.get(r.get("exc", r.get("ctor_exc", "?")), -8)
                    if m != real_code and neg_ok:
                        neg_ok = False
                        neg_detail = (f"{b} advertised={adv} present={combo}: real {r.get('cls', r.get('exc', r.get('ctor_exc')))} "
                                      f"model outcome {m}")
                # ---- independent monitor
                what = None
                if "ctor_exc" in r or "post_exc" in r:
                    what = f"builder could not be driven: {r.get('ctor_exc', r.get('post_exc'))}"
                elif adv is None:
                    if info["allow_unknown"]:
                        if r.get("cls") != info["classes"][0][0]:
                            what = "api key unknown to the broker: expected the first class"
                    elif r.get("exc") != "IncompatibleBrokerVersion":
                        what = "api key unknown to the broker but the request was not rejected"
                else:
                    lo, hi = adv
                    common = [v for v in declared if lo <= v <= hi]
                    blocked = [p for p in combo if p in LISTED and common and max(common) < MIN_VERSION[(b, p)]]
                    if not common:
                        if r.get("exc") != "NotImplementedError":
                            what = f"no common version but outcome is {r.get('cls', r.get('exc'))}"
                    elif blocked:
                        if r.get("exc") != "IncompatibleBrokerVersion":
                            what = (f"{blocked} cannot be expressed in v{max(common)} but outcome is "
                                    f"{r.get('cls', r.get('exc'))}")
                    elif "cls" not in r:
                        what = f"request refused with {r.get('exc')} although v{max(common)} expresses everything asked"
                    else:
                        v = name_version(r["cls"])
                        if v != max(common):
                            what = f"chose v{v}, highest common version is v{max(common)}"
                        elif r["hdr"][0] != info["key"] or r["hdr"][1] != v:
                            what = (f"{r['cls']} puts api_key={r['hdr'][0]} api_version={r['hdr'][1]} in the request header, "
                                    f"negotiated {info['key']}/v{v}")
                        else:
                            for p in combo:
                                if not r["carried"].get(p, False):
                                    if p in LISTED:
                                        what = f"{p} given but not found in the encoded {r['cls']}"
                                    else:
                                        observations.setdefault(f"{b}:{p}", {
                                            "builder": b, "parameter": p, "silently_dropped_in": r["cls"],
                                            "expressible_from_version": MIN_VERSION.get((b, p))})
                if what:
                    nviol_neg += 1
                    wkey = (b, re.sub(r"\d+", "N", what))
                    if wkey not in seen_what and len(seen_what) < 8:
                        seen_what.add(wkey)
                        ck.violation(f"{b}: {what}", {"kind": "negotiate", "builder": b, "advertised": adv,
                                                      "present": combo, "outcome": r},
                                     signature=f"negotiate:{b}:{adv}:{'+'.join(combo)}")
    ck.obligation("correspondence:negotiation-model-vs-real-builders", neg_ok, neg_detail)
    lap(f"negotiation: {n_neg} cases")
    ck.extra["negotiation_cases"] = n_neg
    ck.extra["honest_note"] = (
        "Parameters outside the property's list (transactional id, isolation level, coordinator type, timestamp "
        "search, authorized operations; plus the ones the builders guard themselves) are NOT claimed to be guarded: "
        "the builders drop them silently on versions that cannot express them — allow_auto_topic_creation=False "
        "(Metadata < v4), group_instance_id (JoinGroup < v5, SyncGroup < v3), rack_id (Fetch < v11, documented in "
        "fetch.py), resource_pattern_type_filter (Describe/Create/DeleteAcls v0).  Proved about the model as "
        "c11_unlisted_params_dropped / c11_meaning_guard_all_params_refuted and replayed on the real builders on "
        "every run (observations_unlisted_parameters_dropped); they raise no violation.")
    ck.extra["observations_unlisted_parameters_dropped"] = sorted(observations.values(), key=lambda d: (d["builder"], d["parameter"]))

    # ---------------------------------------------------------------- (2c) Request.prepare on made-up class lists
    syn = [([0], False), ([3], True), ([0, 1, 2], False), ([0, 1, 2, 5], False), ([1, 3, 5, 7, 9, 11, 13], True),
           ([2, 1, 0], False), ([0, 2, 1], False), ([13], False), ([4, 9], True)]
    for _ in range(ck.n(12, 60)):
        k = rng.choice([1, 2, 3, 4, 6])
        vs = rng.sample(range(14), k)
        if rng.random() < 0.75:
            vs.sort()
        syn.append((vs, rng.random() < 0.3))
    syn_real = run_impl("c11_impl.py", {"synthetic": [[v, a] for v, a in syn], "maxv": 13}, env=IMPL_ENV,
                        timeout=300)["synthetic"]
    syn_ok, syn_detail = model_ok, "" if model_ok else "model did not build"
    n_syn_viol = 0
    if model_ok:
        body = (
            "Definition rng (lo hi : Z) : list Z := map (fun n => lo + Z.of_nat n) (seq 0 (Z.to_nat (hi - lo + 1))).\n"
            "Definition advs : list (option (Z * Z)) := None :: flat_map (fun lo => map (fun hi => Some (lo, hi)) "
            "(rng lo 13)) (rng 0 13).\n"
            "Definition oc (o : outcome) : Z := match o with Chosen i _ => Z.of_nat i | ErrIncompatible => -1 "
            "| ErrNotImplemented => -2 | ErrIndex => -3 end.\n"
            "Eval vm_compute in (map (fun c => map (fun adv => oc (prepare (fst c) (snd c) adv)) advs) "
            + coq_list(syn, lambda c: f"({coq_list(c[0])}, {coq_bool(c[1])})") + ").\n")
        okc, outc = ck.coq_eval("c11_synthetic", IMPORTS, body)
        if not okc:
            syn_ok, syn_detail = False, outc[-300:]
        else:
            model_rows = parse_coq_value(parse_eval_outputs(outc)[0])
            for (vs, allow), mr, rr in zip(syn, model_rows, syn_real):
                ck.count(key=("syn", tuple(vs), allow), nontrivial=True, n=len(advs))
                if mr != rr and syn_ok:
                    i = next(j for j in range(len(advs)) if mr[j] != rr[j])
                    syn_ok = False
                    syn_detail = (f"_CLASSES versions {vs} allow_unknown={allow} advertised {advs[i]}: real {rr[i]} model {mr[i]} "
                                  "(index of the class, -1 Incompatible, -2 NotImplemented)")
                # monitor: in range, and highest when the list is ascending
                for adv, o in zip(advs[1:], rr[1:]):
                    inr = [v for v in vs if adv[0] <= v <= adv[1]]
                    good = (o == -2) if not inr else (isinstance(o, int) and o >= 0 and adv[0] <= vs[o] <= adv[1]
                                                    and (vs != sorted(vs) or vs[o] == max(inr)))
                    if not good:
                        n_syn_viol += 1
                        if n_syn_viol > 3:
                            break
                        ck.violation(f"Request.prepare with class versions {vs}, advertised {adv}: outcome {o}",
                                     {"kind": "synthetic", "versions": vs, "advertised": adv, "outcome": o},
                                     signature=f"prepare:{vs}:{adv}")
                        break
    ck.obligation("correspondence:prepare-model-vs-real-on-synthetic-class-lists", syn_ok, syn_detail)
    lap(f"prepare on {len(syn)} synthetic class lists")

    # ---------------------------------------------------------------- (3) reply pairing monitor
    resp_by_kv = {}
    for s in structs.values():
        if s["kind"] == "response":
            resp_by_kv.setdefault((s["key"], s["name_ver"]), s)
    reply_cases = []
    for s in structs.values():
        if s["kind"] != "request":
            continue
        want = resp_by_kv.get((s["key"], s["name_ver"]))
        if want is None:
            ck.violation(f"{s['name']}: no response struct for api key {s['key']} v{s['name_ver']}",
                         {"kind": "reply", "request": s["name"]}, signature=f"reply:{s['name']}", no_input=True)
            continue
        fields = want["tree"]["fields"]
        flex = bool(fields) and fields[-1][1]["k"] == "TaggedFields"
        for c in corpus_reply:
            if c["req"] == s["name"]:
                reply_cases.append({"req": s["name"], "resp": want["name"], "v": c["v"], "flex": flex, "corr": 4242})
        for mode in ["one", "max", "rand", "rand"][: ck.n(3, 4)]:
            v = gen(want["tree"], rng, mode)
            reply_cases.append({"req": s["name"], "resp": want["name"], "v": v, "flex": flex, "corr": 4242})
            if flex:
                # the same reply with tagged fields in the response header (unknown to the client: skipped)
                for tags in ([[0, "78"]], [[1, "aabb"], [5, ""]], [[300, "00" * 130]]):
                    reply_cases.append({"req": s["name"], "resp": want["name"], "v": v, "flex": flex, "corr": 4242,
                                        "hdr_tags": tags})
    rep = run_impl("c11_impl.py", {"reply": reply_cases}, env=IMPL_ENV, timeout=600)["reply"]
    bad_reply = {}
    for c, r in zip(reply_cases, rep):
        ck.count(key=("reply", c["req"], vhash(c["v"]), json.dumps(c.get("hdr_tags"))), nontrivial=True)
        bad = None
        if "gen_exc" in r:
            bad = f"could not encode a {c['resp']}: {r['gen_exc']}"
        elif "exc" in r:
            bad = f"parsing a {c['resp']} reply raised {r['exc']}"
        elif r.get("corr") != 4242:
            bad = f"correlation id read as {r.get('corr')}"
        elif r.get("dec") != pynorm(structs[c["resp"]]["tree"], c["v"]) or not r.get("rest_ok"):
            bad = f"a {c['resp']} reply is parsed by {r.get('resp_type')} into a different value"
        if bad:
            bad_reply.setdefault(c["req"], []).append((len(json.dumps(c["v"])), bad, c, r))
    for req in sorted(bad_reply, key=lambda n: min(x[0] for x in bad_reply[n]))[:5]:
        _, bad, c, r = min(bad_reply[req], key=lambda x: x[0])
        ck.violation(f"{req}: {bad}", {"kind": "reply", **c, "real": r, "requests_failing": len(bad_reply)},
                     signature=f"reply:{req}")
    ck.extra["reply_cases"] = len(reply_cases)
    lap(f"replies: {len(reply_cases)} cases")

    # ---------------------------------------------------------------- requests as built vs the Kafka table
    golden_requests(ck, structs, builders, model_ok)
    lap("request content (golden) cases")

    # ---------------------------------------------------------------- long values (real classes + model summary)
    long_ok, long_detail = long_values(ck, model_ok)
    ck.obligation("correspondence:long-strings-and-bytes", long_ok, long_detail)
    lap("long values")

    # ---------------------------------------------------------------- outside the quantifier / observations
    ck.extra["outside_quantifier"] = {
        "VarInt32.encode (type used by no struct)": {
            "finding": "negative values do not round trip: decode(encode(-1)) = -2147483648 (zig-zag computed "
                       "after masking to 32 bits without sign handling)", "real": probes["varint32"]},
        "VarInt64.encode (type used by no struct)": {
            "finding": "the continuation loop emits bits of `value` instead of the zig-zagged `v`; only 0..63 round "
                       "trip: 64 -> 96, 300 -> 278, negative values wrong or struct.error",
            "real": probes["varint64"]},
        "model_agrees": "enc/dec of model/Wire.v reproduce these outputs (c11_varint32_refuted, c11_varint64_refuted)",
        "used_by_some_struct": False,
    }
    # tagged fields: tag 0 and dicts built in non-ascending order (defects fixed in /repo; regression probes)
    for sig, pr, want, what in (
            ("tagged:tag0", probes["tagged_tag0"], [[0, "78"]],
             "TaggedFields.encode({0: b'x'}) does not round trip (tag 0 is a valid Kafka tag; decode accepts it)"),
            ("tagged:unsorted", probes["tagged_unsorted"], [[1, "62"], [2, "61"]],
             "TaggedFields.encode({2: b'a', 1: b'b'}) is not decoded back to the same dict (tags must be written "
             "in ascending order)")):
        if pr.get("dec") != want:
            ck.violation(what, {"kind": "tagged", "probe": sig, "real": pr, "expected_decode": want}, signature=sig)
    ck.extra["tagged_probes"] = {k: probes[k] for k in ("tagged_tag0", "tagged_unsorted", "tagged_sorted")}
    used_var = [n for n, s in structs.items() if re.search(r'"VarInt(32|64)"', json.dumps(s["tree"]))]
    ck.extra["outside_quantifier"]["used_by_some_struct"] = bool(used_var)
    if used_var:
        ck.violation(f"{used_var[0]} uses VarInt32/VarInt64 whose encoder is wrong for ordinary values",
                     {"kind": "varint-used", "structs": used_var, "real": probes["varint32"]}, signature="varint-used")
    ck.log(f"codec cases {ncodec} (+{len(domain_cases)} domain), model evaluated {n_model}, negotiation {n_neg}, "
           f"replies {len(reply_cases)}; deviations {deviating}; uncovered {uncovered}")



# ------------------------------------------------------------------------------ expected request content
def expected_request(b, v, P):
    """Independent statement of what each builder must put on the wire for version v, in terms of
    the constructor arguments used by harness/impl/c11_impl.py:make_builder (written from the Kafka
    field semantics, in the nesting of the struct).  P = set of parameters given a non-default value."""
    tid = "tx-1" if "PTransactionalId" in P else None
    iso = 1 if "PIsolationLevel" in P else 0
    pt = 4 if "PPatternType" in P else 3
    inst = "inst-1" if "PGroupInstanceId" in P else None
    ts = 1234567 if "PTimestampSearch" in P else -1
    hx = lambda b_: b_.hex()  # noqa: E731
    if b == "ApiVersionRequest" or b == "ListGroupsRequest":
        return []
    if b == "CreateTopicsRequest":
        return [[["t", 1, 1, [], []]], 1000] + ([("PValidateOnly" in P)] if v >= 1 else [])
    if b == "DeleteTopicsRequest":
        return [["t"], 1000]
    if b == "DescribeGroupsRequest":
        return [["g"]] + ([("PAuthorizedOps" in P)] if v >= 3 else [])
    if b == "SaslHandShakeRequest":
        return ["PLAIN"]
    if b == "DescribeAclsRequest":
        return [2, "t"] + ([pt] if v >= 1 else []) + ["User:a", "*", 2, 3]
    if b in ("CreateAclsRequest", "DeleteAclsRequest"):
        return [[[2, "t"] + ([pt] if v >= 1 else []) + ["User:a", "*", 2, 3]]]
    if b == "AlterConfigsRequest":
        return [[[2, "t", [["k", "v"]]]], False]
    if b == "DescribeConfigsRequest":
        return [[[2, "t", None]]] + ([("PIncludeSynonyms" in P)] if v >= 1 else [])
    if b == "SaslAuthenticateRequest":
        return [hx(b"auth")]
    if b == "CreatePartitionsRequest":
        return [[["t", [3, [[1]]]]], 1000, False]
    if b == "DeleteGroupsRequest":
        return [["g"]]
    if b == "DescribeClientQuotasRequest":
        return [[["user", 0, "u"]], False]
    if b == "AlterPartitionReassignmentsRequest":
        return [1000, [["t", [[0, [1, 2], []]], []]], []]
    if b == "ListPartitionReassignmentsRequest":
        return [1000, [["t", [0], []]], []]
    if b == "DeleteRecordsRequest":
        if v < 2:
            return [[["t", [[0, 5]]]], 1000]
        return [[["t", [[0, 5, []]], []]], 1000, [[7, "78"]] if "PTags" in P else []]
    if b == "FindCoordinatorRequest":
        return ["g"] + ([1 if "PCoordinatorType" in P else 0] if v >= 1 else [])
    if b == "MetadataRequest":
        return [["t"]] + ([("PNoAutoTopicCreation" not in P)] if v >= 4 else [])
    if b == "ProduceRequest":
        return ([tid] if v >= 3 else []) + [1, 1000, [["t", [[0, hx(b"records")]]]]]
    if b == "FetchRequest":
        part = [0] + ([-1] if v >= 9 else []) + [7] + ([-1] if v >= 5 else []) + [100]
        return ([-1, 100, 1] + ([1000] if v >= 3 else []) + ([iso] if v >= 4 else [])
                + ([0, -1] if v >= 7 else []) + [[["t", [part]]]] + ([[]] if v >= 7 else [])
                + (["rack-a" if "PRackId" in P else ""] if v >= 11 else []))
    if b == "OffsetRequest":
        return [-1] + ([iso] if v >= 2 else []) + [[["t", [[0, ts] + ([1] if v == 0 else [])]]]]
    if b == "OffsetCommitRequest":
        return ["g", 1, "m", -1, [["t", [[0, 5, "meta"]]]]]
    if b == "OffsetFetchRequest":
        return ["g", None if "PPartitionsOmitted" in P else [["t", [0]]]]
    if b == "JoinGroupRequest":
        return (["g", 1000] + ([2000] if v >= 1 else []) + ["m"] + ([inst] if v >= 5 else [])
                + ["consumer", [["range", hx(b"md")]]])
    if b == "SyncGroupRequest":
        return ["g", 1, "m"] + ([inst] if v >= 3 else []) + [[["m", hx(b"as")]]]
    if b == "HeartbeatRequest":
        return ["g", 1, "m"]
    if b == "LeaveGroupRequest":
        return ["g", "m"]
    if b == "InitProducerIdRequest":
        return ["tx", 1000]
    if b == "AddPartitionsToTxnRequest":
        return ["tx", 1, 0, [["t", [0]]]]
    if b == "AddOffsetsToTxnRequest":
        return ["tx", 1, 0, "g"]
    if b == "EndTxnRequest":
        return ["tx", 1, 0, True]
    if b == "TxnOffsetCommitRequest":
        return ["tx", "g", 1, 0, [["t", [[0, 5, "meta"]]]]]
    return None


def golden_requests(ck, structs, builders, model_ok):
    """every builder x every version of its _CLASSES x {no parameter, each applicable parameter}:
    the header and body bytes of the request actually built must equal the Kafka-table encoding
    (model/KafkaSpec.v layout, Wire.enc) of the content the constructor arguments call for."""
    reqs, metas = [], []
    for b, info in builders.items():
        for cname, _ in info["classes"]:
            v = name_version(cname)
            ps = [p for p in PARAMS if (b, p) in MIN_VERSION]
            for combo in [[]] + [[p] for p in ps]:
                if any(p in LISTED and v < MIN_VERSION[(b, p)] for p in combo):
                    continue            # rejected by the guard (checked by the negotiation cases)
                exp = expected_request(b, v, set(combo))
                if exp is None:
                    ck.obligation("correspondence:request-content", False, f"no expected content for builder {b}")
                    return
                reqs.append({"builder": b, "ver": v, "present": combo})
                metas.append((b, cname, v, combo, exp))
    res = run_impl("c11_impl.py", {"golden": reqs}, env=IMPL_ENV, timeout=600)["golden"]
    ok, detail = True, ""
    terms = []
    usable = []
    for (b, cname, v, combo, exp), r in zip(metas, res):
        ck.count(key=("golden", b, v, tuple(combo)), nontrivial=True,
                 sample={"builder": b, "version": v, "present": combo, "header": r.get("hdr"), "body": r.get("body")}
                 if b == "FetchRequest" and v == 11 and combo else None)
        if "exc" in r or r.get("cls") != cname:
            ok = False
            detail = detail or f"{b} v{v} {combo}: built {r.get('cls', r.get('exc'))}, expected {cname}"
            ck.violation(f"{b}: advertised exactly v{v}, outcome {r.get('cls', r.get('exc'))}",
                         {"kind": "golden", "builder": b, "version": v, "present": combo, "real": r},
                         signature=f"golden:{b}:{v}")
            continue
        tr = structs[cname]["tree"]
        key = builders[b]["key"]
        try:
            body_v = coq_val(flat_tree(tr), flat_val(tr, exp))
        except Exception as e:  # noqa: BLE001
            ok = False
            detail = detail or f"{cname}: expected content does not fit the struct: {e}"
            continue
        hdr_v = f"VTup [VInt {key}; VInt {v}; VInt 77; VStr (Some {coq_hex(b'c11'.hex())})" + \
                ("; VTagged []]" if r["flex"] else "]")
        terms.append(f"(spec_request {key} {v}, {body_v}, {coq_hex(r['body'])}, "
                     f"spec_flexible {key} {v}, {hdr_v}, {coq_hex(r['hdr'])})")
        usable.append((b, cname, v, combo, exp, r))
    if model_ok and terms:
        body = ("Definition g1 (c : option ty * val * list Z * option bool * val * list Z) := let '(s, v, real, fl, hv, hreal) := c in "
                "(match s with Some st => let e := enc (TSchema (flat st)) v in (zs_eqb e real, e) | None => (true, []) end, "
                "match fl with Some f => let e := enc (spec_request_header f) hv in (zs_eqb e hreal, e) | None => (true, []) end).\n"
                "Definition cases := [\n" + ";\n".join(terms) + "].\n"
                "Eval vm_compute in (map (fun c => let r := g1 c in (fst (fst r), fst (snd r))) cases).\n")
        okc, outc = ck.coq_eval("c11_golden", IMPORTS, body, timeout=600)
        if not okc:
            ok, detail = False, "coq evaluation failed: " + outc[-400:]
        else:
            flags = parse_coq_value(parse_eval_outputs(outc)[0])
            bad = [(m, f) for m, f in zip(usable, flags) if not (f[0] and f[1])]
            reported = set()
            for (b, cname, v, combo, exp, r), (body_ok, hdr_ok) in bad:
                if name_version(cname) >= 0 and cname in KNOWN_DEVIATING_BUILT:
                    continue
                ok = False
                what = (f"{cname} built by {b}: " + ("request body" if not body_ok else "request header")
                        + " differs from the Kafka-table encoding of the expected content")
                detail = detail or what
                if (b, body_ok, hdr_ok) not in reported and len(reported) < 5:
                    reported.add((b, body_ok, hdr_ok))
                    ck.violation(what, {"kind": "golden", "builder": b, "struct": cname, "version": v, "present": combo,
                                        "expected_content": exp, "real_header": r["hdr"], "real_body": r["body"]},
                                 signature=f"golden:{b}:{v}")
    ck.obligation("correspondence:request-content-vs-kafka-table", ok, detail)
    ck.extra["golden_request_cases"] = len(reqs)


KNOWN_DEVIATING_BUILT = set()   # no struct reachable through a builder deviates from the table


def failing_lemma(out):
    """name of the lemma around the coqc error position (the build fails in one of the C11 proof files)"""
    m = re.findall(r'File "\./([^"]+)", line (\d+)', out)
    if not m:
        return "?"
    path, line = m[-1][0], int(m[-1][1])
    try:
        lines = open(os.path.join("coq", path)).read().splitlines()[:line]
    except OSError:
        return f"{path}:{line}"
    for ln in reversed(lines):
        mm = re.match(r"\s*(Lemma|Theorem|Example|Corollary|Definition)\s+([A-Za-z0-9_']+)", ln)
        if mm:
            return f"{path}:{line} ({mm.group(2)})"
    return f"{path}:{line}"


def name_version(n):
    m = re.search(r"_v(\d+)$", n)
    return int(m.group(1)) if m else -1


def long_values(ck, model_ok):
    """maximum-length strings / bytes: real round trip; the model on the same lengths (summary only)"""
    cases = [("String", 32767), ("CompactString", 16383), ("CompactString", 16384), ("Bytes", 70000)]
    if ck.thorough:
        cases.append(("CompactBytes", 2097151))
    req = []
    for k, n in cases:
        v = ("z" * n) if "String" in k else ("7a" * n)
        req.append({"s": "prim:" + k, "v": v})
    req.append({"s": "prim:String", "v": "z" * 32768})      # one byte too long for an int16 length
    res = run_impl("c11_impl.py", {"codec": req}, env=IMPL_ENV, timeout=300)["codec"]
    detail = ""
    ok = True
    for (k, n), c, r in zip(cases, req, res):
        ck.count(key=("long", k, n), nontrivial=True)
        if r.get("dec") != c["v"] or not r.get("rest_ok"):
            ok = False
            detail = detail or f"{k} of {n} bytes does not round trip on the real class"
            ck.violation(f"{k}: a value of {n} bytes does not round trip", {"kind": "long", "type": k, "length": n},
                         signature=f"roundtrip:prim:{k}")
    if "exc" not in res[-1]:
        ok = False
        detail = detail or "String of 32768 bytes was encoded (int16 length overflow not rejected)"
    if model_ok:
        body = ""
        for k, n in cases:
            t = COQ_PRIM[k]
            v = f"(V{'Str' if 'String' in k else 'Bytes'} (Some (repeat 122 {n}%nat)))"
            body += (f"Eval vm_compute in (let e := enc {t} {v} in (wt {t} {v}, blen e, firstn 5 e, "
                     f"match dec {t} (e ++ [165; 90]) with Some (V{'Str' if 'String' in k else 'Bytes'} (Some l), r) => "
                     f"(blen l, forallb (Z.eqb 122) l, r) | _ => (-1, false, []) end)).\n")
        body += "Eval vm_compute in (wt TString (VStr (Some (repeat 122 32768%nat)))).\n"
        okc, outc = ck.coq_eval("c11_long", ["Wire"], body, timeout=600)
        if not okc:
            return False, "coq evaluation of long values failed: " + outc[-300:]
        vals = [parse_coq_value(v) for v in parse_eval_outputs(outc)]
        for (k, n), r, m in zip(cases, res, vals):
            real = bytes.fromhex(r["enc"])
            want = (True, len(real), list(real[:5]), (n, True, TRAILER))
            if m != want:
                ok = False
                detail = detail or f"{k} x {n}: model summary {m} real {want}"
        if vals[-1] is not False:
            ok = False
            detail = detail or "model accepts a 32768-byte String"
        ck.count(n=len(cases), nontrivial=False)
    return ok, detail


def replay(ck: Check, path):
    """bin/check C11 --replay FILE: run the recorded input again on the current tree."""
    with open(path) as f:
        rp = json.load(f)["replay"]
    kind = rp.get("kind")
    if kind in ("roundtrip", "layout") and "value" in rp:
        out = run_impl("c11_impl.py", {"describe": 1, "codec": [{"s": rp["struct"], "v": rp["value"]}]}, env=IMPL_ENV)
        r = out["codec"][0]
        trees = {s["name"]: s["tree"] for s in out["describe"]["structs"]}
        trees.update({"prim:" + p["name"]: p["tree"] for p in out["describe"]["prims"]})
        print(json.dumps({"struct": rp["struct"], "value": rp["value"], "now": r}, indent=1))
        if kind == "roundtrip" and (r.get("dec") != pynorm(trees[rp["struct"]], rp["value"]) or not r.get("rest_ok")):
            ck.violation(f"{rp['struct']}: round trip still fails", rp, signature=f"roundtrip:{rp['struct']}")
        if kind == "layout" and r.get("enc") != rp.get("kafka_table_bytes"):
            ck.violation(f"{rp['struct']}: bytes still differ from the Kafka table", rp, signature=f"layout:{rp['struct']}")
    elif kind == "negotiate":
        out = run_impl("c11_impl.py", {"negotiate": [{"builder": rp["builder"], "combos": [rp["present"]]}],
                                       "maxv": 13}, env=IMPL_ENV)["negotiate"][rp["builder"]]
        advs = [None] + [(lo, hi) for lo in range(14) for hi in range(lo, 14)]
        adv = None if rp["advertised"] is None else tuple(rp["advertised"])
        now = out[advs.index(adv)][0]
        print(json.dumps({"builder": rp["builder"], "advertised": adv, "present": rp["present"], "recorded": rp["outcome"],
                          "now": now}, indent=1))
        if now == rp["outcome"]:
            ck.violation(f"{rp['builder']}: same outcome as recorded", rp,
                         signature=f"negotiate:{rp['builder']}:{adv}:{'+'.join(rp['present'])}")
    elif kind == "reply":
        c = {k: rp[k] for k in ("req", "resp", "v", "flex", "corr")}
        r = run_impl("c11_impl.py", {"reply": [c]}, env=IMPL_ENV)["reply"][0]
        print(json.dumps({"case": c, "now": r}, indent=1)[:3000])
        if r.get("dec") != json.loads(json.dumps(c["v"])) or not r.get("rest_ok"):
            ck.violation(f"{c['req']}: reply still parsed into a different value", rp, signature=f"reply:{c['req']}")
    elif kind == "golden":
        r = run_impl("c11_impl.py", {"golden": [{"builder": rp["builder"], "ver": rp["version"],
                                                  "present": rp["present"]}]}, env=IMPL_ENV)["golden"][0]
        print(json.dumps({"recorded": rp, "now": r}, indent=1)[:3000])
        if r.get("body") == rp.get("real_body") and r.get("hdr") == rp.get("real_header"):
            ck.violation(f"{rp['builder']}: same request bytes as recorded", rp,
                         signature=f"golden:{rp['builder']}:{rp['version']}")
    elif kind == "synthetic":
        r = run_impl("c11_impl.py", {"synthetic": [[rp["versions"], False]], "maxv": 13}, env=IMPL_ENV)["synthetic"][0]
        advs = [None] + [(lo, hi) for lo in range(14) for hi in range(lo, 14)]
        now = r[advs.index(tuple(rp["advertised"]))]
        print(json.dumps({"recorded": rp, "now": now}))
        if now == rp["outcome"]:
            ck.violation("Request.prepare: same outcome as recorded", rp,
                         signature=f"prepare:{rp['versions']}:{tuple(rp['advertised'])}")
    else:
        print(json.dumps(rp, indent=1)[:3000])
        print("this replay names a broken obligation / probe; run `bin/check C11` to re-evaluate it")
    # verdict of the replay alone (evidence/C11.json of the last full run is left untouched)
    from common import load_known_findings, match_known
    kf = load_known_findings()
    rc = 0
    for v in ck.violations:
        m = match_known(kf, "C11", v.signature)
        if m:
            print(f"KNOWN-FINDING: property=C11 {m['what']}")
        else:
            print(f"VIOLATION property=C11 replay={path}")
            rc = 1
    if not ck.violations:
        print("replay: the recorded failure does not reproduce on the current tree")
    return rc
