"""C05 — within a generation partitions have one owner; revoked partitions go silent."""
import random

import conssim
from common import Check, parse_coq_value, parse_eval_outputs


def member_clients(trace):
    """member id -> consumer name, from the coordinator's id assignments / join requests."""
    mp = {}
    for e in trace:
        if e["ev"] == "member_id_assigned":
            mp[e["member"]] = e["client"]
        elif e["ev"] == "join_request" and e.get("member"):
            mp.setdefault(e["member"], e.get("client"))
    return mp


def project(sc, r):
    """Boundary trace of one run as Group.ev constructors (strings)."""
    names = [c["name"] for c in sc["consumers"]]
    cidx = {n: i for i, n in enumerate(names)}
    tps = sorted((t, p) for t, parts in r["logs"].items() for p in range(len(parts)))
    # partitions added later may not be in logs at start: collect from history too
    extra = set()
    for g in r["groups"].values():
        for h in g["history"]:
            for a in (h["assignments"] or {}).values():
                for t, p in a:
                    extra.add((t, p))
    for e in r["trace"]:
        if e["ev"] == "deliver":
            extra.add((e["topic"], e["p"]))
        if e["ev"] in ("cb_assigned_begin",):
            for t, p in e["tps"]:
                extra.add((t, p))
    tps = sorted(set(tps) | extra)
    tpid = {tp: i for i, tp in enumerate(tps)}
    mc = member_clients(r["trace"])
    hist = {h["generation"]: h for h in r["groups"].get("g", {}).get("history", [])}
    # A lost JoinGroup reply on brokers without MEMBER_ID_REQUIRED leaves a ghost member id of the
    # same client in the group until its session expires.  The model is per client: of several
    # member ids of one client in a generation, the one the client actually holds is used.
    held = {(e["gen"], e["c"]): e["member"] for e in r["trace"] if e["ev"] == "cb_assigned_begin"}

    def pick(gen, members):
        byc = {}
        for m in members:
            c = mc.get(m)
            if c not in cidx:
                continue
            if c not in byc or held.get((gen, c)) == m:
                byc[c] = m
        return byc
    out = []
    for e in r["trace"]:
        k = e["ev"]
        if k == "cb_revoked_begin":
            out.append(f"RevokeBegin {cidx[e['c']]}")
        elif k == "cb_revoked_end":
            out.append(f"RevokeEnd {cidx[e['c']]}")
        elif k == "request" and e["api"] == "JoinGroup":
            if e.get("client") in cidx:
                out.append(f"JoinSent {cidx[e['client']]}")
        elif k == "join_complete":
            ms = [cidx[c] for c in pick(e["generation"], e["members"])]
            out.append(f"JoinComplete {e['generation']} [{'; '.join(map(str, ms))}]")
        elif k == "sync_complete":
            h = hist.get(e["generation"])
            if h and h["assignments"] is not None:
                d = []
                chosen = pick(e["generation"], sorted(h["assignments"]))
                for c, m in sorted(chosen.items()):
                    a = h["assignments"][m]
                    d.append(f"({cidx[c]}, [{'; '.join(str(tpid[(t, p)]) for t, p in sorted(map(tuple, a)))}])")
                out.append(f"SyncComplete {e['generation']} [{'; '.join(d)}]")
        elif k == "cb_assigned_begin":
            a = "; ".join(str(tpid[(t, p)]) for t, p in sorted(map(tuple, e["tps"])))
            out.append(f"AssignBegin {cidx[e['c']]} {e['gen']} [{a}]")
        elif k == "cb_assigned_end":
            out.append(f"AssignEnd {cidx[e['c']]}")
        elif k == "deliver":
            out.append(f"Deliver {cidx[e['c']]} {tpid[(e['topic'], e['p'])]}")
        elif k == "kill" or (k == "stop_ret"):
            out.append(f"Gone {cidx[e['c']]}")
    return out


def monitor(ck, sc, r):
    bad = 0

    def viol(what, extra=None):
        nonlocal bad
        bad += 1
        rp = {"scenario": sc, "what": what}
        rp.update(extra or {})
        ck.violation(f"{what} (scenario {sc['id']})", rp, signature=f"sim:{what[:70]}")
    subs = {c["name"]: set(c["topics"]) for c in sc["consumers"]}
    mc = member_clients(r["trace"])
    g = r["groups"].get("g")
    if not g:
        return 0
    hist = {h["generation"]: h for h in g["history"]}
    for gen, h in hist.items():
        if h["assignments"] is None:
            continue
        seen = {}
        for m, a in h["assignments"].items():
            for t, p in a:
                if (t, p) in seen:
                    viol("one generation distributes a partition to two members", {"generation": gen, "tp": [t, p]})
                seen[(t, p)] = m
                c = mc.get(m)
                if c in subs and t not in subs[c]:
                    # the subscription may have changed during the run
                    if not any(op[0] == "subscribe" for cc in sc["consumers"] if cc["name"] == c for op in cc["program"]):
                        viol("a member is assigned a partition of a topic it did not subscribe to",
                             {"generation": gen, "member": c, "tp": [t, p]})
    # adopted == distributed; assignment() == adopted
    client_member = {}
    for e in r["trace"]:
        if e["ev"] == "cb_assigned_begin":
            h = hist.get(e["gen"])
            if h is None or h["assignments"] is None:
                viol("on_partitions_assigned for a generation that was never synced", {"event": e})
                continue
            dist = sorted(map(tuple, h["assignments"].get(e["member"], [])))
            if sorted(map(tuple, e["tps"])) != dist:
                viol("a member adopted an assignment different from the one distributed to it",
                     {"event": e, "distributed": dist})
        if e["ev"] == "cb_assigned_end" and e.get("assignment") is not None:
            h = hist.get(e["gen"])
            if h and h["assignments"] is not None:
                dist = sorted(map(tuple, h["assignments"].get(e["member"], [])))
                if sorted(map(tuple, e["assignment"])) != dist:
                    viol("assignment() differs from what the member was sent", {"event": e, "distributed": dist})
    # barrier: for each generation, every member's last revoke end precedes every assigned begin
    last_rev_end = {}
    rev_at_join = {}
    for e in r["trace"]:
        if e["ev"] == "cb_revoked_end":
            last_rev_end[e["c"]] = e["t"]
        elif e["ev"] == "join_complete":
            rev_at_join[e["generation"]] = {mc.get(m): last_rev_end.get(mc.get(m)) for m in e["members"]}
            revoking = set()
        elif e["ev"] == "cb_assigned_begin":
            ra = rev_at_join.get(e["gen"], {})
            for c, t in ra.items():
                if t is None:
                    viol("a member joined a generation without finishing on_partitions_revoked",
                         {"generation": e["gen"], "member": c})
    # a revoke callback that began after the JoinGroup barrier of generation G completed belongs to the next
    # rebalance (a member may already revoke for G+1 while another member's SyncGroup reply for G is late)
    open_rev = {}
    t_join = {}
    for e in r["trace"]:
        if e["ev"] == "cb_revoked_begin":
            open_rev[e["c"]] = e["t"]
        elif e["ev"] == "cb_revoked_end":
            open_rev.pop(e["c"], None)
        elif e["ev"] == "join_complete":
            t_join[e["generation"]] = e["t"]
        elif e["ev"] == "cb_assigned_begin":
            h = hist.get(e["gen"])
            members = [mc.get(m) for m in (h["members"] if h else [])]
            for c in members:
                if c in open_rev and open_rev[c] < t_join.get(e["gen"], float("inf")):
                    viol("on_partitions_assigned started while another member of the generation was still "
                         "inside on_partitions_revoked", {"generation": e["gen"], "revoking": c, "assigned": e["c"]})
    # silence
    window = {}
    owned = {}
    for e in r["trace"]:
        if e["ev"] == "cb_revoked_begin":
            window[e["c"]] = True
        elif e["ev"] == "cb_assigned_begin":
            owned[e["c"]] = set(map(tuple, e["tps"]))
            window[e["c"]] = False       # the assignment is adopted before the callback is invoked
        elif e["ev"] == "deliver":
            if window.get(e["c"], True):
                viol("a record was returned between on_partitions_revoked and the next on_partitions_assigned",
                     {"event": e})
            elif (e["topic"], e["p"]) not in owned.get(e["c"], set()):
                viol("a record of a partition outside the adopted assignment was returned", {"event": e})
    # a member that left the group on its own (the client sent LeaveGroup, e.g. after max_poll_interval_ms without a poll)
    # holds a superseded assignment: once another member has been assigned one of its partitions it hands out no more
    # records of it (0.3 s of grace: the LeaveGroup reply may still be on its way when the application polls)
    left, adopted, taken = {}, {}, {}
    for e in r["trace"]:
        ev = e["ev"]
        if ev == "leave_request":
            c = mc.get(e.get("member"))
            if c is not None:
                left[c] = e["t"]
        elif ev == "cb_revoked_begin":
            adopted.pop(e["c"], None)
            left.pop(e["c"], None)
            taken.pop(e["c"], None)
        elif ev == "cb_assigned_begin":
            new = set(map(tuple, e["tps"]))
            adopted[e["c"]] = new
            left.pop(e["c"], None)
            taken.pop(e["c"], None)
            for other, tps in adopted.items():
                if other != e["c"] and other in left:
                    for tp in tps & new:
                        taken.setdefault(other, {}).setdefault(tp, e["t"])
        elif ev == "deliver":
            t_taken = taken.get(e["c"], {}).get((e["topic"], e["p"]))
            if t_taken is not None and e["t"] > t_taken + 0.3:
                viol("a member that had left the group handed out a record of a partition another member had been "
                     "assigned meanwhile (data of a superseded assignment; no on_partitions_revoked since)",
                     {"event": e, "other_member_assigned_at": t_taken})
                break
    return bad


def gate_error_scenarios(base_id):
    """A member blocked in getone() (as `async for` is) with prefetched records buffered while a rebalance begins, and
    the coordinator answers its JoinGroup / SyncGroup of that rebalance with an error that is raised to the
    application (not retried): the blocked call must raise or keep waiting - never return a buffered record of the
    partitions it has just revoked."""
    out = []
    k = base_id
    for api, nths in (("JoinGroup", (3, 4)), ("SyncGroup", (2,))):
        for nth in nths:
            for code in (30, 23):
                for t1 in (0.4, 0.9):
                    cons = []
                    for i, (delay, life) in enumerate(((0, 7.0), (t1, 6.0))):
                        cons.append({"name": f"c{i}", "group": "g", "topics": ["t0"], "assignors": ["range"],
                                     "auto_commit": True, "auto_commit_interval_ms": 300, "cb_delay": 0.01,
                                     "consume_api": "getone" if i == 0 else "getmany", "listener_kind": "async",
                                     "program": [["sleep", delay], ["start"], ["consume", life, 0.5, None, 0.1 if i == 0 else 0],
                                                 ["stop"]]})
                    out.append({"id": k, "seed": k, "brokers": 1, "topics": {"t0": 2},
                                "preload": {"t0": {"0": 12, "1": 12}}, "consumers": cons, "cluster_events": [],
                                "faults": {"apis": conssim.GROUP_APIS, "plan": {}},
                                "api_faults": [{"client": "c0", "api": api, "nth": nth, "kind": "error", "code": code}],
                                # slow JoinGroup / SyncGroup round trips: the revoke window is wide enough for the
                                # application's next getone() to park on the rebalance gate before the reply arrives
                                "api_latency": {"JoinGroup": 0.25, "SyncGroup": 0.2},
                                "coordinator": 0, "max_vtime": 600.0, "family": "blocked-getone-coordinator-error"})
                    k += 1
    return out


def run(ck: Check):
    ck.trusted += [
        "Coq 8.16.1 kernel; vm_compute for trace replay and Examples",
        "model/Group.v is hand-written; tied to the code by acceptance of boundary traces of real consumer groups",
        "simulated group coordinator (harness/simkit/groupcoord.py, Kafka classic-protocol semantics) as oracle",
        "listener callbacks, JoinGroup requests and deliveries observed from outside (no source hooks)",
        "disjointness of what the leader distributes is C14's theorem; here it is a hypothesis checked per run",
    ]
    ck.cov["rule"] = ("groups of 1-4 real consumers, equal or different subscriptions, each assignor set, members "
                      "starting/stopping/killed at random times, records appended during the run, coordinator "
                      "failover, faults on group requests; one evaluation = one run (its whole boundary trace); "
                      "non-trivial = at least two generations; distinct by trace")
    ok_p, _ = ck.coq_props("C05")
    rng = random.Random(ck.seed * 31337 + 5)
    n = ck.n(48, 800)
    scs = [conssim.gen_scenario(rng, i) for i in range(n)]
    scs += gate_error_scenarios(500000)
    # pattern subscription: a matching topic is created at run time, the members revoke and re-join on their own
    for j, at in enumerate([0.6, 1.45, 1.6, 2.4]):
        cons = [{"name": f"c{i}", "group": "g", "topics": ["t0", "t1"], "pattern": "^t[01]$", "assignors": [["range"], ["sticky"]][j % 2],
                 "auto_commit": True, "auto_commit_interval_ms": 300, "cb_delay": [0.01, 0.2][j % 2], "metadata_max_age_ms": 300,
                 "listener_kind": "async",
                 "program": [["sleep", [0.0, 1.5][i]], ["start"], ["consume", 8.0, 0.1, None, 0], ["stop"]]} for i in range(2)]
        scs.append({"id": 600000 + j, "seed": 600 + j, "brokers": 1, "topics": {"t0": 4},
                    "preload": {"t0": {"0": 3, "1": 3, "2": 0, "3": 0}}, "consumers": cons,
                    "cluster_events": [{"at": at, "op": "create_topic", "topic": "t1", "n": 3},
                                       {"at": at + 1.0, "op": "append", "topic": "t1", "p": 1, "n": 3}],
                    "faults": {"apis": conssim.GROUP_APIS, "plan": {}}, "coordinator": 0, "max_vtime": 600.0,
                    "family": "pattern-new-topic"})
    # a subscribed topic grows; only the leader (short metadata age) sees the new partition count before the rebalance
    # it triggers, and the assignor hands the new partition to a follower whose metadata does not list it yet
    for j, at in enumerate([1.0, 1.45, 2.0, 2.6]):
        for asg in (["range"], ["roundrobin"]):
            cons = [{"name": f"c{i}", "group": "g", "topics": ["t0"], "assignors": asg, "auto_commit": True,
                     "auto_commit_interval_ms": 300, "cb_delay": 0.01, "metadata_max_age_ms": [100, 60000, 60000][i],
                     "listener_kind": "async",
                     "program": [["sleep", [0.0, 0.4, 0.5][i]], ["start"], ["consume", 9.0, 0.1, None, 0], ["stop"]]}
                    for i in range(3 if j % 2 else 2)]
            scs.append({"id": 650000 + 2 * j + (asg[0] == "range"), "seed": 650 + j, "brokers": 1, "topics": {"t0": 4},
                        "preload": {"t0": {"0": 3, "1": 3, "2": 0, "3": 0}}, "consumers": cons,
                        "cluster_events": [{"at": at, "op": "add_partitions", "topic": "t0", "n": [1, 2][j % 2]},
                                           {"at": at + 2.0, "op": "append", "topic": "t0", "p": 4, "n": 3}],
                        "faults": {"apis": conssim.GROUP_APIS, "plan": {}}, "coordinator": 0, "max_vtime": 600.0,
                        "family": "topic-grows-leader-sees-first"})
    # an application that stops polling for longer than max_poll_interval_ms (its client leaves the group for it), with
    # prefetched records buffered, and polls again later
    for j, idle in enumerate([1.5, 2.5, 4.0]):
        for asg in (["range"], ["roundrobin"]):
            cons = [{"name": "c0", "group": "g", "topics": ["t0"], "assignors": asg, "auto_commit": bool(j % 2),
                     "auto_commit_interval_ms": 300, "cb_delay": 0.01, "max_poll_interval_ms": 700,
                     "heartbeat_interval_ms": 200, "listener_kind": "async",
                     "program": [["sleep", 0.0], ["start"], ["consume", 1.0, 0.1, 2, 0.05], ["sleep", idle],
                                 ["consume", 4.0, 0.1, 2, 0.01], ["stop"]]},
                    {"name": "c1", "group": "g", "topics": ["t0"], "assignors": asg, "auto_commit": True,
                     "auto_commit_interval_ms": 300, "cb_delay": 0.01, "listener_kind": "async",
                     "program": [["sleep", 0.3], ["start"], ["consume", idle + 6.0, 0.1, None, 0], ["stop"]]}]
            scs.append({"id": 660000 + 2 * j + (asg[0] == "range"), "seed": 660 + j, "brokers": 1, "topics": {"t0": 2},
                        "preload": {"t0": {"0": 60, "1": 60}}, "consumers": cons, "cluster_events": [],
                        "faults": {"apis": conssim.GROUP_APIS, "plan": {}}, "coordinator": 0, "max_vtime": 600.0,
                        "family": "idle-member-leaves"})
    rng_old = random.Random(ck.seed * 7121 + 505)
    scs += [conssim.old_broker(conssim.gen_scenario(rng_old, 700000 + i), rng_old) for i in range(ck.n(18, 200))]
    results = conssim.run_scenarios(scs, timeout=ck.n(900, 3000))
    traces = []
    nbad = 0
    hist = {"generations": {}, "failed_runs": 0, "kills": 0, "members": {}}
    for sc, r in zip(scs, results):
        if not r.get("ok"):
            hist["failed_runs"] += 1
            ck.obligation(f"correspondence:simulation-ran:{sc['id']}", False, (r.get("error", "") + r.get("tb", ""))[-400:])
            continue
        nbad += monitor(ck, sc, r)
        tr = project(sc, r)
        ngen = len(r["groups"].get("g", {}).get("history", []))
        hist["generations"][str(ngen)] = hist["generations"].get(str(ngen), 0) + 1
        hist["members"][str(len(sc["consumers"]))] = hist["members"].get(str(len(sc["consumers"])), 0) + 1
        hist["kills"] += sum(1 for c in r["consumers"].values() if c["killed"])
        traces.append((sc, tr))
        ck.count(key=tuple(tr), nontrivial=ngen >= 2,
                 sample={"scenario": sc["id"], "members": len(sc["consumers"]), "generations": ngen,
                         "trace": tr[:60]} if ngen >= 3 else None)
    ck.extra["input_distribution"] = hist
    ck.log(f"simulated {len(scs)} group scenarios; monitor violations {nbad}; {hist}")
    per = 40
    bodies = []
    for i in range(0, len(traces), per):
        bodies.append("Local Open Scope nat_scope.\n" + "\n".join(
            f"Eval vm_compute in (replay [{'; '.join(t[1])}])." for t in traces[i:i + per]) + "\n")
    res = ck.coq_eval_sharded("c05_traces", ["Group"], bodies)
    rejected = fail = 0
    for ci, (okc, out) in enumerate(res):
        chunk = traces[ci * per:(ci + 1) * per]
        vals = [parse_coq_value(v) for v in parse_eval_outputs(out)] if okc else []
        if len(vals) != len(chunk):
            fail += 1
            continue
        for (sc, tr), v in zip(chunk, vals):
            if v != 0:
                rejected += 1
                if rejected <= 4:
                    ck.obligation(f"correspondence:trace-accepted:scenario{sc['id']}", False,
                                  f"model rejects event #{v - 1}: {tr[v - 1] if v - 1 < len(tr) else None}; "
                                  f"context {tr[max(0, v - 6):v + 1]}")
                    ck.violation(f"the real consumer group did something the group model (whose guards are the "
                                 f"property's clauses) does not allow: scenario {sc['id']}, event #{v - 1} "
                                 f"{tr[v - 1] if v - 1 < len(tr) else None} after {tr[max(0, v - 6):v - 1]}",
                                 {"scenario": sc, "rejected_event_index": v - 1, "context": tr[max(0, v - 8):v + 1]},
                                 signature=f"trace-rejected:{str(tr[v - 1] if v - 1 < len(tr) else '').split(' ')[0]}")
    ck.obligation("correspondence:all-group-traces-accepted-by-model", rejected == 0 and fail == 0,
                  f"{rejected} rejected, {fail} case files failed")
    ck.cov["traces_validated_against_impl"] = len(traces) - rejected
