"""C16/C07: the transactional handlers' error dispatch.  The chains gen/Txn*Dispatch.v are regenerated from
sender.py by translator/dispatch2gallina.py; here they are (1) evaluated inside Coq for every code -1..100 and
compared, as classes (success / retry after backoff / abortable / fatal / ignored) and as coordinator
rediscovery, with the REAL handlers run on a recording stub; (2) the property's classification clauses are
stated on the real handlers: retriable coordinator conditions are retried, authorization failures of topics and
groups are abortable, fencing and transactional-id authorization are fatal."""
from common import parse_coq_value, parse_eval_outputs, run_impl

UNITS = ["TxnInitPidDispatch", "TxnAddPartitionsDispatch", "TxnAddOffsetsDispatch", "TxnOffsetCommitDispatch",
         "TxnEndDispatch"]
HANDLERS = {   # name -> (coq application, retriable codes, abortable codes, fatal codes)
    "init": ("txnInitPidDispatch c", [14, 15, 16, 51], [], [53]),
    "add_partitions": ("txnAddPartitionsDispatch c false", [14, 15, 16, 51, 3], [29], [47, 53]),
    "add_offsets": ("txnAddOffsetsDispatch c", [14, 15, 16, 51], [30], [47, 53]),
    "offset_commit": ("txnOffsetCommitDispatch c", [14, 15, 16, 3, 7], [30], [47, 53]),
    "end": ("txnEndDispatch c", [14, 15, 16, 51], [], [47, 53]),
}


def regenerate(ck):
    ck.regenerate(UNITS)


def check_txn_dispatch(ck):
    codes = list(range(-1, 101))
    cases = [{"h": h, "code": c} for h in HANDLERS for c in codes]
    impl = run_impl("c16_dispatch_impl.py", {"cases": cases}, timeout=300)["out"]
    zl = "; ".join(f"({c})" if c < 0 else str(c) for c in codes)
    body = "\n".join(f"Eval vm_compute in (map (fun c => (classify ({app}), has ACoordinatorDead ({app}))) [{zl}])."
                     for (app, _r, _a, _f) in HANDLERS.values()) + "\n"
    okc, out = ck.coq_eval("c16_dispatch", ["DispatchActs"] + UNITS + ["C16_dispatch"], body)
    vals = [parse_coq_value(v) for v in parse_eval_outputs(out)] if okc else []
    if len(vals) != len(HANDLERS):
        ck.obligation("correspondence:txn-dispatch-evaluated-in-coq", False, out[-400:])
        return

    def flat(x):
        if isinstance(x, (list, tuple)) and len(x) == 2 and x[0] == "ctor":
            return flat(x[1])
        return x if isinstance(x, str) else str(x)
    by = {(r["h"], r["code"]): r for r in impl}
    mism = 0
    for (h, (_app, retri, abort, fatal)), col in zip(HANDLERS.items(), vals):
        for c, (mcls, mdead) in zip(codes, col):
            r = by[(h, c)]
            mcls = flat(mcls)
            ck.count(key=("txn-dispatch", h, c), nontrivial=c in retri + abort + fatal)
            if mcls != r["class"] or bool(mdead) != r["dead"]:
                mism += 1
                if mism <= 3:
                    ck.obligation(f"correspondence:txn-dispatch:{h}:{c}", False,
                                  f"model {mcls} dead={mdead} vs real {r}")
            want = "TRetry" if c in retri else "TAbortable" if c in abort else "TFatal" if c in fatal else None
            if want and r["class"] != want:
                ck.violation(f"{h} handler: error code {c} is treated as {r['class'][1:].lower()} but the protocol class "
                             f"is {want[1:].lower()} (handler returned {r['ret']!r}, raised {r['exc']}, did {r['acts']})",
                             {"handler": h, "code": c, "observed": r}, signature=f"txn-dispatch-class:{h}:{c}")
    ck.obligation("correspondence:txn-dispatch-chains-model-vs-real-handlers", mism == 0, f"{mism} differ of {len(cases)}")
    ck.trusted.append("translator/dispatch2gallina.py for the five transactional response handlers of sender.py "
                      "(validated per run against the real handlers, codes -1..100); the per-request error classes "
                      "(proof/C16_dispatch.v, harness/c16_dispatch.py) are written by hand from the Kafka protocol")
