"""C07 — Transactions are atomic and follow the transactional protocol order.

(1) proofs over model/C07_Txn.v (client: TransactionManager + the sender's transactional slot with
    its priority, muting, flush_for_commit; environment: coordinator, logs with markers,
    transactional group offsets; reader rc_view);
(2) correspondence: the REAL AIOKafkaProducer(transactional_id=...) under the deterministic
    simulator — transactions with concurrent send tasks and send_offsets_to_transaction, faults at
    every transactional request, coordinator moves, kills and replacement instances; the recorded
    boundary trace must be ACCEPTED by the model (replayed inside Coq by vm_compute) and the
    model's logs, coordinator state, read-committed views and transaction outcomes must equal the
    simulator's ground truth;
(3) independent monitors in plain Python on the ground truth: atomicity with an independent
    read-committed reference reader, the client obligations as seen by the coordinator / leaders,
    fencing, and "ends as requested once the faults cease"."""
from __future__ import annotations

import concurrent.futures as cf
import json
import os
import random
import time

from common import NPROC, VERIF, Check, parse_coq_value, parse_eval_outputs, run_impl

GROUPP = 99
TXN_APIS = ("InitProducerId", "AddPartitionsToTxn", "AddOffsetsToTxn", "TxnOffsetCommit", "EndTxn", "Produce",
            "FindCoordinator")

SIG_NO_ENDTXN = ("transaction_manager.py:error_transaction clears _txn_partitions/_txn_consumer_group: "
                 "abort_transaction() after an abortable error sends no EndTxn(abort); the coordinator's "
                 "transaction stays open and the next commit publishes the aborted records")
SIG_UNREGISTERED = ("transaction_manager.py:error_transaction clears _pending_txn_partitions: the muted batch is "
                    "produced to a partition that was never added to the transaction")
SIG_FINDCOORD = ("sender.py:_find_coordinator: a connection lost during FindCoordinator (KafkaConnectionError) is "
                 "re-raised as KafkaError, escapes the transactional task and kills the sender: FATAL_ERROR after a "
                 "retriable fault")
SIG_BATCH_LOST = ("sender.py:SendProduceReqHandler.handle_response: a batch that failed non-retriably does not "
                  "fail the transaction; commit_transaction() succeeds without its records")


OB_NAMES = {1: "add_before_produce", 2: "end_after_acks (a batch of the transaction failed)",
            3: "no_write_outside_txn", 4: "end_reaches_coordinator"}

# =========================================================================== scenario generation
def mk_txn(rng, partitions, end=None, heavy=False):
    ntasks = rng.choice([1, 1, 2, 3])
    tasks = []
    for _ in range(ntasks):
        items = []
        for _ in range(rng.randrange(1, 4)):
            items.append({"p": rng.randrange(partitions), "sleep": rng.choice([0, 0, 0.001, 0.004, 0.02]),
                          "n": rng.choice([1, 1, 2])})
        tasks.append(items)
    if rng.random() < 0.15:
        tasks = [[]]          # a transaction without records
    off = None
    if rng.random() < 0.55:
        off = {"at": rng.choice(["before", "after", "concurrent"]), "items": None}
    return {"tasks": tasks, "offsets": off, "await_sends": rng.random() < 0.4,
            "end": end or rng.choice(["commit", "commit", "abort"]), "pause": rng.choice([0, 0, 0.01, 0.1])}


def mk_parked_txn(rng, partitions, end, end_after, per_batch=1, ntasks=None, offsets=None):
    """Concurrent send tasks with records so large that a batch holds `per_batch` of them: all but the first
    send() calls to a partition park in MessageAccumulator.add_message (wait_drain) while the batch in front of
    them is queued behind the one in flight; the application ends the transaction `end_after` seconds after
    begin_transaction() without waiting for them."""
    ntasks = ntasks or rng.choice([3, 4, 5, 6])
    hot = rng.randrange(partitions)
    tasks = []
    for j in range(ntasks):
        items = []
        for _ in range(rng.choice([1, 1, 2])):
            q = hot if rng.random() < 0.8 else rng.randrange(partitions)
            items.append({"p": q, "sleep": rng.choice([0, 0, 0, 0.001, 0.003]), "n": rng.choice([1, 1, 2]),
                          "size": PARKED_RECORD})
        tasks.append(items)
    return {"tasks": tasks, "offsets": offsets, "await_sends": False, "end": end, "pause": rng.choice([0, 0.01]),
            "end_after": end_after}


PARKED_RECORD = 120            # bytes of padding per record
PARKED_BATCH = {1: 200, 2: 340}  # max_batch_size holding one / two such records


def gen_parked_scenario(rng, sid, end_after, end=None, per_batch=None):
    partitions = rng.choice([1, 1, 2])
    brokers = rng.choice([1, 2])
    per_batch = per_batch or rng.choice([1, 1, 2])
    end = end or rng.choice(["commit", "abort"])
    off = {"at": "before", "items": None} if rng.random() < 0.25 else None
    first = mk_parked_txn(rng, partitions, end, end_after, per_batch, offsets=off)
    # the next transaction on the same partitions ends the other way: a record that slipped out of the first
    # one is then committed although aborted, or aborted although acknowledged in a committed transaction
    second = {"tasks": [[{"p": q, "sleep": 0, "n": 1, "size": PARKED_RECORD}] for q in range(partitions)],
              "offsets": None, "await_sends": True, "end": "abort" if end == "commit" else "commit", "pause": 0}
    sc = {"id": sid, "seed": rng.randrange(1 << 30), "brokers": brokers, "partitions": partitions,
          "marker_delay": rng.choice([0.0, 0.0, 0.03]), "linger_ms": rng.choice([0, 0, 2]),
          "max_batch_size": PARKED_BATCH[per_batch], "request_timeout_ms": 2000, "retry_backoff_ms": 20,
          "txn_coord": rng.randrange(brokers), "group_coord": rng.randrange(brokers),
          "instances": [{"start_at": 0.0, "txns": [first, second]}],
          "faults": {}, "moves": {}, "loading": {}, "kills": [], "quiet": 8.0, "family": "parked-sends"}
    number_offsets(sc)
    return sc


def gen_batch_api_scenario(rng, sid, cancel_after, end, fault=None):
    """The batch API inside a transaction: create_batch() + send_batch(); the application gives up on the returned
    future (cancels it, as a wait_for() that times out does) while the Produce request is delayed or being
    retried, then ends the transaction; the next transaction on the partition ends the other way."""
    partitions = rng.choice([1, 2])
    brokers = rng.choice([1, 2])
    items = [{"p": 0, "sleep": 0, "n": rng.choice([1, 2, 3]), "batch": True, "cancel_after": cancel_after}]
    if rng.random() < 0.5:
        items.append({"p": rng.randrange(partitions), "sleep": 0.001, "n": 1, "batch": True})
    tasks = [items]
    if rng.random() < 0.4:
        tasks.append([{"p": rng.randrange(partitions), "sleep": 0, "n": 1}])
    first = {"tasks": tasks, "offsets": None, "await_sends": False, "end": end, "pause": 0,
             "end_after": cancel_after + rng.choice([0.001, 0.004, 0.02])}
    second = {"tasks": [[{"p": q, "sleep": 0, "n": 1}] for q in range(partitions)],
              "offsets": None, "await_sends": True, "end": "abort" if end == "commit" else "commit", "pause": 0}
    sc = {"id": sid, "seed": rng.randrange(1 << 30), "brokers": brokers, "partitions": partitions,
          "marker_delay": 0.0, "linger_ms": 0, "max_batch_size": 16384, "request_timeout_ms": 2000,
          "retry_backoff_ms": 20, "txn_coord": rng.randrange(brokers), "group_coord": rng.randrange(brokers),
          "instances": [{"start_at": 0.0, "txns": [first, second]}],
          "faults": {"Produce:1": fault or mk_fault("delay", 0)}, "moves": {}, "loading": {}, "kills": [],
          "quiet": 8.0, "family": "batch-api-cancelled-future"}
    number_offsets(sc)
    return sc


def gen_abort_reenqueued_scenario(rng, sid, end_after, code=6, end="abort"):
    """The application ends the transaction (without waiting for its sends) while a batch that already owns its
    sequence numbers sits RE-ENQUEUED in the accumulator: the first Produce is answered with a retriable error and
    the metadata refresh that follows is slow; the next transaction writes to the same partitions."""
    partitions = rng.choice([1, 2])
    brokers = rng.choice([1, 2])
    tasks = [[{"p": 0, "sleep": 0, "n": rng.choice([1, 2, 3])}]]
    if rng.random() < 0.5:
        tasks.append([{"p": rng.randrange(partitions), "sleep": rng.choice([0, 0.001]), "n": 1}])
    first = {"tasks": tasks, "offsets": None, "await_sends": False, "end": end, "pause": 0, "end_after": end_after}
    second = {"tasks": [[{"p": q, "sleep": 0, "n": 2}] for q in range(partitions)],
              "offsets": None, "await_sends": True, "end": "commit", "pause": 0}
    faults = {"Produce:1": mk_fault("error", code)}
    sc = {"id": sid, "seed": rng.randrange(1 << 30), "brokers": brokers, "partitions": partitions,
          "marker_delay": 0.0, "linger_ms": 0, "max_batch_size": 16384, "request_timeout_ms": 2000,
          "retry_backoff_ms": 20, "txn_coord": rng.randrange(brokers), "group_coord": rng.randrange(brokers),
          "instances": [{"start_at": 0.0, "txns": [first, second]}],
          "faults": faults, "moves": {}, "loading": {}, "kills": [], "quiet": 8.0,
          "slow_metadata_after_fault": 0.25, "family": "end-while-batch-reenqueued"}
    number_offsets(sc)
    return sc


REENQ_END_AFTER = [0.01, 0.025, 0.035, 0.05, 0.08, 0.15, 0.25, 0.4]


PARKED_END_AFTER = [0.0005, 0.002, 0.003, 0.004, 0.005, 0.006, 0.0075, 0.009, 0.011, 0.014, 0.02]


def number_offsets(sc):
    """Give every send_offsets_to_transaction call unique offset values (they identify the item)."""
    n = 200
    for inst in sc["instances"]:
        for t in inst["txns"]:
            if t.get("offsets"):
                k = min(1 + (n % 2), sc["partitions"])
                t["offsets"]["items"] = [[q, n + q] for q in range(k)]
                n += 3


def gen_scenario(rng, sid, **over):
    partitions = rng.choice([1, 2, 3])
    brokers = rng.choice([1, 2, 3])
    ninst = rng.choice([1, 1, 1, 2])
    instances = []
    for i in range(ninst):
        instances.append({"start_at": 0.0 if i == 0 else rng.choice([0.02, 0.05, 0.3, 2.0]),
                          "txns": [mk_txn(rng, partitions) for _ in range(rng.randrange(1, 4))]})
    sc = {"id": sid, "seed": rng.randrange(1 << 30), "brokers": brokers, "partitions": partitions,
          "marker_delay": rng.choice([0.0, 0.0, 0.03, 0.2]), "linger_ms": rng.choice([0, 0, 2]),
          "max_batch_size": rng.choice([16384, 16384, 200]), "request_timeout_ms": 2000, "retry_backoff_ms": 20,
          "txn_coord": rng.randrange(brokers), "group_coord": rng.randrange(brokers),
          "instances": instances, "faults": {}, "moves": {}, "loading": {}, "kills": [], "quiet": 8.0}
    sc.update(over)
    number_offsets(sc)
    return sc


RETRIABLE_FAULTS = {
    "InitProducerId": [("error", 14), ("error", 15), ("error", 16), ("error", 51), ("drop_before", 0),
                       ("drop_after", 0), ("no_reply", 0)],
    "AddPartitionsToTxn": [("error", 14), ("error", 15), ("error", 16), ("error", 51), ("error", 3),
                           ("drop_before", 0), ("drop_after", 0), ("no_reply", 0), ("no_reply_before", 0)],
    "AddOffsetsToTxn": [("error", 14), ("error", 15), ("error", 16), ("error", 51), ("drop_before", 0),
                        ("drop_after", 0), ("no_reply", 0)],
    "TxnOffsetCommit": [("error", 14), ("error", 15), ("error", 16), ("error", 7), ("error", 3), ("drop_before", 0),
                        ("drop_after", 0), ("no_reply", 0)],
    "EndTxn": [("error", 14), ("error", 15), ("error", 16), ("error", 51), ("drop_before", 0), ("drop_after", 0),
               ("no_reply", 0), ("no_reply_before", 0)],
    "Produce": [("error", 6), ("error", 3), ("error", 7), ("error", 19), ("drop_before", 0), ("drop_after", 0),
                ("no_reply", 0), ("delay", 0)],
    "FindCoordinator": [("error", 15), ("drop_before", 0), ("no_reply", 0)],
}
OTHER_FAULTS = {
    "AddPartitionsToTxn": [("error", 29), ("error", 47), ("error", 53), ("error", 48)],
    "AddOffsetsToTxn": [("error", 30), ("error", 47), ("error", 53)],
    "TxnOffsetCommit": [("error", 30), ("error", 47), ("error", 53)],
    "EndTxn": [("error", 47), ("error", 48)],
    "Produce": [("error", 45), ("error", 47), ("error", 2), ("error", 29)],
    "InitProducerId": [("error", 53)],
}


def mk_fault(kind, code):
    f = {"kind": kind, "code": code}
    if kind == "delay":
        f["delay"] = 0.3
    return f


def is_retriable_fault(api, f):
    return (f["kind"], f.get("code", 0)) in RETRIABLE_FAULTS.get(api, []) or f["kind"] in (
        "drop_before", "drop_after", "no_reply", "no_reply_before", "delay")


# =========================================================================== execution
def run_scenarios(scs, timeout=2400):
    if not scs:
        return []
    shards = min(NPROC, max(1, len(scs) // 6))
    chunks = [scs[i::shards] for i in range(shards)]
    res = {}

    def work(ch):
        return run_impl("c07_impl.py", {"scenarios": ch}, timeout, {"AIOKAFKA_NO_EXTENSIONS": "1"})["results"]
    with cf.ThreadPoolExecutor(max_workers=shards) as ex:
        for lst in ex.map(work, [c for c in chunks if c]):
            for r in lst:
                res[r["id"]] = r
    return [res.get(sc["id"], {"id": sc["id"], "ok": False, "error": "no result"}) for sc in scs]


# =========================================================================== independent reader
def rc_reference(batches):
    """Independent read-committed reader over one simulated partition log: a transactional batch is
    visible iff the next control marker of its producer after it is a COMMIT marker; everything from
    the first undecided transactional batch on is above the last stable offset and invisible.
    Returns (visible rids in log order, rids above the LSO)."""
    n = len(batches)
    fate = [None] * n
    for i, b in enumerate(batches):
        if b["control"]:
            continue
        if not b["txn"]:
            fate[i] = "plain"
            continue
        for j in range(i + 1, n):
            m = batches[j]
            if m["control"] and m["pid"] == b["pid"]:
                fate[i] = "commit" if m["marker"] == 1 else "abort"
                break
        else:
            fate[i] = "open"
    lso_idx = min([i for i in range(n) if fate[i] == "open"], default=n)
    vis, hidden = [], []
    for i, b in enumerate(batches):
        if b["control"]:
            continue
        if i >= lso_idx:
            hidden += b["rids"]
        elif fate[i] in ("commit", "plain"):
            vis += b["rids"]
    return vis, hidden


# =========================================================================== projection to model events
KIND = {"_do_add_partitions_to_txn": "KParts", "_do_add_offsets_to_txn": "KOffs",
        "_do_txn_offset_commit": "KToc", "_do_txn_commit": "KEnd"}


def clist(xs):
    return "[" + "; ".join(str(x) for x in xs) + "]"


def project(r):
    """Boundary trace of a run -> list of Coq event terms (strings)."""
    tr = r["trace"]
    evs = []
    dead = set()
    inflight = {}        # inst -> {partition: bid}
    last_req = None
    n = len(tr)
    i = 0
    pending_kill = None      # the kill is recorded just before the request at which it happens
    EFFECTS = ("arrive", "txn_add_partitions", "txn_add_offsets", "txn_offset_commit", "txn_prepare", "txn_end",
               "reply", "init_pid", "txn_fence", "kill_point")
    while i < n:
        e = tr[i]
        k = e["ev"]
        inst = e.get("inst", -1)
        # the effect of a request is recorded at the same virtual instant, right after it (delayed markers
        # of an earlier EndTxn may be the next event of the trace, later in time)
        nxt = tr[i + 1]["ev"] if i + 1 < n and (k != "request" or tr[i + 1].get("t") == e.get("t")) else None
        if pending_kill is not None and k not in EFFECTS and not (k == "request" and inst == pending_kill[0]
                                                                   and not pending_kill[1]):
            evs.append(f"AKill {pending_kill[0]}")
            dead.add(pending_kill[0])
            pending_kill = None
        if k == "request" and pending_kill is not None and inst == pending_kill[0]:
            pending_kill = (pending_kill[0], True)       # its request has been seen
        if k == "kill":
            pending_kill = (inst, False)
        elif k.startswith("c_") and (inst in dead or (pending_kill is not None and inst == pending_kill[0])):
            pass                                   # artefacts of cancelling the dead process's tasks
        elif k == "c_pid":
            evs.append(f"AStart {inst} {e['epoch']}")
        elif k == "c_begin":
            evs.append(f"ABegin {inst}")
        elif k == "c_accept":
            evs.append(f"AAccept {inst} {e['rid']} {e['p']} {e['bid']} {'true' if e['newb'] else 'false'}")
        elif k == "c_add_offsets":
            evs.append(f"AOffsets {inst} {clist(o for _, o in e['items'])}")
        elif k == "c_committing":
            evs.append(f"ACommitting {inst}")
        elif k == "c_aborting":
            evs.append(f"AAborting {inst}")
        elif k == "c_complete":
            evs.append(f"AComplete {inst}")
        elif k == "c_error":
            evs.append(f"AError {inst}")
        elif k == "c_fatal":
            evs.append(f"AFatal {inst}")
        elif k == "c_txn_pick":
            kd = KIND.get(e["task"])
            evs.append(f"TPick {inst} {'(Some ' + kd + ')' if kd else 'None'}")
        elif k == "c_txn_done":
            evs.append(f"TDone {inst}")
        elif k == "c_partition_added":
            evs.append(f"CPartAdded {inst} {e['p']}")
        elif k == "c_group_added":
            evs.append(f"CGroupAdded {inst}")
        elif k == "c_offset_committed":
            evs.append(f"COffCommitted {inst} {e['off']}")
        elif k == "c_drain":
            inflight.setdefault(inst, {})[e["p"]] = e["bid"]
            evs.append(f"SDrain {inst} {e['bid']}")
        elif k == "c_ok":
            if e.get("empty"):
                pass
            else:
                evs.append(f"SOk {inst} {e['bid']}")
        elif k == "c_retry":
            evs.append(f"SRetry {inst} {e['bid']}")
        elif k == "c_fail":
            evs.append(f"SFail {inst} {e['bid']}")
        elif k == "txn_fence":
            evs.append("EFence")
        elif k == "txn_end":
            evs.append("EMarkers")
        elif k == "init_pid":
            if e.get("tid") is not None:
                evs.append("EInitOk")
        elif k == "request" and e.get("inst", -1) >= 0:
            api = e["api"]
            s = e.get("summary") or {}
            last_req = e
            if api == "AddPartitionsToTxn":
                ps = sorted(p for t in s.get("topics", []) for p in t["partitions"])
                v = "VApplied" if nxt == "txn_add_partitions" else "VNot"
                evs.append(f"RAddParts {inst} {clist(ps)} {v}")
            elif api == "AddOffsetsToTxn":
                v = "VApplied" if nxt == "txn_add_offsets" else "VNot"
                evs.append(f"RAddOffs {inst} {v}")
            elif api == "TxnOffsetCommit":
                items = [p["offset"] for t in s.get("topics", []) for p in t["partitions"]]
                v = "VApplied" if nxt == "txn_offset_commit" else "VNot"
                evs.append(f"RToc {inst} {clist(items)} {v}")
            elif api == "EndTxn":
                ok = nxt in ("txn_prepare", "txn_end")
                if not ok and nxt == "reply" and tr[i + 1].get("api") == "EndTxn" and \
                        (tr[i + 1].get("summary") or {}).get("error_code") == 0:
                    ok = True
                evs.append(f"REndTxn {inst} {'true' if s.get('transaction_result') else 'false'} "
                           f"{'VApplied' if ok else 'VNot'}")
        elif k == "arrive" and last_req is not None and last_req.get("api") == "Produce":
            rinst = last_req.get("inst", -1)
            bidx = inflight.get(rinst, {}).get(e["partition"])
            if bidx is not None:
                evs.append(f"RProduce {rinst} {bidx} {'VApplied' if e['verdict'] == 'appended' else 'VNot'}")
        i += 1
    if pending_kill is not None:
        evs.append(f"AKill {pending_kill[0]}")
    return evs


def ground_truth(r, sc):
    """What the model's outputs are compared with, from the simulator's own data structures."""
    per_part = {}
    glog_items = {}
    for p in range(sc["partitions"]):
        bs = r["logs"][str(p)]["batches"]
        per_part[p] = [(b["epoch"], 0, b["rids"]) if not b["control"] else (b["epoch"], 1 if b["marker"] == 1 else 2, [])
                       for b in bs]
        glog_items[p] = rc_reference(bs)[0]
    return per_part, glog_items


# =========================================================================== monitors
def monitor(ck, sc, r, stats):
    """The property on ground truth; no use of the model."""
    nviol = 0

    def viol(what, sig=None, extra=None):
        nonlocal nviol
        nviol += 1
        key = sig or what[:80]
        stats.setdefault("by_sig", {})
        stats["by_sig"][key] = stats["by_sig"].get(key, 0) + 1
        if stats["by_sig"][key] <= 3:
            rp = {"scenario": sc, "what": what, "txns": r["txns"],
                  "logs": {p: [(b["base"], ("COMMIT" if b["marker"] == 1 else "ABORT") if b["control"] else b["rids"],
                                b["epoch"]) for b in lg["batches"]] for p, lg in r["logs"].items()},
                  "coordinator": {k: v for k, v in (r["coord"] or {}).items() if k != "history"},
                  "client_violations": r["client_violations"]}
            if extra:
                rp.update(extra)
            ck.violation(f"{what} (scenario {sc['id']})", rp, signature=key)

    faults = sc.get("faults") or {}
    had_error = any(e["ev"] == "c_error" for e in r["trace"])
    # application transactions during which error_transaction() was called
    err_txns = set()
    cur_k = {}
    for e in r["trace"]:
        if e["ev"] == "app_begin":
            cur_k[e["inst"]] = e["k"]
        elif e["ev"] == "c_error" and e.get("inst") in cur_k:
            err_txns.add((e["inst"], cur_k[e["inst"]]))
    # a transactional task that ended without having sent its request, followed by the sender's death
    # with the KafkaError wrapper: it died in _find_coordinator
    died_in_find_coordinator = False
    tr = r["trace"]
    for i, e in enumerate(tr):
        if e["ev"] == "c_fatal" and e.get("exc") == "KafkaError":
            j = i - 1
            while j >= 0 and not (tr[j]["ev"] == "c_txn_done" and tr[j].get("inst") == e.get("inst")):
                j -= 1
            k0 = j - 1
            sent = False
            while k0 >= 0 and not (tr[k0]["ev"] == "c_txn_pick" and tr[k0].get("inst") == e.get("inst")
                                   and tr[k0].get("task")):
                if tr[k0]["ev"] == "request" and tr[k0].get("inst") == e.get("inst") and \
                        tr[k0].get("api") in ("AddPartitionsToTxn", "AddOffsetsToTxn", "TxnOffsetCommit", "EndTxn"):
                    sent = True
                k0 -= 1
            if j >= 0 and not sent:
                died_in_find_coordinator = True
    failed_batches = [e for e in r["trace"] if e["ev"] == "c_fail"]
    visible = {}
    hidden = {}
    for p in range(sc["partitions"]):
        v, h = rc_reference(r["logs"][str(p)]["batches"])
        visible[p], hidden[p] = v, h
    all_visible = [x for v in visible.values() for x in v]
    if len(set(all_visible)) != len(all_visible):
        viol("a record is visible twice to a read-committed reader", "duplicate-visible")
    send_state = {s["rid"]: s for s in r["sends"]}
    mat = {}      # materialised transactional offsets: offset value -> count
    for c in r["group_commit_log"]:
        mat[c["offset"]] = mat.get(c["offset"], 0) + 1
    # ---- atomicity per application transaction
    for t in r["txns"]:
        items = t["items"]
        offs = [o for _, o in t["offsets"]]
        vis_items = [rid for rid, p in items if rid in visible[p]]
        lost = [rid for rid, p in items if send_state.get(rid, {}).get("state") == "error"]
        name = f"transaction #{t['k']} of instance {t['inst']} ({t['outcome']})"
        if t["outcome"] == "committed":
            missing = [rid for rid, p in items if rid not in visible[p]]
            if missing:
                sig = SIG_BATCH_LOST if set(missing) <= set(lost) else "committed-records-missing"
                viol(f"{name}: commit_transaction() returned but records {missing} are not visible to a "
                     f"read-committed reader", sig)
            moff = [o for o in offs if not mat.get(o)]
            if moff:
                viol(f"{name}: commit_transaction() returned but offsets {moff} are not committed to the group",
                     "committed-offsets-missing")
            stats["committed"] = stats.get("committed", 0) + 1
        elif t["outcome"] in ("aborted",) or (t["outcome"] in ("failed", "killed") and not t["commit_requested"]):
            auth_err = (t["inst"], t["k"]) in err_txns
            if vis_items:
                sig = SIG_NO_ENDTXN if auth_err else "aborted-records-visible"
                viol(f"{name}: records {vis_items} are visible to a read-committed reader", sig)
            if any(mat.get(o) for o in offs):
                viol(f"{name}: its offsets were committed to the group",
                     SIG_NO_ENDTXN if auth_err else "aborted-offsets-visible")
            stats["aborted_or_dead"] = stats.get("aborted_or_dead", 0) + 1
        else:
            # commit was requested and never returned: all or nothing
            n_off = sum(1 for o in offs if mat.get(o))
            allv = len(vis_items) == len(items) - len(lost) and n_off == len(offs)
            nonev = not vis_items and n_off == 0
            if not (allv or nonev):
                viol(f"{name}: partially visible: records {vis_items} of {items}, {n_off} of {len(offs)} offsets",
                     "partial-transaction")
            stats["undecided"] = stats.get("undecided", 0) + 1
    # ---- records that no application transaction owns must not be visible
    owned = {rid for t in r["txns"] for rid, _ in t["items"]}
    stray = [x for x in all_visible if x not in owned]
    if stray:
        viol(f"records {stray} are visible but were never accepted into a transaction", "stray-visible")
    # ---- a send() that raised was refused: its record must never reach a partition
    refused = {sd["rid"] for sd in r["sends"] if sd.get("state") == "refused"}
    if refused:
        stats["refused_sends"] = stats.get("refused_sends", 0) + len(refused)
        written = sorted(rid for p in range(sc["partitions"]) for b in r["logs"][str(p)]["batches"]
                         if not b["control"] for rid in b["rids"] if rid in refused)
        if written:
            viol(f"send() raised for records {written} but they were written to the log", "refused-send-written")
    # ---- client obligations as seen by the coordinator and the partition leaders
    for cv in r["client_violations"]:
        sig = SIG_UNREGISTERED if had_error and "not acknowledged" in cv["what"] else "obligation:" + cv["what"][:60]
        viol(f"client obligation broken: {cv['what']} ({ {k: v for k, v in cv.items() if k != 'what'} })", sig)
    for e in r["trace"]:
        if e["ev"] == "request" and e.get("api") == "EndTxn" and (e.get("acc_queued") or e.get("acc_inflight")):
            viol(f"EndTxn sent while batches {e.get('acc_queued')} queued / {e.get('acc_inflight')} in flight",
                 "endtxn-before-acks")
    # writes outside a transaction: every data batch is transactional and was appended while its
    # application transaction was open
    open_iv = {}
    t_begin = {}
    for e in r["trace"]:
        if e["ev"] == "app_begin":
            t_begin[(e["inst"], e["k"])] = e["t"]
        elif e["ev"] in ("app_commit_ok", "app_abort_ok"):
            open_iv[(e["inst"], e["k"])] = (t_begin.get((e["inst"], e["k"])), e["t"])
        elif e["ev"] == "app_failed":
            # the client did not end this transaction at the coordinator: requests already on the wire
            # may still land after the application saw the error (atomicity is checked separately)
            open_iv[(e["inst"], e["k"])] = (t_begin.get((e["inst"], e["k"])), float("inf"))
    rid_txn = {rid: (t["inst"], t["k"]) for t in r["txns"] for rid, _ in t["items"]}
    for p in range(sc["partitions"]):
        for a in r["logs"][str(p)]["arrivals"]:
            if a.get("verdict") != "appended":
                continue
            if not a.get("transactional"):
                viol("a transactional producer wrote a non-transactional batch", "non-transactional-batch")
            for rid in a.get("rids", []):
                iv = open_iv.get(rid_txn.get(rid))
                if iv and iv[0] is not None and not (iv[0] <= a["t"] <= iv[1]):
                    viol(f"record {rid} was appended at {a['t']} outside its transaction {iv}", "write-outside-txn")
    # ---- fencing: once a newer epoch exists nothing of an older epoch is appended
    for p in range(sc["partitions"]):
        last = -1
        for b in r["logs"][str(p)]["batches"]:
            if b["epoch"] < last:
                viol(f"partition {p}: an entry of epoch {b['epoch']} was appended after epoch {last}",
                     "fenced-write-accepted")
            last = max(last, b["epoch"])
    # ---- hanging transactions: an open transaction on a partition although nobody can end it
    coord = r["coord"] or {}
    if coord.get("state") not in ("Ongoing", "PrepareCommit", "PrepareAbort"):
        for p in range(sc["partitions"]):
            if r["logs"][str(p)]["open_txn"]:
                viol(f"partition {p} has an open transaction (LSO stuck at {r['logs'][str(p)]['lso']}) although the "
                     f"coordinator has no transaction", SIG_UNREGISTERED if had_error else "hanging-transaction")
    # ---- liveness under retriable faults only: every transaction ends the way the application asked
    only_retriable = all(is_retriable_fault(k.split(":")[0], f) for k, f in faults.items())
    if only_retriable and not sc.get("kills") and len(sc["instances"]) == 1:
        stats["liveness_runs"] = stats.get("liveness_runs", 0) + 1
        # a FindCoordinator request that was answered by closing the connection
        fc_drop = any(e["ev"] == "request" and e.get("api") == "FindCoordinator" and e.get("fault")
                      and e["fault"]["kind"] in ("drop_before", "drop_after") for e in r["trace"])
        lsig = (lambda d: SIG_FINDCOORD if (fc_drop or died_in_find_coordinator) else d)
        if r.get("unfinished"):
            viol("only retriable faults, but the application did not finish", lsig("liveness-not-finished"))
        want = sum(len(i["txns"]) for i in sc["instances"])
        if len(r["txns"]) != want:
            viol(f"only retriable faults {faults}, but {len(r['txns'])} of {want} transactions were started "
                 f"(instance: {r['instances']})", lsig("liveness-count"))
        for t in r["txns"]:
            if t["outcome"] != {"commit": "committed", "abort": "aborted"}[t["want"]]:
                viol(f"only retriable faults {faults}, but transaction #{t['k']} ended '{t['outcome']}' "
                     f"({t.get('exc')}) instead of '{t['want']}'", lsig("liveness-wrong-end"))
    stats["violations"] = stats.get("violations", 0) + nviol
    return nviol


# =========================================================================== the check
def build_scenarios(ck):
    rng = random.Random(ck.seed * 7907 + 7)
    scs = []
    import glob
    for fn in sorted(glob.glob(os.path.join(VERIF, "corpus", "C07", "*.json"))):
        scs.append(json.load(open(fn)))
    sid = 1000
    # (a) random scenarios, fault free
    for _ in range(ck.n(24, 500)):
        scs.append(gen_scenario(rng, sid, instances=None) if False else gen_scenario(rng, sid))
        sid += 1
    # (b) sends parked in the accumulator while the application commits / aborts: every end time of the grid
    #     for a few shapes (quick), many shapes (thorough)
    for _ in range(ck.n(4, 60)):
        shape_seed = rng.randrange(1 << 30)
        for ea in PARKED_END_AFTER:
            scs.append(gen_parked_scenario(random.Random(shape_seed), sid, ea))
            sid += 1
    # (c) the batch API with a returned future the application cancels while its Produce request is delayed,
    #     retried or unanswered
    for ca in (0.002, 0.01, 0.05):
        for end in ("commit", "abort"):
            for fault in (mk_fault("delay", 0), mk_fault("error", 6), mk_fault("drop_after", 0))[:ck.n(2, 3)]:
                scs.append(gen_batch_api_scenario(rng, sid, ca, end, fault))
                sid += 1
    # (c') batches built with create_batch() OUTSIDE a transaction (before the first begin_transaction(), or between two
    #      transactions) and submitted with send_batch() inside one: they belong to that transaction like any other
    for end in ("abort", "commit"):
        for nb in (1, 2):
            sc = gen_batch_api_scenario(rng, sid, 0.05, end, mk_fault("delay", 0))
            for txn in sc["instances"][0]["txns"]:
                for items in txn["tasks"]:
                    for it in items:
                        it.pop("cancel_after", None)
                    for it in items[:nb]:
                        it["batch"] = True
                        it["prebuilt"] = True
                txn["await_sends"] = True
                txn.pop("end_after", None)
            sc["family"] = "batch-built-outside-transaction"
            scs.append(sc)
            sid += 1
    # (d) commit / abort issued while a batch that was sent once sits re-enqueued (retriable Produce error, slow
    #     metadata refresh)
    for ea in REENQ_END_AFTER:
        for end in ("abort", "commit"):
            scs.append(gen_abort_reenqueued_scenario(rng, sid, ea, code=rng.choice([6, 3, 19]), end=end))
            sid += 1
    # (f) one transaction commits the offsets of two or three consumer groups (send_offsets_to_transaction called once
    #     per group).  The Coq model has one group per transaction: these runs are judged by the monitors only.
    for j in range(ck.n(8, 60)):
        sc = gen_scenario(rng, sid)
        sid += 1
        sc["instances"] = sc["instances"][:1]
        some = False
        for t in sc["instances"][0]["txns"]:
            if not t.get("offsets"):
                t["offsets"] = {"at": rng.choice(["before", "after", "concurrent"]), "items": None}
            t["offsets"]["more_groups"] = ["g2"] if rng.random() < 0.7 else ["g2", "g3"]
            some = True
        number_offsets(sc)
        sc["family"] = "several-groups"
        sc["no_model"] = True
        if some:
            scs.append(sc)
    # (g) two concurrent send_offsets_to_transaction() calls for the same group and partitions, the second with newer
    #     offsets, landing before / while / after the first call's TxnOffsetCommit is on the wire (a delayed reply widens
    #     the window).  Monitors only (the model has one pending offsets entry per call, not the overlap).
    for again in (0.0, 0.0005, 0.001, 0.002, 0.004, 0.008, 0.02, 0.1):
        for end in ("commit", "abort"):
            sc = gen_scenario(rng, sid)
            sid += 1
            sc["instances"] = sc["instances"][:1]
            t = sc["instances"][0]["txns"][0]
            t["offsets"] = {"at": rng.choice(["before", "after"]), "items": None, "again": again}
            t["end"] = end
            sc["instances"][0]["txns"] = [t]
            sc["faults"] = {"TxnOffsetCommit:1": mk_fault("delay", 0)} if again >= 0.002 else {}
            number_offsets(sc)
            sc["family"] = "overlapping-offset-commits"
            sc["no_model"] = True
            scs.append(sc)
    # (e) older broker releases that support transactions (0.11 .. 2.3: other versions of Produce, the five
    #     transactional APIs, FindCoordinator, Metadata)
    from simkit import profiles
    for _ in range(ck.n(16, 200)):
        sc = gen_scenario(rng, sid) if rng.random() < 0.7 else gen_parked_scenario(rng, sid, rng.choice(PARKED_END_AFTER))
        name = rng.choice(profiles.TRANSACTIONAL)
        sc["api_ranges"] = profiles.api_ranges(name)
        sc["family"] = "old-broker:" + name
        scs.append(sc)
        sid += 1
    return scs, sid, rng


def enumerate_faults(base, res, sid, kinds_per_api, rng, cap):
    """Single faults at every ordinal of every transactional API of a base run."""
    out = []
    counts = res.get("api_count", {})
    for api in TXN_APIS:
        for n in range(1, counts.get(api, 0) + 1):
            kinds = kinds_per_api(api)
            for (kind, code) in kinds:
                sc = json.loads(json.dumps(base))
                sc["id"] = sid
                sc["faults"] = {f"{api}:{n}": mk_fault(kind, code)}
                out.append(sc)
                sid += 1
    if len(out) > cap:
        rng.shuffle(out)
        out = out[:cap]
    return out, sid


def run(ck: Check):
    ck.trusted += [
        "Coq 8.16.1 kernel; vm_compute for trace replay and the refutation witnesses",
        "the simulated cluster (harness/simkit: txncoord.py reviewed against Kafka's TransactionCoordinator, "
        "cluster.py partition leaders with idempotence and markers) is the oracle for what brokers do",
        "observation points installed from outside around TransactionManager methods, MessageBatch.append/done/"
        "failure, MessageAccumulator._pop_batch/reenqueue/flush_for_commit and "
        "Sender._maybe_do_transactional_request (no source hooks); asyncio ready-queue order is one fixed order "
        "per schedule",
        "model/C07_Txn.v is hand-written; tied to the code by trace acceptance and output equality on every run",
        "the translated transition table (gen/TxnTable.v) is shared with C16",
    ]
    ck.cov["rule"] = ("one evaluation = one simulated run (1-2 producer instances with the same transactional id, "
                      "1-3 transactions each over 1-3 partitions, concurrent send tasks, send_offsets_to_transaction "
                      "before/after/concurrently, commit or abort, marker delay, coordinator placement; family "
                      "'parked sends': records so large that a batch holds one or two, 3-6 concurrent send tasks "
                      "parked in the accumulator, commit/abort issued at each time of a grid after begin without "
                      "waiting for them, followed by a transaction ending the other way; family 'batch API': create_batch()/send_batch() whose "
                      "returned future the application cancels while the Produce request is delayed or retried) with a fault "
                      "plan (single faults enumerated over every ordinal of every transactional API of base runs; "
                      "coordinator moves; loading windows; kills at every request of an instance, applied or not, "
                      "followed by a replacement instance; random multi-fault plans); non-trivial = at least one "
                      "transactional batch was appended; distinct by the projected model trace")
    t0 = time.time()
    import c16_dispatch
    ok_t, _ = ck.regenerate(["TxnTable"])
    c16_dispatch.regenerate(ck)      # the transactional handlers' dispatch chains (shared with C16)
    ok_p, _ = ck.coq_props("C07")
    ck.log(f"translation ok={ok_t}, proofs ok={ok_p} ({time.time() - t0:.0f}s)")
    wscs, wres = check_witnesses(ck)
    scs, sid, rng = build_scenarios(ck)
    # ---- base runs for systematic fault / kill enumeration
    bases = []
    for j in range(ck.n(2, 10)):
        b = gen_scenario(rng, sid, brokers=2 + (j % 2), partitions=2 + (j % 2), marker_delay=[0.0, 0.05][j % 2])
        b["instances"] = b["instances"][:1]
        b["instances"][0]["txns"] = [mk_txn(rng, b["partitions"], end=["commit", "abort", "commit"][q % 3])
                                     for q in range(2)]
        for t in b["instances"][0]["txns"]:
            if not t["offsets"] and rng.random() < 0.7:
                t["offsets"] = {"at": rng.choice(["before", "after", "concurrent"]), "items": None}
            if t["tasks"] == [[]]:
                t["tasks"] = [[{"p": 0, "sleep": 0, "n": 1}]]
        number_offsets(b)
        bases.append(b)
        sid += 1
    base_res = run_scenarios(bases)
    extra = []
    for b, br in zip(bases, base_res):
        if not br.get("ok"):
            continue
        f1, sid = enumerate_faults(b, br, sid, lambda api: RETRIABLE_FAULTS.get(api, []), rng, ck.n(80, 2500))
        f2, sid = enumerate_faults(b, br, sid, lambda api: OTHER_FAULTS.get(api, []), rng, ck.n(30, 600))
        extra += f1 + f2
        # coordinator moves and loading windows at every transactional request
        for api in ("AddPartitionsToTxn", "AddOffsetsToTxn", "EndTxn", "TxnOffsetCommit"):
            for n in range(1, br["api_count"].get(api, 0) + 1):
                sc = json.loads(json.dumps(b))
                sc["id"] = sid
                sid += 1
                if api == "TxnOffsetCommit":
                    sc["moves"] = {f"{api}:{n}": {"group": (b["group_coord"] + 1) % b["brokers"]}}
                else:
                    sc["moves"] = {f"{api}:{n}": {"txn": (b["txn_coord"] + 1) % b["brokers"]}}
                extra.append(sc)
                if api != "TxnOffsetCommit":
                    sc = json.loads(json.dumps(b))
                    sc["id"] = sid
                    sid += 1
                    sc["loading"] = {f"{api}:{n}": 2}
                    extra.append(sc)
        # kill at every request of the instance (applied or lost), replacement instance afterwards
        nreq = br["instances"][0]["nreq"]
        ks = list(range(1, nreq + 1))
        if len(ks) > ck.n(10, 60):
            ks = sorted(rng.sample(ks, ck.n(10, 60)))
        for k in ks:
            for applied in (False, True):
                sc = json.loads(json.dumps(b))
                sc["id"] = sid
                sid += 1
                sc["kills"] = [{"inst": 0, "req": k, "applied": applied}]
                sc["instances"].append({"start_at": rng.choice([0.05, 0.5, 3.0]),
                                        "txns": [mk_txn(rng, b["partitions"], end="commit")]})
                number_offsets(sc)
                extra.append(sc)
        # a second instance starting while the first is alive (zombie fencing)
        for start in (0.012, 0.016, 0.02, 0.03, 0.05):
            sc = json.loads(json.dumps(b))
            sc["id"] = sid
            sid += 1
            sc["instances"].append({"start_at": start, "txns": [mk_txn(rng, b["partitions"], end="commit")]})
            number_offsets(sc)
            extra.append(sc)
    # ---- random multi-fault plans
    for _ in range(ck.n(30, 2500)):
        sc = gen_scenario(rng, sid) if rng.random() < 0.85 else \
            gen_parked_scenario(rng, sid, rng.choice(PARKED_END_AFTER))
        sid += 1
        for _f in range(rng.choice([1, 2, 3])):
            api = rng.choice(TXN_APIS)
            pool = RETRIABLE_FAULTS.get(api, []) if rng.random() < 0.8 else OTHER_FAULTS.get(api, []) or \
                RETRIABLE_FAULTS.get(api, [])
            kind, code = rng.choice(pool)
            sc["faults"][f"{api}:{rng.randrange(1, 6)}"] = mk_fault(kind, code)
        if rng.random() < 0.25 and len(sc["instances"]) > 1:
            sc["kills"] = [{"inst": 0, "req": rng.randrange(3, 25), "applied": rng.random() < 0.5}]
        scs.append(sc)
    scs += extra
    results = run_scenarios(scs, timeout=ck.n(900, 3000))
    results = list(wres) + list(base_res) + results
    scs = wscs + bases + scs
    ck.log(f"simulated {len(scs)} scenarios ({time.time() - t0:.0f}s)")

    stats = {}
    hist = {"faults": {}, "kills": 0, "moves": 0, "instances": {}, "outcomes": {}, "failed_runs": 0}
    cases = []
    for sc, r in zip(scs, results):
        if not r.get("ok"):
            hist["failed_runs"] += 1
            if hist["failed_runs"] <= 3:
                ck.obligation(f"correspondence:simulation-ran:{sc['id']}", False,
                              r.get("error", "")[:300] + r.get("tb", "")[-400:])
            continue
        for k, f in (sc.get("faults") or {}).items():
            key = f"{k.split(':')[0]}:{f['kind']}" + (str(f["code"]) if f["kind"] == "error" else "")
            hist["faults"][key] = hist["faults"].get(key, 0) + 1
        hist["kills"] += len(sc.get("kills") or [])
        hist["moves"] += len(sc.get("moves") or {})
        hist["instances"][len(sc["instances"])] = hist["instances"].get(len(sc["instances"]), 0) + 1
        for t in r["txns"]:
            hist["outcomes"][t["outcome"]] = hist["outcomes"].get(t["outcome"], 0) + 1
        monitor(ck, sc, r, stats)
        if sc.get("no_model"):
            ck.count(key=("monitors-only", sc["id"], sc["seed"]), nontrivial=True)
            continue
        evs = project(r)
        cases.append((sc, r, evs))
        appended = sum(1 for p in r["logs"].values() for b in p["batches"] if not b["control"])
        ck.count(key=tuple(evs), nontrivial=appended > 0,
                 sample={"scenario": sc["id"], "faults": sc.get("faults"), "kills": sc.get("kills"),
                         "txns": [(t["inst"], t["k"], t["outcome"]) for t in r["txns"]],
                         "trace_head": evs[:40]} if sc.get("faults") and len(evs) > 60 else None)
    ck.obligation("correspondence:all-simulations-ran", hist["failed_runs"] == 0,
                  f"{hist['failed_runs']} runs failed")
    ck.extra["input_distribution"] = hist
    ck.extra["monitor"] = stats
    ck.log(f"monitors: {stats} ({time.time() - t0:.0f}s)")

    # ---- acceptance by the Coq model, outputs equal to the simulator's ground truth
    per = 25
    bodies = []
    for i in range(0, len(cases), per):
        lines = []
        for sc, r, evs in cases[i:i + per]:
            parts = list(range(sc["partitions"])) + [GROUPP]
            lines.append(f"Eval vm_compute in (replay {len(sc['instances'])} {clist(parts)} "
                         f"[{'; '.join(evs)}]).")
        bodies.append("Open Scope nat_scope.\n" + "\n".join(lines) + "\n")
    outs = ck.coq_eval_sharded("c07_traces", ["Imp", "TxnTable", "C16_TxnApi", "C07_Txn"], bodies, timeout=1500)
    rejected = mismatched = coq_fail = 0
    ob_stats = {}
    ob_seen = {}
    for ci, (okc, out) in enumerate(outs):
        chunk = cases[ci * per:(ci + 1) * per]
        vals = [parse_coq_value(v) for v in parse_eval_outputs(out)] if okc else []
        if not okc or len(vals) != len(chunk):
            coq_fail += 1
            if coq_fail <= 2:
                ck.obligation(f"correspondence:coq-evaluation:{ci}", False, out[-600:])
            continue
        for (sc, r, evs), v in zip(chunk, vals):
            if isinstance(v, tuple) and v[0] == "inr":
                rejected += 1
                if rejected <= 5:
                    idx = v[1]
                    ck.obligation(f"correspondence:trace-accepted:scenario{sc['id']}", False,
                                  f"model rejects event #{idx} `{evs[idx] if idx < len(evs) else None}` after "
                                  f"{evs[max(0, idx - 12):idx]}; faults={sc.get('faults')} kills={sc.get('kills')} "
                                  f"moves={sc.get('moves')}")
                    # the real run is the counterexample: keep it replayable
                    ck.violation(f"the model rejects the trace of the real producer at event #{idx} "
                                 f"`{evs[idx] if idx < len(evs) else None}` (scenario {sc['id']})",
                                 {"scenario": sc, "what": "model rejects the real trace", "event_index": idx,
                                  "events_before": evs[max(0, idx - 30):idx + 1]},
                                 signature="model-rejects-real-trace")
                continue
            glog, coord, views, ended, cstates, obinfo = v[1]
            diffs = []
            ob_idx, ob_k, fresh_ok = obinfo
            if not fresh_ok:
                diffs.append("item ids of the workload are not fresh")
            if ob_k:
                # the faithful model accepts the trace, but a client obligation (the hypotheses of
                # c07_atomic) is broken at event ob_idx: a finding about the real client
                ob_stats[ob_k] = ob_stats.get(ob_k, 0) + 1
                had_error = any(x.startswith("AError") for x in evs[:ob_idx + 1])
                had_fail = any(x.startswith("SFail") for x in evs[:ob_idx + 1])
                # (obligations 1, 3, 4 used to be broken by defects that are repaired: no known signature)
                sig = {2: SIG_BATCH_LOST if had_fail else None}.get(ob_k) or f"model-obligation-{ob_k}"
                key = ("ob", sig)
                ob_seen[key] = ob_seen.get(key, 0) + 1
                if ob_seen[key] <= 2:
                    ck.violation(f"client obligation {OB_NAMES.get(ob_k, ob_k)} broken at event #{ob_idx} "
                                 f"`{evs[ob_idx]}` of the accepted trace (scenario {sc['id']})",
                                 {"scenario": sc, "obligation": OB_NAMES.get(ob_k, ob_k), "event_index": ob_idx,
                                  "event": evs[ob_idx], "trace": evs[:ob_idx + 1][-60:]}, signature=sig)
            # logs
            for p in range(sc["partitions"]):
                mine = [(ep, kd, list(items)) for (pp, ep, kd, items) in glog if pp == p]
                real = [(b["epoch"], 0, b["rids"]) if not b["control"] else (b["epoch"], 1 if b["marker"] == 1 else 2, [])
                        for b in r["logs"][str(p)]["batches"]]
                if mine != real:
                    diffs.append(f"log of partition {p}: model {mine} vs simulator {real}")
            # read-committed views against the independent reference reader
            vd = dict((a, list(b)) for a, b in views)
            for p in range(sc["partitions"]):
                ref = rc_reference(r["logs"][str(p)]["batches"])[0]
                if vd.get(p) != ref:
                    diffs.append(f"rc_view of partition {p}: model {vd.get(p)} vs reference reader {ref}")
            goff = [c["offset"] for c in r["group_commit_log"]]
            if sorted(vd.get(GROUPP, [])) != sorted(set(goff)) and sorted(vd.get(GROUPP, [])) != sorted(goff):
                diffs.append(f"materialised group offsets: model {vd.get(GROUPP)} vs group coordinator {goff}")
            # coordinator
            cnum = {"Empty": 0, "Ongoing": 1, "PrepareCommit": 2, "PrepareAbort": 3, "CompleteCommit": 4,
                    "CompleteAbort": 5}[(r["coord"] or {"state": "Empty"})["state"]]
            real_parts = sorted(GROUPP if False else x[1] for x in (r["coord"] or {}).get("partitions", []))
            real_parts += [GROUPP] if (r["coord"] or {}).get("groups") else []
            if coord[0] != cnum or coord[1] != (r["coord"] or {}).get("epoch", 0) or \
                    sorted(coord[2]) != sorted(real_parts):
                diffs.append(f"coordinator: model {coord} vs simulator {(cnum, (r['coord'] or {}).get('epoch'), real_parts)}")
            # outcomes of the application transactions
            mine = sorted(((a, b - 1), o) for (a, b, o) in ended)
            real = sorted(((t["inst"], t["k"]), 1 if t["outcome"] == "committed" else 0) for t in r["txns"]
                          if t["outcome"] in ("committed", "aborted"))
            if mine != real:
                diffs.append(f"ended transactions: model {mine} vs application {real}")
            if diffs:
                mismatched += 1
                if mismatched <= 5:
                    ck.obligation(f"correspondence:model-output-equals-simulator:scenario{sc['id']}", False,
                                  " | ".join(diffs)[:1500])
    ck.obligation("correspondence:all-traces-accepted-by-model", rejected == 0 and coq_fail == 0,
                  f"{rejected} rejected, {coq_fail} case files failed to evaluate")
    ck.obligation("correspondence:model-output-equals-simulator-ground-truth", mismatched == 0, f"{mismatched} differ")
    ck.cov["traces_validated_against_impl"] = len(cases) - rejected - mismatched
    ck.extra["obligations_broken_on_real_traces"] = {OB_NAMES.get(k, k): v for k, v in ob_stats.items()}
    ck.log(f"model acceptance: {len(cases)} traces, rejected={rejected}, mismatched={mismatched}, "
           f"coq_fail={coq_fail} ({time.time() - t0:.0f}s)")


# traces of the real producer that props/C07.v talks about: name -> (scenario, expected first broken
# obligation (event index, obligation) or None when every obligation holds)
WITNESSES = {
    "w_commit_without_batch": ({"instances": [{"txns": [
        {"tasks": [[{"p": 0}]], "offsets": None, "end": "commit", "await_sends": False}]}],
        "faults": {"Produce:1": {"kind": "error", "code": 29}}}, (12, 2)),
    "t_abort_after_abortable_error": ({"instances": [{"txns": [
        {"tasks": [[{"p": 0}]], "offsets": {"at": "after", "items": [[0, 7]]}, "end": "commit", "await_sends": False},
        {"tasks": [[{"p": 0}]], "offsets": None, "end": "commit", "await_sends": False}]}],
        "faults": {"AddOffsetsToTxn:1": {"kind": "error", "code": 30}}}, None),
    "t_unauthorized_partition": ({"instances": [{"txns": [
        {"tasks": [[{"p": 1}]], "offsets": None, "end": "commit", "await_sends": False}]}],
        "faults": {"AddPartitionsToTxn:1": {"kind": "error", "code": 29}}}, None),
}


def coq_definition_events(name):
    """The event list of `Definition <name> : list event := [...]` in proof/C07_misc.v."""
    import re
    src = open(os.path.join(VERIF, "coq", "proof", "C07_misc.v")).read()
    m = re.search(r"Definition\s+" + name + r"\s*:\s*list event\s*:=\s*\[(.*?)\]\.", src, re.S)
    if not m:
        return None
    return [" ".join(x.split()) for x in m.group(1).split(";")]


def check_witnesses(ck):
    """The refutation witnesses of props/C07.v are traces of the real producer: re-record them."""
    base = {"brokers": 1, "partitions": 2, "marker_delay": 0.0, "linger_ms": 0, "max_batch_size": 16384,
            "request_timeout_ms": 2000, "retry_backoff_ms": 20, "txn_coord": 0, "group_coord": 0, "quiet": 2.0,
            "moves": {}, "loading": {}, "kills": [], "seed": 1}
    scs = []
    for k, (name, (sc, _)) in enumerate(WITNESSES.items()):
        scs.append(dict(base, id=900 + k, **json.loads(json.dumps(sc))))
    res = run_scenarios(scs)
    bad = []
    for (name, (_, want)), sc, r in zip(WITNESSES.items(), scs, res):
        if not r.get("ok"):
            bad.append(f"{name}: run failed {r.get('error')}")
            continue
        evs = [e for e in project(r) if not e.endswith(" None")]
        coq = coq_definition_events(name)
        if coq != evs:
            diff = next((i for i, (a, b) in enumerate(zip(coq or [], evs)) if a != b), min(len(coq or []), len(evs)))
            bad.append(f"{name}: the real producer's trace differs from the Coq witness at event {diff}: "
                       f"real {evs[diff:diff + 3]} vs coq {(coq or [])[diff:diff + 3]}")
    ck.obligation("correspondence:traces-quoted-in-the-theorems-are-traces-of-the-real-producer", not bad,
                  "; ".join(bad)[:1200])
    return scs, res


def replay(ck: Check, path):
    rp = json.load(open(path))
    sc = rp["replay"]["scenario"]
    r = run_scenarios([sc])[0]
    print(json.dumps({k: v for k, v in r.items() if k != "trace"}, indent=1)[:6000])
    for e in project(r):
        print("  ", e)
    return 0
