"""C19 — stop() always terminates and leaves nothing running."""
import glob
import json
import os
import random

import conssim
import prodsim
from common import VERIF, Check

T_REQ = 2.0          # request_timeout_ms used by the scenarios (seconds)


def gen_consumer(rng, sid):
    brokers = rng.choice([1, 2, 3])
    group = rng.random() < 0.75
    t_stop = rng.choice([0.0, 0.001, 0.003, 0.01, 0.05, 0.12, 0.3, 0.51, 0.9, 1.5, 2.2, 3.0])
    cond = rng.choice(["healthy", "healthy", "all_down", "coord_down", "coord_move", "loading", "lost_reply",
                       "acl_revoked"])
    dt = rng.choice([0.0, 0.0005, 0.01, 0.09, 0.2, 1.0])
    topics = {"t0": rng.choice([1, 2, 3])}
    main = {"name": "c0", "group": "g" if group else None, "topics": ["t0"],
            "assignors": rng.choice([["range"], ["roundrobin"], ["sticky"], ["range", "roundrobin"]]),
            "auto_commit": rng.random() < 0.8, "auto_commit_interval_ms": rng.choice([100, 500]),
            "cb_delay": rng.choice([0, 0, 0.05]),
            "program": [["start"], ["consume", t_stop, 0.1, rng.choice([1, None]), 0], ["stop", 600.0, True]]}
    consumers = [main]
    extra_events = []
    if not group and rng.random() < 0.6:
        # the group-less consumer's assignment is replaced while it runs (new partition count seen by a
        # metadata refresh, or a re-subscribe) before stop()
        main["metadata_max_age_ms"] = 200
        if rng.random() < 0.5:
            extra_events.append({"at": rng.choice([0.05, 0.2, 0.5]), "op": "add_partitions", "topic": "t0", "n": 1})
            main["program"] = [["start"], ["consume", max(t_stop, 1.0), 0.1, None, 0], ["stop", 600.0, True]]
        else:
            main["program"] = [["start"], ["consume", t_stop / 2, 0.1, None, 0], ["subscribe", ["t0"]],
                               ["consume", t_stop / 2 + 0.3, 0.1, None, 0], ["stop", 600.0, True]]
    if group and rng.random() < 0.5:
        # a second member joins around the stop time: stop() mid-rebalance
        consumers.append({"name": "c1", "group": "g", "topics": ["t0"], "assignors": main["assignors"],
                          "auto_commit": True, "auto_commit_interval_ms": 300, "cb_delay": 0,
                          "program": [["sleep", max(0.0, t_stop + rng.choice([-0.05, -0.01, 0.0, 0.002]))],
                                      ["start"], ["consume", 1.0, 0.1, None, 0], ["stop", 600.0, False]]})
    events = list(extra_events)
    at = max(0.0, t_stop - dt) + 0.02    # start() itself takes ~20 ms
    coord = rng.randrange(brokers)
    if cond == "all_down":
        events.append({"at": at, "op": "all_down"})
        events.append({"at": at + 30.0, "op": "all_up"})
    elif cond == "coord_down":
        events.append({"at": at, "op": "node_down", "node": coord})
        events.append({"at": at + 30.0, "op": "node_up", "node": coord})
    elif cond == "coord_move" and brokers > 1:
        events.append({"at": at, "op": "coord_move", "to": (coord + 1) % brokers, "keep_state": rng.random() < 0.5})
    elif cond == "acl_revoked":
        # the group ACL is withdrawn: Heartbeat/OffsetCommit/JoinGroup answer GROUP_AUTHORIZATION_FAILED, which
        # ends the heartbeat task / coordination routine with an error before stop() is called
        events.append({"at": at, "op": "deny_group", "on": True})
    elif cond == "loading":
        events.append({"at": at, "op": "loading", "on": True})
        events.append({"at": at + 20.0, "op": "loading", "on": False})
    plan = {}
    if cond == "lost_reply":
        plan[str(rng.randrange(1, 25))] = {"kind": rng.choice(["no_reply", "drop_after", "drop_before"])}
    return {"id": sid, "seed": rng.randrange(1 << 30), "brokers": brokers, "topics": topics,
            "preload": {"t0": {str(p): rng.choice([0, 5]) for p in range(topics["t0"])}},
            "consumers": consumers, "cluster_events": events, "coordinator": coord,
            "faults": {"apis": conssim.GROUP_APIS + ["Fetch", "Metadata"], "plan": plan},
            "max_vtime": 900.0, "_cond": cond, "_group": group, "_t_stop": t_stop}


def gen_producer(rng, sid):
    sc = prodsim.gen_scenario(rng, sid)
    sc["stop_early"] = True
    sc["resolve_within"] = 60.0
    cond = rng.choice(["healthy", "all_down", "one_down"])
    if cond != "healthy":
        sc["outages"] = [{"at": rng.choice([0.05, 0.06, 0.1, 0.3, 1.0]),
                          "nodes": None if cond == "all_down" else [rng.randrange(sc["brokers"])],
                          "for": rng.choice([0.5, 3.0, 30.0])}]
    sc["_cond"] = cond
    sc["stop_within"] = 900.0
    return sc


# ---- task calculus correspondence (model/C19_Tasks.v, gen/CloseShapes.v) -------------------------------------
def _shapes():
    import sys
    from common import REPO
    tr = os.path.join(VERIF, "translator")
    if tr not in sys.path:
        sys.path.insert(0, tr)
    import close2gallina
    return close2gallina.shapes(REPO)


def _tstate(obs, shape):
    """One observed task [qualname, state, line] -> Gallina tstate (None = the line is no await point)."""
    _, st, line = obs
    if st == "unstarted":
        return "TUnstarted"
    if st == "ok":
        return "TDoneOk"
    if st == "exc":
        return "TDoneExc"
    if st == "cancelled":
        return "TDoneCancelled"
    for i, (a, b) in enumerate(shape["lines"]):
        if a <= line <= b:
            return f"TParked {i} false"
    return None


def close_env(snap, shapes):
    """Observed snapshot -> (program name, list of 9 member lists as Gallina text, problems)."""
    problems = []
    by = {sh["slot"]: sh for sh in shapes}
    env = []
    joined = snap.get("joined")
    for sh in shapes:
        slot = sh["slot"]
        if slot in ("pending_fetch", "pending_update"):
            members = [o for o in snap.get("pending", []) if o[0] == sh["qualname"]]
        else:
            members = snap.get(slot, [])
        if joined is not None and slot != "coordination":
            # exact: the state each task was in when the close procedure called cancel() on it; the tasks of the slot
            # that were finished at the stop() call and never cancelled (skipped by a done() guard) keep that state
            members = [o for o in joined if o[0] == sh["qualname"]] + \
                      [o for o in members if o[1] in ("ok", "exc", "cancelled")
                       and not any(j[0] == o[0] for j in joined)]
        terms = []
        for o in members:
            if slot not in ("pending_fetch", "pending_update") and o[0] != sh["qualname"]:
                problems.append(f"slot {slot} holds a task running {o[0]}")
                continue
            t = _tstate(o, by[slot])
            if t is None:
                problems.append(f"{o[0]} suspended at line {o[2]}, which is not one of its await points {sh['lines']}")
                continue
            terms.append(t)
        env.append("[" + "; ".join(terms) + "]")
    known = {by["pending_fetch"]["qualname"], by["pending_update"]["qualname"]}
    for o in snap.get("pending", []) + (joined or []):
        if o[0] not in known and not any(o[0] == sh["qualname"] for sh in shapes):
            problems.append(f"pending task running {o[0]}")
    prog = {"group": "consumer_group_stop", "nogroup": "consumer_nogroup_stop", "producer": "producer_stop"}[snap["kind"]]
    return prog, "[" + "; ".join(env) + "]", problems


def close_correspondence(ck, cases):
    """cases: (case id, snapshot, actual in {'Completed','Escaped','Hung'}, replay).  The model's run of the translated
    procedure from the observed environment must give the actual outcome, and the environment must lie in the state
    space the theorems quantify over."""
    if not cases:
        ck.obligation("correspondence:stop-outcome-predicted-by-task-calculus", False, "no stop() call was observed")
        return
    shapes = _shapes()
    body = ["Import CloseShapes."]
    rows = []
    bad = []
    for cid, snap, actual, replay in cases:
        if "error" in snap:
            bad.append(f"{cid}: observation failed: {snap['error']}")
            continue
        prog, env, problems = close_env(snap, shapes)
        if problems:
            bad.append(f"{cid}: " + "; ".join(problems))
            continue
        body.append(f"Eval vm_compute in (env_ok slots {env}, run slots {env} {prog}).")
        rows.append((cid, snap, actual, replay, env, prog))
    from common import parse_eval_outputs
    ok, out = ck.coq_eval("c19_close", ["C19_Tasks", "CloseShapes"], "\n".join(body) + "\n")
    vals = parse_eval_outputs(out) if ok else []
    if not ok or len(vals) != len(rows):
        ck.obligation("correspondence:stop-outcome-predicted-by-task-calculus", False,
                      f"evaluation inside Coq failed ({len(vals)} of {len(rows)} results): {out[-300:]}")
        return
    hist = {}
    outside = []
    for (cid, snap, actual, replay, env, prog), v in zip(rows, vals):
        v = str(v)
        inside = "true" in v.split(",")[0]
        pred = "Completed" if "Completed" in v else "Escaped" if "Escaped" in v else "Hung"
        hist[f"{prog}:{pred}/{actual}"] = hist.get(f"{prog}:{pred}/{actual}", 0) + 1
        for sl, ms in snap.items():
            if isinstance(ms, list):
                for o in ms:
                    k = f"state:{o[0].split('.')[-1]}:{o[1]}" + (f"@{o[2]}" if o[1] == "parked" else "")
                    hist[k] = hist.get(k, 0) + 1
        if not inside:
            outside.append(f"{cid}: observed task states outside the model's state space: {env}")
        if pred != actual:
            bad.append(f"{cid}: model predicts {v}, stop() actually {actual}; env {env}")
            if actual != "Completed":
                continue      # the monitor has reported the run itself as a violation with its scenario
    ck.extra["close_calculus"] = {"cases": len(rows), "histogram": dict(sorted(hist.items())),
                                  "shapes": [{k: sh[k] for k in ("slot", "lines", "classes")} for sh in shapes]}
    ck.obligation("correspondence:stop-outcome-predicted-by-task-calculus", not bad,
                  f"{len(rows)} stop() calls; " + ("; ".join(bad[:4]) if bad else "all outcomes as predicted"))
    ck.obligation("correspondence:observed-task-states-inside-state-space", not outside,
                  "; ".join(outside[:4]) if outside else f"{len(rows)} environments, all inside")


def run(ck: Check):
    ck.trusted += [
        "Coq 8.16.1 kernel",
        "model/Shutdown.v is a hand-written control skeleton; the theorem bounds the skeleton; leaked tasks, timers "
        "and transports, post-stop API behaviour and LeaveGroup are runtime facts sampled by the monitor on the live "
        "objects (asyncio.all_tasks, the simulator's open transports) at every explored stopping point: partial",
        "simulator (virtual time) as environment; bound checked: stop() <= 4 x request_timeout + callbacks/backoff slack",
    ]
    ck.cov["rule"] = ("stop() issued at 12 offsets from start (0 .. 3 s, i.e. during bootstrap, first join, steady state) x "
                      "cluster condition at that moment (healthy, all brokers down, coordinator down/moved/loading, a lost "
                      "reply) x group / group-less consumer (optionally a second member joining around the stop) and "
                      "producers stopped with unresolved batches; one evaluation = one run; non-trivial = the cluster was "
                      "not healthy or a rebalance overlapped the stop")
    ck.regenerate(["CloseShapes"])
    ck.coq_props("C19")
    rng = random.Random(ck.seed * 911 + 19)
    n = ck.n(72, 1200)
    scs = []
    for fn in sorted(glob.glob(os.path.join(VERIF, "corpus", "C19", "*.json"))):
        sc = json.load(open(fn))
        sc["id"] = "corpus-" + os.path.basename(fn)
        sc.setdefault("_cond", "corpus")
        scs.append(sc)
    scs += [gen_consumer(rng, i) for i in range(n)]
    # group-less consumers that are stopped right after start() returned: without any subscription, with a manual
    # assignment, with a subscription (start() returns at different points of the bootstrap in the three cases)
    k = 0
    for mode in ("none", "assign", "subscribe"):
        for pause in (None, 0.0, 0.001, 0.05):
            c0 = {"name": "c0", "group": None, "topics": ["t0"] if mode == "subscribe" else [], "assignors": ["range"],
                  "auto_commit": False, "cb_delay": 0,
                  "program": [["start"]] + ([["sleep", pause]] if pause is not None else []) + [["stop", 600.0, True]]}
            if mode == "assign":
                c0["assign"] = [["t0", 0], ["t0", 1]]
            scs.append({"id": f"groupless-{mode}-{pause}", "seed": 77 + k, "brokers": 1, "topics": {"t0": 2},
                        "preload": {"t0": {"0": 3, "1": 0}}, "consumers": [c0], "cluster_events": [], "coordinator": 0,
                        "faults": {"apis": [], "plan": {}}, "max_vtime": 900.0, "_cond": "healthy", "_group": False,
                        "_t_stop": 0.0})
            k += 1
    # unsubscribe() immediately followed by stop() (no await in between) while a fetch is in flight
    for j, (group, t) in enumerate([(False, 0.3), (False, 1.0), (True, 0.5), (True, 1.2)]):
        c0 = {"name": "c0", "group": "g" if group else None, "topics": ["t0"], "assignors": ["range"], "auto_commit": True,
              "auto_commit_interval_ms": 300, "cb_delay": 0, "fetch_max_wait_ms": 400,
              "program": [["start"], ["consume", t, 0.1, None, 0], ["unsubscribe"], ["stop", 600.0, True]]}
        scs.append({"id": f"unsubscribe-stop-{j}", "seed": 60 + j, "brokers": 1, "topics": {"t0": 2},
                    "preload": {"t0": {"0": 3, "1": 0}}, "consumers": [c0], "cluster_events": [], "coordinator": 0,
                    "faults": {"apis": [], "plan": {}}, "max_vtime": 1500.0, "_cond": "unsubscribe-stop",
                    "_group": group, "_t_stop": t})
    # a group consumer whose application stopped polling for longer than max_poll_interval_ms: the heartbeat task leaves
    # the group on its behalf (slow LeaveGroup round trip); stop() is called at a grid of instants around that
    for j, idle in enumerate([0.3, 0.5, 0.6, 0.7, 0.8, 0.9, 1.0, 1.1, 1.3, 1.6]):
        for ac in (False, True):
            c0 = {"name": "c0", "group": "g", "topics": ["t0"], "assignors": ["range"], "auto_commit": ac,
                  "auto_commit_interval_ms": 300, "cb_delay": 0, "max_poll_interval_ms": 400, "heartbeat_interval_ms": 200,
                  "program": [["start"], ["consume", 0.3, 0.1, None, 0], ["sleep", idle], ["stop", 600.0, True]]}
            scs.append({"id": f"idle-leave-{j}-{int(ac)}", "seed": 90 + j, "brokers": 1, "topics": {"t0": 2},
                        "preload": {"t0": {"0": 3, "1": 0}}, "consumers": [c0], "cluster_events": [], "coordinator": 0,
                        "api_latency": {"LeaveGroup": 0.5}, "faults": {"apis": [], "plan": {}}, "max_vtime": 900.0,
                        "_cond": "idle-leave", "_group": True, "_t_stop": 0.3 + idle})
    rng_old = random.Random(ck.seed * 7121 + 1919)
    for i in range(ck.n(18, 200)):
        sc = conssim.old_broker(gen_consumer(rng_old, 700000 + i), rng_old)
        scs.append(sc)
    for sc in scs:
        sc["obs_cancel"] = True
    results = conssim.run_scenarios(scs, timeout=ck.n(900, 3000))
    bound = 4 * T_REQ + 1.5
    hist = {"cond": {}, "hang": 0, "failed_runs": 0, "leave_sent": 0}
    nbad = 0

    def viol(sc, what, extra=None):
        nonlocal nbad
        nbad += 1
        rp = {"scenario": sc, "what": what}
        rp.update(extra or {})
        ck.violation(f"{what} (scenario {sc['id']})", rp, signature=f"sim:{what[:80]}")
    close_cases = []
    for sc, r in zip(scs, results):
        hist["cond"][sc["_cond"]] = hist["cond"].get(sc["_cond"], 0) + 1
        for name, c in (r.get("consumers") or {}).items() if r.get("ok") else []:
            if c.get("stop_tasks") and c.get("stop"):
                raised = any(er.get("op") == "stop" for er in c.get("errors", []))
                actual = "Escaped" if raised else "Completed" if c["stop"].get("returned") else "Hung"
                close_cases.append((f"{sc['id']}/{name}", c["stop_tasks"], actual, sc))
        if not r.get("ok"):
            if "SimDeadlock" in r.get("error", ""):
                hist["hang"] += 1
                viol(sc, "stop() did not return (run exceeded the virtual time limit)",
                     {"stacks": r.get("stacks", [])[:12]})
            else:
                hist["failed_runs"] += 1
                ck.obligation(f"correspondence:simulation-ran:{sc['id']}", False, (r.get("error", "") + r.get("tb", ""))[-400:])
            continue
        ck.count(key=("c", sc["id"], sc["seed"]), nontrivial=sc["_cond"] != "healthy" or len(sc["consumers"]) > 1,
                 sample={"scenario": sc["id"], "cond": sc["_cond"], "stop": r["consumers"].get("c0", {}).get("stop")}
                 if sc["_cond"] in ("all_down", "coord_down") else None)
        all_stopped = all(c.get("stop") and not c.get("killed") for c in r["consumers"].values())
        for name, c in r["consumers"].items():
            st = c.get("stop")
            for er in c.get("errors", []):
                if er.get("op") == "stop":
                    viol(sc, f"stop() raised {er['exc']}", {"consumer": name, "error": er})
            if not st:
                continue
            if not st.get("returned"):
                viol(sc, "stop() did not return within 600 s", {"consumer": name})
            elif st["t"] > bound:
                viol(sc, f"stop() took {st['t']:.2f} s of virtual time, bound is {bound} s", {"consumer": name})
            later = c.get("after_stop_calls") or {}
            for api, res in later.items():
                if res in ("returned", "hang"):
                    viol(sc, f"{api}() after stop() did not fail with the stopped/closed error ({res})",
                         {"consumer": name, "calls": later})
        for name, c in r["consumers"].items():
            left = c.get("left_after_stop")
            if left and len(sc["consumers"]) == 1:
                if left["tasks"]:
                    viol(sc, "tasks of a stopped client are still alive", {"tasks": left["tasks"], "consumer": name})
                if left["transports"]:
                    viol(sc, "connections of a stopped client are still open", {"open": left["transports"]})
        # LeaveGroup: member of a generation, coordinator reachable at stop time
        if sc.get("_group") and sc["_cond"] == "healthy" and len(sc["consumers"]) == 1:
            joined = any(e["ev"] == "cb_assigned_begin" and e["c"] == "c0" for e in r["trace"])
            left = any(e["ev"] == "leave_request" for e in r["trace"])
            hist["leave_sent"] += left
            if joined and not left:
                viol(sc, "a member that could reach its coordinator did not leave the group on stop()")
    # producers
    pscs = [gen_producer(rng, i) for i in range(ck.n(40, 500))]
    # producers that met records rejected by the record builder (an empty batch was queued for them), or submitted an
    # empty BatchBuilder, before stop()
    rng_bad = random.Random(ck.seed * 7121 + 1920)
    for i in range(ck.n(16, 150)):
        sc = gen_producer(rng_bad, 800000 + i)
        sc["_cond"] = "rejected-" + sc["_cond"]
        n = 0
        for t in sc["tasks"]:
            for it in t:
                if "rid" in it and (rng_bad.random() < 0.3 or n == 0):
                    it["bad"] = rng_bad.choice(["str_value", "str_value", "str_key", "headers"])
                    n += 1
        pscs.append(sc)
    for sc in pscs:
        sc["obs_cancel"] = True
    pres = prodsim.run_scenarios(pscs, timeout=ck.n(600, 2400))
    for sc, r in zip(pscs, pres):
        hist["cond"]["producer-" + sc["_cond"]] = hist["cond"].get("producer-" + sc["_cond"], 0) + 1
        if not r.get("ok"):
            if "SimDeadlock" in r.get("error", ""):
                viol(sc, "producer stop() did not return (virtual time limit)")
            else:
                ck.obligation(f"correspondence:producer-simulation-ran:{sc['id']}", False, r.get("error", "")[:300])
            continue
        ck.count(key=("p", sc["id"], sc["seed"]), nontrivial=sc["_cond"] != "healthy")
        st = r.get("stop") or {}
        if r.get("stop_tasks"):
            close_cases.append((f"producer-{sc['id']}", r["stop_tasks"],
                                "Hung" if st.get("timeout") else "Escaped" if st.get("exc") else "Completed", sc))
        if st.get("timeout"):
            viol(sc, "producer stop() did not return within the limit")
        if r.get("pending_tasks"):
            viol(sc, "tasks of a stopped producer are still alive", {"tasks": r["pending_tasks"]})
        if r.get("open_transports"):
            viol(sc, "connections of a stopped producer are still open", {"open": r["open_transports"]})
        if r.get("after_stop_send") in ("returned", "hang"):
            viol(sc, f"send() after stop() did not fail with the closed error ({r.get('after_stop_send')})")
        if r.get("after_stop_send_batch") in ("returned", "hang"):
            viol(sc, f"send_batch() after stop() did not fail with the closed error ({r.get('after_stop_send_batch')})")
    close_correspondence(ck, close_cases)
    ck.extra["input_distribution"] = hist
    ck.obligation("correspondence:stop-paths-within-skeleton-bound", nbad == 0,
                  f"{nbad} stopping points violated the bound or left something running")
    ck.log(f"C19: {len(scs)} consumer runs, {len(pscs)} producer runs, violations {nbad}; {hist}")
