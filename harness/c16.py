"""C16 — Transactional API is a strict state machine with recoverable and fatal errors.

(1) proofs over model/C16_TxnApi.v; the transition table is the function TRANSLATED from
    TransactionState.is_transition_valid (gen/TxnTable.v) and is used by every transition of the model;
(2) correspondence: call programs (with faults on the transactional requests) on the REAL
    AIOKafkaProducer(transactional_id=...) under the deterministic simulator; per call the result
    (ok / exception class, raised by the call or by the send future), the requests that reached the
    simulated cluster, the TransactionManager state, partitions and group must equal the model
    evaluated inside Coq (vm_compute);
(3) independent monitors: the property stated in plain Python on the real results and on the
    simulated cluster's ground truth (no use of the model)."""
from __future__ import annotations

import concurrent.futures as cf
import itertools
import json
import os
import random
import re
import time

from common import NPROC, VERIF, Check, parse_coq_value, parse_eval_outputs, run_impl

CALLS = ["begin", "send0", "send1", "send_offsets", "commit", "abort", "ctx_ok", "ctx_exc",
         "send0_nowait", "send1_nowait"]
NCALLS = len(CALLS)
NW = (8, 9)
MAXIDX = 4
KINDS = [("error", 3), ("error", 7), ("error", 14), ("error", 15), ("error", 16), ("error", 29),
         ("error", 30), ("error", 45), ("error", 47), ("error", 48), ("error", 49), ("error", 51),
         ("error", 53), ("error", 2), ("drop_before", 0), ("drop_after", 0)]
NK = len(KINDS)
STATE_NUM = {"UNINITIALIZED": 1, "READY": 2, "IN_TRANSACTION": 3, "COMMITTING_TRANSACTION": 4,
             "ABORTING_TRANSACTION": 5, "ABORTABLE_ERROR": 6, "FATAL_ERROR": 7}
API_NUM = {"Produce": 0, "AddPartitionsToTxn": 24, "AddOffsetsToTxn": 25, "TxnOffsetCommit": 28,
           "EndTxn": 26, "FindCoordinator": 10}
FAULTABLE = ("AddPartitionsToTxn", "AddOffsetsToTxn", "TxnOffsetCommit", "EndTxn", "Produce")
HASH_P = 2305843009213693951

KNOWN_PRODUCE_FATAL = ("sender.py:SendProduceReqHandler.handle_response: a fatal-class error in a Produce "
                       "response fails only the batch; the transaction stays usable and commit_transaction() "
                       "succeeds")


# ------------------------------------------------------------------------------- encoding
def fault_num(idx, k):
    return 1 + idx * NK + k


def fault_of_num(n):
    if n == 0:
        return None
    idx, k = divmod(n - 1, NK)
    return [idx, KINDS[k][0], KINDS[k][1]]


def to_payload(pid, prog, brokers=1):
    faults = {}
    for i, (_, f) in enumerate(prog):
        if f:
            faults[str(i)] = fault_of_num(f)
    if any(c in NW for c, _ in prog):
        brokers = 1      # the model of nowait sends assumes one leader for both partitions
    out = {"id": pid, "calls": [CALLS[c] for c, _ in prog], "faults": faults, "brokers": brokers}
    # a quarter of the programs (chosen by their content) run against an older broker release that supports
    # transactions: the state machine does not depend on the request versions
    h = sum((i + 1) * (c * 31 + f) for i, (c, f) in enumerate(prog))
    if h % 4 == 0:
        from simkit import profiles
        name = profiles.TRANSACTIONAL[(h // 4) % len(profiles.TRANSACTIONAL)]
        out["api_ranges"] = profiles.api_ranges(name)
    return out


def exn_num(name, errno):
    if name == "IllegalOperation":
        return 1000
    if name == "AssertionError":
        return 1001
    if name == "ProducerFenced":
        return 1002
    if name == "KafkaError":
        return 1003
    return errno if isinstance(errno, int) else -1


def flat_real(res):
    """The real run's observation, flattened exactly like C16_TxnApi.flat_call."""
    out = []
    for c in res["calls"]:
        if c["result"] == "ok":
            out += [0, 0]
        else:
            out += [2 if c.get("phase") == "future" else 1, exn_num(c["exc"], c.get("errno"))]
        rq = c["requests"]
        out.append(len(rq) + (1000 if c["late_requests"] else 0))
        for api, args in rq:
            if api in ("Produce", "AddPartitionsToTxn"):
                out += [API_NUM[api], sum(1 << q for q in args)]
            else:
                out += [API_NUM.get(api, -1), args[0] if args else 0]
        out.append(STATE_NUM.get(c["state_after"], -1))
        out += [1 if 0 in c["txn_partitions"] else 0, 1 if 1 in c["txn_partitions"] else 0,
                1 if c["group_added"] else 0]
        se = c.get("stored_error")
        out.append(exn_num(se[0], se[1]) if se else 0)
        futs = c.get("futs") or {}
        for q in ("0", "1"):
            fu = futs.get(q)
            if fu is None:
                out += [0, 0]
            elif fu[0] == "ok":
                out += [3, 0]
            elif fu[0] == "exc":
                out += [2, exn_num(fu[1], fu[2])]
            else:
                out += [-1, -1]
    return out


def hash_list(l):
    h = 17
    for x in l:
        h = (h * 1000003 + x + 7) % HASH_P
    return h


def coq_prog(prog):
    return "[" + "; ".join(f"({c}, {f})" for c, f in prog) + "]"


# ------------------------------------------------------------------------------- running
def run_programs(progs, timeout=1800):
    """progs: list of (key, prog). Returns dict key -> result."""
    if not progs:
        return {}
    shards = min(NPROC, max(1, len(progs) // 50))
    chunks = [progs[i::shards] for i in range(shards)]
    out = {}

    def work(chunk):
        payload = {"programs": [to_payload(i, p, brokers=1 + (hash(k) % 2)) for i, (k, p) in enumerate(chunk)]}
        r = run_impl("c16_impl.py", payload, timeout, {"AIOKAFKA_NO_EXTENSIONS": "1"})
        return [(chunk[x["id"]][0], x) for x in r["results"]]
    with cf.ThreadPoolExecutor(max_workers=shards) as ex:
        for lst in ex.map(work, chunks):
            for k, x in lst:
                out[k] = x
    return out


# ------------------------------------------------------------------------------- monitors
ABORTABLE_AT = {("AddPartitionsToTxn", 29): "TopicAuthorizationFailedError",
                ("AddOffsetsToTxn", 30): "GroupAuthorizationFailedError",
                ("TxnOffsetCommit", 30): "GroupAuthorizationFailedError"}
FATAL_CODES = (45, 47, 53)
COORD = ("AddPartitionsToTxn", "AddOffsetsToTxn", "TxnOffsetCommit", "EndTxn")


def fault_class(api, fault):
    """What the property text says about this fault at this request: 'abortable' / 'fatal' /
    'retriable' / None (not specified by the property)."""
    kind, code = fault["kind"], fault["code"]
    if kind in ("drop_before", "drop_after"):
        return "retriable"
    if (api, code) in ABORTABLE_AT:
        return "abortable"
    if code in FATAL_CODES:
        return "fatal"
    if api in COORD and code in (14, 15, 16):
        return "retriable"
    if api in ("AddPartitionsToTxn", "AddOffsetsToTxn", "EndTxn") and code == 51:
        return "retriable"
    if api == "Produce" and code in (3, 7):
        return "retriable"
    return None


def allowed(ref, call):
    if call == "begin":
        return ref == "ready"
    if call in ("send0", "send1", "send_offsets", "send0_nowait", "send1_nowait"):
        return ref == "in_txn"
    if call in ("commit", "ctx_ok"):
        return ref == "in_txn"       # in 'abortable' commit is refused with the stored error
    if call in ("abort", "ctx_exc"):
        return ref in ("in_txn", "abortable")
    return False


def cluster_view(c):
    return (json.dumps(c["coord"], sort_keys=True), tuple(c["log_sizes"]))


def client_view(c):
    """The producer's own transactional state after the call, including the error kept for commit."""
    return (c["state_after"], tuple(c["txn_partitions"]), c["group_added"], json.dumps(c.get("stored_error")))


def monitor(ck, prog, res, stats):
    """The property, on the real results and the simulated cluster, without the model."""
    ref = "ready"
    abort_exc = None
    fatal = None            # (api, code) of the fatal fault delivered
    prev_view = None
    unspecified = False
    outstanding = False     # nowait sends whose futures have not been awaited
    for i, c in enumerate(res["calls"]):
        name = c["call"]
        view = cluster_view(c)
        sent = c["requests"] + c["late_requests"]
        is_nw = name.endswith("_nowait")
        is_end = name in ("commit", "abort", "ctx_ok", "ctx_exc")
        pend = outstanding
        await_first = pend and not is_end and not is_nw      # the futures are awaited before this call
        if not is_nw:
            outstanding = False
        futs = c.get("futs") or {}
        fut_excs = [v[1] for v in futs.values() if v[0] != "ok"]

        def viol(what, sig=None):
            stats["violations"] = stats.get("violations", 0) + 1
            key = sig or what
            stats.setdefault("by_sig", {})
            stats["by_sig"][key] = stats["by_sig"].get(key, 0) + 1
            if stats["by_sig"][key] <= 3:
                ck.violation(f"{what} (program {[CALLS[a] for a, _ in prog]}, faults "
                             f"{ {j: fault_of_num(f) for j, (_, f) in enumerate(prog) if f} }, call #{i} {name})",
                             {"program": to_payload(0, prog), "call_index": i, "what": what,
                              "calls": [{k: v for k, v in x.items() if k in (
                                  "call", "result", "exc", "phase", "requests", "late_requests", "state_before",
                                  "state_after", "coord", "log_sizes", "faulted", "futs", "stored_error")} for x in res["calls"]]},
                             signature=key)
        if unspecified:
            return
        delivered = [(a, f) for a, f in c["faulted"]]
        if fatal is not None:
            failed = c["result"] == "exc" or (name == "ctx_exc" and not c.get("suppressed"))
            sig = KNOWN_PRODUCE_FATAL if fatal[0] == "Produce" else f"fatal-not-absorbing:{fatal[0]}:{fatal[1]}"
            if not failed:
                viol(f"after the fatal error {fatal[1]} on {fatal[0]} the call {name} returned normally", sig)
            if sent:
                viol(f"after the fatal error {fatal[1]} on {fatal[0]} the client still sent {sent}", sig)
            if prev_view is not None and view != prev_view:
                viol(f"after the fatal error {fatal[1]} on {fatal[0]} the cluster state still changed", sig)
            prev_view = view
            continue
        if await_first:
            # the outstanding sends are awaited first: their error, if any, surfaces now and the
            # call is made in the state it leaves behind
            stats["await_first_calls"] = stats.get("await_first_calls", 0) + 1
            classes = [fault_class(a, f) for a, f in delivered]
            if any(k is None for k in classes):
                stats["unspecified_faults"] = stats.get("unspecified_faults", 0) + 1
                unspecified = True
                continue
            if "fatal" in classes:
                a, f = delivered[classes.index("fatal")]
                fatal = (a, f["code"])
                stats["fatal_faults"] = stats.get("fatal_faults", 0) + 1
                if c["result"] != "exc" and not fut_excs:
                    viol(f"the fatal error {f['code']} on {a} arrived but neither {name} nor an awaited send "
                         f"future failed", KNOWN_PRODUCE_FATAL if a == "Produce" else f"fatal-not-reported:{a}:{f['code']}")
                prev_view = view
                continue
            if "abortable" in classes:
                a, f = delivered[classes.index("abortable")]
                abort_exc = ABORTABLE_AT[(a, f["code"])]
                stats["abortable_faults"] = stats.get("abortable_faults", 0) + 1
                if c["result"] != "exc" or (c.get("exc") != abort_exc and abort_exc not in fut_excs):
                    viol(f"the abortable error {abort_exc} arrived but was reported neither by {name} nor by an "
                         f"awaited send future: {c['result']} {c.get('exc')} futs {futs}", "abortable-not-reported")
                ref = "abortable"
                prev_view = view
                continue
            if fut_excs:
                viol(f"a nowait send future failed with {fut_excs} although only retriable faults {delivered} "
                     f"occurred", "nowait-future-failed")
        if not allowed(ref, name):
            stats["illegal_calls"] = stats.get("illegal_calls", 0) + 1
            if ref == "abortable" and name in ("commit", "ctx_ok"):
                if c["result"] != "exc" or c.get("exc") != abort_exc:
                    viol(f"after the abortable error commit did not raise {abort_exc}: {c['result']} {c.get('exc')}",
                         "abortable-commit-does-not-raise")
            elif c["result"] != "exc":
                viol(f"call {name} out of protocol order (state {ref}) did not raise", "illegal-call-accepted")
            if sent and not pend:
                viol(f"call {name} out of protocol order (state {ref}) sent {sent}", "illegal-call-has-effect")
            if prev_view is not None and view != prev_view and not pend:
                viol(f"call {name} out of protocol order (state {ref}) changed the cluster",
                     "illegal-call-has-effect")
            if i > 0 and not pend and client_view(c) != client_view(res["calls"][i - 1]):
                viol(f"call {name} out of protocol order (state {ref}) changed the producer's transactional state: "
                     f"{client_view(res['calls'][i - 1])} -> {client_view(c)}", "illegal-call-has-effect")
            prev_view = view
            continue
        stats["legal_calls"] = stats.get("legal_calls", 0) + 1
        classes = [fault_class(a, f) for a, f in delivered]
        if any(k is None for k in classes):
            stats["unspecified_faults"] = stats.get("unspecified_faults", 0) + 1
            unspecified = True
            continue
        if "fatal" in classes:
            a, f = delivered[classes.index("fatal")]
            fatal = (a, f["code"])
            stats["fatal_faults"] = stats.get("fatal_faults", 0) + 1
            if c["result"] != "exc":
                viol(f"the call during which the fatal error {f['code']} on {a} arrived returned normally",
                     KNOWN_PRODUCE_FATAL if a == "Produce" else f"fatal-not-reported:{a}:{f['code']}")
            prev_view = view
            continue
        if "abortable" in classes:
            a, f = delivered[classes.index("abortable")]
            abort_exc = ABORTABLE_AT[(a, f["code"])]
            stats["abortable_faults"] = stats.get("abortable_faults", 0) + 1
            if c["result"] != "exc" or c.get("exc") != abort_exc:
                viol(f"{name} did not fail with {abort_exc} although that abortable error arrived: "
                     f"{c['result']} {c.get('exc')}", "abortable-not-reported")
            if a == "AddPartitionsToTxn":
                refused = set(next((x for api, x in c["requests"] if api == "AddPartitionsToTxn"), []))
                if any(api == "Produce" and refused & set(x) for api, x in sent):
                    viol(f"the batch waiting for the partition that could not be added was produced: {sent}",
                         "abortable-batch-produced")
                if any(futs.get(str(q), ["exc"])[0] == "ok" for q in refused):
                    viol(f"a send to the partition that could not be added was reported as delivered: {futs}",
                         "abortable-batch-reported-ok")
            ref = "abortable"
            prev_view = view
            continue
        # no fault, or only faults the client has to ride out: the call must succeed
        if c["result"] != "ok":
            viol(f"call {name} in protocol order (state {ref}) failed with {c.get('exc')} "
                 f"although only retriable faults {delivered} occurred", "legal-call-refused")
            return
        if fut_excs and not await_first:
            viol(f"a nowait send future failed with {fut_excs} although only retriable faults {delivered} "
                 f"occurred", "nowait-future-failed")
        if is_nw:
            outstanding = True
        if name == "begin":
            ref = "in_txn"
        elif name in ("commit", "abort", "ctx_ok", "ctx_exc"):
            # whatever way the transaction ended, the coordinator must not keep it open
            if (c.get("coord") or {}).get("state") == "Ongoing":
                viol(f"{name} returned but the coordinator still has the transaction open: {c['coord']}",
                     "ended-but-coordinator-ongoing")
            ref = "ready"
            abort_exc = None
        prev_view = view


# ------------------------------------------------------------------------------- check
def check_table(ck, table):
    body = ("Eval vm_compute in (map (fun s => map (fun t => table s t) tst_all) tst_all).\n"
            "Eval vm_compute in (map (fun s => map (fun t => table_py s t) tst_all) tst_all).\n")
    ok, out = ck.coq_eval("c16_table", ["Imp", "TxnTable", "C16_TxnApi"], body)
    agree = False
    detail = out[-300:]
    if ok:
        vals = [parse_coq_value(v) for v in parse_eval_outputs(out)]
        agree = len(vals) == 2 and vals[0] == table["rows"] and vals[1] == table["rows"] \
            and table["values"] == [1, 2, 3, 4, 5, 6, 7]
        detail = "" if agree else f"coq {vals[:1]} vs python {table['rows']}"
    ck.obligation("correspondence:translated-transition-table-vs-python", agree, detail)
    for a in range(7):
        for b in range(7):
            ck.count(key=("table", a, b), nontrivial=True)


def run(ck: Check):
    ck.trusted += [
        "Coq 8.16.1 kernel; vm_compute for the finite sweeps (state x call x fault table) and program replay",
        "translator/py2gallina.py for TransactionState.is_transition_valid (validated per run: all 49 "
        "entries against the real classmethod)",
        "the simulated cluster (harness/simkit) as the environment answering the transactional requests; "
        "fault injection by request position within a call",
        "model/C16_TxnApi.v is hand-written from transaction_manager.py / producer.py / sender.py; tied to "
        "the code by per-call agreement (result, requests, state) on every program run",
        "calls are awaited one after the other (send = send() + await its future), except the nowait sends "
        "(send0_nowait / send1_nowait: the delivery future is kept and awaited when the next commit / abort / "
        "context exit has returned or raised, or right before any other call that is not a nowait send), which put "
        "the registration and the Produce of a batch into COMMITTING / ABORTING; programs with nowait sends run on "
        "a one-broker cluster (one leader for both partitions); send_offsets_to_transaction is always awaited; "
        "other concurrency between API calls is not in the model: send() calls parked in the accumulator (or batches "
        "submitted through send_batch()) while commit_transaction() / abort_transaction() runs are exercised on C07's "
        "driver and judged by monitors stating C16's clauses on the simulated cluster (stage 'concurrent sends')",
        "model/C16_TxnApi.v spec_must / spec_may: the hand-written table of required / permitted transitions "
        "(KIP-98, Java TransactionManager.State.isTransitionValid, order of requests in aiokafka's sender)",
    ]
    ck.cov["rule"] = ("one evaluation = one program (sequence of calls over {begin, send(p0), send(p1), "
                      "send_offsets_to_transaction, commit, abort, context exit with/without exception, "
                      "send(p0)/send(p1) without awaiting the delivery future} with "
                      "0-2 faults {14 error codes, connection drop before/after apply} placed on the i-th "
                      "(i < 4) transactional request of a call) run on the real producer and on the model; "
                      "non-trivial = at least one transactional request reached the cluster; distinct by "
                      "(calls, faults)")
    import c16_dispatch
    ok_t, _ = ck.regenerate(["TxnTable"])
    c16_dispatch.regenerate(ck)
    ok_p, _ = ck.coq_props("C16")
    c16_dispatch.check_txn_dispatch(ck)
    ck.log(f"translation ok={ok_t}, proofs ok={ok_p} ({time.time() - ck.t0:.0f}s)")

    rng = random.Random(ck.seed * 104729 + 16)
    # ---- stage 1: fault-free programs, exhaustive up to length L0
    L0 = ck.n(4, 5)
    base = []
    for L in range(1, L0 + 1):
        for cs in itertools.product(range(NCALLS), repeat=L):
            base.append(tuple((c, 0) for c in cs))
    table = run_impl("c16_impl.py", {"programs": [], "table": True}, env={"AIOKAFKA_NO_EXTENSIONS": "1"})["table"]
    check_table(ck, table)
    res1 = run_programs([(p, p) for p in base])
    # ---- stage 2: every single fault at every existing request position (programs up to L1),
    #               sampled beyond
    L1 = ck.n(3, 4)
    faulted = []
    for p in base:
        r = res1.get(p)
        if not r or not r.get("ok"):
            continue
        for i, c in enumerate(r["calls"]):
            nf = sum(1 for a, _ in c["requests"] if a in FAULTABLE)
            for idx in range(min(nf, MAXIDX)):
                for k in range(NK):
                    q = list(p)
                    q[i] = (q[i][0], fault_num(idx, k))
                    faulted.append(tuple(q))
    short = [p for p in faulted if len(p) <= L1]
    longer = [p for p in faulted if len(p) > L1]
    rng.shuffle(longer)
    progs2 = short + longer[:ck.n(2500, 60000)]
    # ---- stage 3: longer programs: recovery after an abortable error, everything after a fatal one,
    #               random programs of length 5-6 with one or two faults
    scripted = []
    for pre in ([0], [0, 1], [0, 2, 3]):
        for (call, idx, k) in ((1, 0, 5), (2, 0, 5), (3, 0, 6), (3, 1, 6)):
            for tail in ([4, 5, 0, 1, 4], [6, 7, 0, 2, 3, 6], [1, 5, 0, 3, 4], [0, 3, 7, 0, 1, 5]):
                scripted.append(tuple([(c, 0) for c in pre] + [(call, fault_num(idx, k))] + [(c, 0) for c in tail]))
    for pre in ([0], [0, 1], [0, 3]):
        for (call, idx) in ((1, 0), (1, 1), (2, 0), (3, 0), (3, 1), (4, 0), (5, 0)):
            for k in (7, 8, 12):
                for tail in ([0, 1, 3, 4], [5, 7, 6, 2], [4, 0, 1, 4]):
                    scripted.append(tuple([(c, 0) for c in pre] + [(call, fault_num(idx, k))] + [(c, 0) for c in tail]))
    witness = ((0, 0), (1, fault_num(1, 7)), (4, 0))
    scripted.append(witness)
    # nowait sends: partitions registered before or not, one or both outstanding, then every call with
    # every fault position (a selection of fault kinds in the quick tier), then recovery
    nw_pre = ck.n([[0], [0, 1], [0, 3]], [[0], [0, 1], [0, 2], [0, 1, 2], [0, 3]])
    nw_sets = ck.n([[8], [9], [8, 9], [8, 8]], [[8], [9], [8, 9], [9, 8], [8, 8]])
    nw_kinds = ck.n([2, 3, 5, 6, 7, 8, 14], list(range(NK)))
    for pre in nw_pre:
        for nw in nw_sets:
            for nxt in range(8):
                head = [(c, 0) for c in pre + nw]
                tail = [(c, 0) for c in (5, 0, 1, 2, 4)]
                scripted.append(tuple(head + [(nxt, 0)] + tail))
                for idx in range(MAXIDX):
                    for k in nw_kinds:
                        scripted.append(tuple(head + [(nxt, fault_num(idx, k))] + tail))
    # the abortable error while the transaction is being ended (theorem c16_abortable_while_ending)
    nw_witness = ((0, 0), (8, 0), (4, fault_num(0, 5)), (4, 0), (5, 0), (0, 0), (1, 0), (4, 0))
    scripted.append(nw_witness)
    for _ in range(ck.n(800, 30000)):
        L = rng.choice([5, 6])
        # biased towards protocol order so that requests actually happen
        p = []
        inside = False
        for _j in range(L):
            if rng.random() < 0.75:
                c = rng.choice([1, 2, 3, 8, 9, 8, 9, 4, 5, 6, 7]) if inside else 0
            else:
                c = rng.randrange(NCALLS)
            inside = (c == 0) or (inside and c in (1, 2, 3, 8, 9))
            p.append([c, 0])
        for _j in range(rng.choice([1, 1, 2])):
            p[rng.randrange(L)][1] = fault_num(rng.choice([0, 0, 1, 1, 2, 3]), rng.randrange(NK))
        scripted.append(tuple((a, b) for a, b in p))
    todo = list(dict.fromkeys(progs2 + scripted))
    res2 = run_programs([(p, p) for p in todo])
    results = dict(res1)
    results.update(res2)
    allp = list(dict.fromkeys(base + todo))
    ck.log(f"ran {len(allp)} programs on the real producer ({len(base)} fault-free exhaustive <= {L0} calls, "
           f"{len(short)} single-fault exhaustive <= {L1} calls, {len(todo) - len(short)} sampled/scripted) "
           f"({time.time() - ck.t0:.0f}s)")

    # ---- monitors + flatten
    stats = {}
    failed_runs = 0
    hist = {"len": {}, "fault_kinds": {}, "results": {}}
    real_hash = {}
    for p in allp:
        r = results.get(p)
        if not r or not r.get("ok"):
            failed_runs += 1
            if failed_runs <= 3:
                ck.obligation(f"correspondence:simulation-ran:{[CALLS[a] for a, _ in p]}", False,
                              (r or {}).get("error", "no result")[:300])
            continue
        monitor(ck, p, r, stats)
        flat = flat_real(r)
        real_hash[p] = (hash_list(flat), flat)
        nreq = sum(len(c["requests"]) for c in r["calls"])
        hist["len"][len(p)] = hist["len"].get(len(p), 0) + 1
        for _, f in p:
            if f:
                kd = KINDS[(f - 1) % NK]
                key = kd[0] if kd[0] != "error" else f"error{kd[1]}"
                hist["fault_kinds"][key] = hist["fault_kinds"].get(key, 0) + 1
        for c in r["calls"]:
            key = c["result"] if c["result"] == "ok" else c["exc"]
            hist["results"][key] = hist["results"].get(key, 0) + 1
        ck.count(key=p, nontrivial=nreq > 0,
                 sample={"calls": [CALLS[a] for a, _ in p],
                         "faults": {i: fault_of_num(f) for i, (_, f) in enumerate(p) if f},
                         "real": [[c["call"], c["result"], c.get("exc"), c["requests"], c["state_after"]]
                                  for c in r["calls"]]}
                 if len(p) >= 5 and any(f for _, f in p) and nreq > 3 else None)
    ck.obligation("correspondence:all-programs-ran", failed_runs == 0, f"{failed_runs} programs failed to run")
    ck.extra["input_distribution"] = hist
    ck.extra["monitor"] = {k: v for k, v in stats.items()}
    ck.log(f"monitors: {stats} ({time.time() - ck.t0:.0f}s)")

    # ---- the model, inside Coq
    keys = [p for p in allp if p in real_hash]
    per = 4000
    bodies = []
    for i in range(0, len(keys), per):
        chunk = keys[i:i + per]
        bodies.append("Eval vm_compute in (map replay_hash [" + ";\n ".join(coq_prog(p) for p in chunk) + "]).\n")
    outs = ck.coq_eval_sharded("c16_progs", ["Imp", "TxnTable", "C16_TxnApi"], bodies, timeout=1200)
    mism = []
    coq_fail = 0
    for ci, (okc, out) in enumerate(outs):
        chunk = keys[ci * per:(ci + 1) * per]
        vals = [int(x) for x in re.findall(r"-?\d+", " ".join(parse_eval_outputs(out)))] if okc else []
        if not okc or len(vals) != len(chunk):
            coq_fail += 1
            continue
        for p, v in zip(chunk, vals):
            if v != real_hash[p][0]:
                mism.append(p)
    detail = ""
    if mism:
        show = mism[:6]
        body = "".join(f"Eval vm_compute in (replay_flat {coq_prog(p)}).\n" for p in show)
        okd, outd = ck.coq_eval("c16_detail", ["Imp", "TxnTable", "C16_TxnApi"], body)
        mv = [parse_coq_value(v) for v in parse_eval_outputs(outd)] if okd else []
        parts = []
        for p, m in zip(show, mv):
            r = results[p]
            parts.append(f"program {[CALLS[a] for a, _ in p]} faults "
                         f"{ {i: fault_of_num(f) for i, (_, f) in enumerate(p) if f} }: model {m} real "
                         f"{real_hash[p][1]} calls "
                         f"{[[c['call'], c['result'], c.get('exc'), c.get('phase'), c.get('futs'), c['requests'], c['late_requests'], c['state_after']] for c in r['calls']]}")
        detail = f"{len(mism)} programs differ; " + " || ".join(parts)
    ck.obligation("correspondence:real-producer-equals-model-on-every-program",
                  not mism and coq_fail == 0, detail or f"{coq_fail} case files failed to evaluate")
    ck.cov["programs_validated_against_impl"] = len(keys) - len(mism)
    # the refutation witness of c16_fatal_classes_refuted, on the real code
    rw = results.get(witness)
    wit_ok = bool(rw and rw.get("ok") and [(c["result"], c.get("exc")) for c in rw["calls"]] ==
                  [("ok", None), ("exc", "OutOfOrderSequenceNumber"), ("ok", None)]
                  and rw["calls"][2]["requests"] == [["EndTxn", [1]]] and witness not in mism)
    ck.obligation("correspondence:refutation-witness-replayed-on-real-code", wit_ok,
                  "" if wit_ok else f"witness run: {rw and rw.get('calls')}")
    # c16_run_example_nowait on the real code: the abortable error arrives while COMMITTING
    rn = results.get(nw_witness)
    nw_ok = bool(rn and rn.get("ok") and [(c["result"], c.get("exc")) for c in rn["calls"]] ==
                 [("ok", None), ("ok", None), ("exc", "TopicAuthorizationFailedError"),
                  ("exc", "TopicAuthorizationFailedError"), ("ok", None), ("ok", None), ("ok", None), ("ok", None)]
                 and rn["calls"][2]["state_before"] == "IN_TRANSACTION"
                 and rn["calls"][2]["requests"] == [["AddPartitionsToTxn", [0]]]
                 and (rn["calls"][2].get("futs") or {}).get("0", [None])[0] == "exc"
                 and nw_witness not in mism)
    ck.obligation("correspondence:abortable-error-while-committing-replayed-on-real-code", nw_ok,
                  "" if nw_ok else f"run: {rn and [[c['call'], c['result'], c.get('exc'), c.get('futs'), c['requests'], c['state_after']] for c in rn.get('calls', [])]}")
    ck.log(f"model agreement: {len(keys)} programs, {len(mism)} differ, {coq_fail} coq failures")
    check_concurrent_sends(ck)


def check_concurrent_sends(ck):
    """Calls that overlap: send() tasks parked in the accumulator (full batch in front of them) while the
    application calls commit_transaction() / abort_transaction(), on the real producer under the simulator
    (C07's driver and scenario family; the monitors below are C16's clauses in plain Python):
      - a record is accepted into a batch only while the TransactionManager is IN_TRANSACTION;
      - a send() that raised had no effect on the cluster (its record is in no partition log);
      - every record reaches its partition while the transaction it was sent in is open."""
    import c07
    rng = random.Random(ck.seed * 7919 + 1616)
    scs = []
    sid = 160000
    for _ in range(ck.n(2, 20)):
        shape = rng.randrange(1 << 30)
        for ea in c07.PARKED_END_AFTER:
            scs.append(c07.gen_parked_scenario(random.Random(shape), sid, ea))
            sid += 1
    for ca in (0.002, 0.02):
        for end in ("commit", "abort"):
            scs.append(c07.gen_batch_api_scenario(rng, sid, ca, end))
            sid += 1
    # a fatal reply to a transactional request (INVALID_PRODUCER_EPOCH / TRANSACTIONAL_ID_AUTHORIZATION_FAILED at
    # AddPartitionsToTxn of a second partition) while a batch of the first partition sits in the Produce handler's retry
    # back-off: "after a fatal error every pending send fails" - also the one that is neither queued nor on the wire
    for backoff in (300, 600):
        for code in (47, 53):
            for dt in (0.03, 0.08, 0.15):
                for pcode in (7, 5):
                    first = {"tasks": [[{"p": 0, "sleep": 0, "n": 1}], [{"p": 1, "sleep": dt, "n": 1}]],
                             "offsets": None, "await_sends": False, "end": "commit", "pause": 0, "end_after": 1.2}
                    sc = {"id": sid, "seed": sid, "brokers": 1, "partitions": 2, "marker_delay": 0.0, "linger_ms": 0,
                          "max_batch_size": 16384, "request_timeout_ms": 2000, "retry_backoff_ms": backoff,
                          "txn_coord": 0, "group_coord": 0, "instances": [{"start_at": 0.0, "txns": [first]}],
                          "faults": {"Produce:1": c07.mk_fault("error", pcode),
                                     "AddPartitionsToTxn:2": c07.mk_fault("error", code)},
                          "moves": {}, "loading": {}, "kills": [], "quiet": 8.0, "run_within": 60.0,
                          "family": "fatal-during-produce-backoff"}
                    c07.number_offsets(sc)
                    scs.append(sc)
                    sid += 1
    results = c07.run_scenarios(scs, timeout=900)
    nbad = {}
    ran = 0
    parked_resumed = 0

    def viol(sig, what, sc, r):
        nbad[sig] = nbad.get(sig, 0) + 1
        if nbad[sig] <= 3:
            ck.violation(f"{what} (scenario {sc['id']}, family {sc.get('family')})",
                         {"driver": "c07_impl.py", "scenario": sc, "what": what, "txns": r["txns"],
                          "sends": r["sends"]}, signature="concurrent-sends:" + sig)

    for sc, r in zip(scs, results):
        if not r.get("ok"):
            continue
        ran += 1
        if sc.get("family") == "fatal-during-produce-backoff":
            stuck = [sd["rid"] for sd in r["sends"] if sd.get("state") == "pending"]
            fatal = any(i.get("state") == "FATAL_ERROR" for i in r.get("instances", []))
            if stuck or r.get("unfinished"):
                viol("send-unresolved-after-fatal-error",
                     f"send futures of records {stuck} are still unresolved {sc['quiet']} s after the producer "
                     f"{'entered FATAL_ERROR' if fatal else 'met the fatal reply'} (unfinished application tasks: "
                     f"{r.get('unfinished')})", sc, r)
            ck.count(key=("fatal-backoff", sc["id"]), nontrivial=fatal)
            continue
        out_of_state = [(e["rid"], e["txn_state"]) for e in r["trace"]
                        if e["ev"] == "c_accept" and e.get("txn_state") not in (None, "IN_TRANSACTION")]
        if out_of_state:
            viol("accepted-out-of-state", f"records accepted into a batch while the transaction manager was not "
                 f"IN_TRANSACTION: {out_of_state}", sc, r)
        refused = {sd["rid"] for sd in r["sends"] if sd.get("state") == "refused"}
        parked_resumed += len(refused)
        written = sorted(rid for p in range(sc["partitions"]) for b in r["logs"][str(p)]["batches"]
                         if not b["control"] for rid in b["rids"] if rid in refused)
        if written:
            viol("refused-send-written", f"send() raised for records {written}, yet they were written to the log",
                 sc, r)
        t_begin, iv = {}, {}
        for e in r["trace"]:
            if e["ev"] == "app_begin":
                t_begin[(e["inst"], e["k"])] = e["t"]
            elif e["ev"] in ("app_commit_ok", "app_abort_ok"):
                iv[(e["inst"], e["k"])] = (t_begin.get((e["inst"], e["k"])), e["t"])
        rid_txn = {rid: (t["inst"], t["k"]) for t in r["txns"] for rid, _ in t["items"]}
        for p in range(sc["partitions"]):
            for a in r["logs"][str(p)]["arrivals"]:
                if a.get("verdict") != "appended":
                    continue
                for rid in a.get("rids", []):
                    i2 = iv.get(rid_txn.get(rid))
                    if rid not in rid_txn and rid not in refused:
                        viol("stray-record", f"record {rid} was written but belongs to no accepted send", sc, r)
                    elif i2 and i2[0] is not None and not (i2[0] <= a["t"] <= i2[1]):
                        viol("write-outside-txn", f"record {rid} reached its partition at {a['t']}, outside its "
                             f"transaction {i2}", sc, r)
        ck.count(key=("concurrent", json.dumps(sc["instances"], sort_keys=True), sc["max_batch_size"]),
                 nontrivial=bool(refused) or any(t["items"] for t in r["txns"]))
    ck.obligation("correspondence:concurrent-send-scenarios-ran", ran == len(scs),
                  f"{len(scs) - ran} of {len(scs)} scenarios failed to run")
    ck.extra["concurrent_sends"] = {"scenarios": len(scs), "sends_refused_after_parking": parked_resumed,
                                    "violations": nbad}
    ck.log(f"concurrent sends: {len(scs)} scenarios, {parked_resumed} parked sends refused, violations {nbad}")


def replay(ck: Check, path):
    rp = json.load(open(path))
    if rp["replay"].get("driver") == "c07_impl.py":
        import c07
        r = c07.run_scenarios([rp["replay"]["scenario"]])[0]
        print(json.dumps({k: r.get(k) for k in ("ok", "txns", "sends")}, indent=1)[:6000])
        return 0
    pr = rp["replay"]["program"]
    r = run_impl("c16_impl.py", {"programs": [dict(pr, keep_trace=True)]}, env={"AIOKAFKA_NO_EXTENSIONS": "1"})
    print(json.dumps(r["results"][0], indent=1)[:6000])
    return 0
