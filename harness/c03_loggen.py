"""Log generation for the consumer simulations of C03 / C13.

Two halves:
  * `gen_log(rng, ...)`  (harness side)  -> JSON list of log operations for one partition;
  * `apply_op(cluster, topic, p, op)`  (impl side, inside the simulated process) -> appends the
    bytes to the simulated partition log with `cluster.append_raw` + `refcodec.build_v2` /
    `refcodec.control_batch` (or hand-built legacy message sets) and maintains the leader's
    transaction state (open transactions -> LSO, aborted-transaction index);
  * `ground_truth(lg, iso)` (impl side): the log as the model sees it — batches
    (base, last, offsets of the records a consumer at this isolation level is entitled to
    see), computed from the refcodec-parsed simulated log only.

Operations
  {"k": "data", "n": span, "kept": [deltas] | None, "pid": int, "txn": bool, "gzip": bool}
        a v2 batch spanning n offsets; kept = offset deltas of the records still present
        (compaction holes; [] = an empty batch kept by the cleaner is not representable in v2
        bytes without a record count 0 — we write count 0); None = whole batch removed (hole)
  {"k": "marker", "pid": int, "commit": bool}            end-transaction control batch
  {"k": "legacy", "magic": 0|1, "n": count, "gzip": bool}  v0/v1 messages: n plain messages,
        or one gzip wrapper holding n messages
Every op may carry "at": seconds after consumer start (absent = pre-populated).
"""
from __future__ import annotations

import gzip as _gzip
import struct

from simkit import refcodec


def rec_key(p, off):
    return b"k%d-%d" % (p, off)


def rec_value(p, off):
    return b"v%d-%d|" % (p, off) + b"x" * (off % 7)


# ------------------------------------------------------------------------------------ generator
def gen_log(rng, n_ops, txn=True, compaction=True, gzip=True, legacy=False, late_frac=0.0,
            late_span=3.0, open_tail=False):
    """A random op list.  Transactions of up to 2 concurrent producers, interleaved with plain
    batches; every transaction is ended (commit/abort) unless open_tail."""
    ops = []
    open_pids = []
    pids = [5, 7]
    if legacy:
        for _ in range(n_ops):
            ops.append({"k": "legacy", "magic": rng.choice([0, 1]), "n": rng.choice([1, 1, 2, 3, 4]),
                        "gzip": rng.random() < 0.5})
    else:
        for _ in range(n_ops):
            r = rng.random()
            if txn and open_pids and r < 0.22:
                pid = rng.choice(open_pids)
                open_pids.remove(pid)
                ops.append({"k": "marker", "pid": pid, "commit": rng.random() < 0.5})
                continue
            n = rng.choice([1, 1, 2, 2, 3, 4, 6])
            kept = list(range(n))
            if compaction:
                m = rng.random()
                if m < 0.25:
                    kept = [d for d in kept if rng.random() < 0.55]
                elif m < 0.32:
                    kept = None
                elif m < 0.40:
                    kept = kept[:-1]          # the LAST record removed: next_offset matters
            op = {"k": "data", "n": n, "kept": kept, "pid": -1, "txn": False,
                  "gzip": gzip and rng.random() < 0.3}
            if txn and r > 0.55:
                cand = [p for p in pids if p in open_pids] or []
                if len(open_pids) < 2 and rng.random() < 0.6:
                    cand = cand + [p for p in pids if p not in open_pids][:1]
                if cand:
                    pid = rng.choice(cand)
                    if pid not in open_pids:
                        open_pids.append(pid)
                    op["pid"], op["txn"] = pid, True
            elif rng.random() < 0.2:
                op["pid"] = 11                 # idempotent, not transactional
            ops.append(op)
        if not open_tail:
            for pid in list(open_pids):
                ops.append({"k": "marker", "pid": pid, "commit": rng.random() < 0.5})
    # the tail of a log is never cleaned (active segment): no removed batch at the very end
    while ops and ops[-1]["k"] == "data" and ops[-1].get("kept") is None:
        ops[-1]["kept"] = [0]
    # some of the tail arrives while the consumer runs
    n_late = int(len(ops) * late_frac)
    if n_late:
        t = 0.0
        for op in ops[len(ops) - n_late:]:
            t += rng.choice([0.01, 0.05, 0.2, 0.5]) * late_span / 3.0
            op["at"] = round(t, 4)
    return ops


# ------------------------------------------------------------------------------------ builder
def _legacy_msg(offset, magic, ts, key, value, attrs=0):
    return refcodec.build_legacy_msg(offset, magic, ts, key, value, attrs=attrs)


def apply_op(cluster, topic, p, op):
    """Append one op to the simulated log of (topic, p).  Returns the refcodec.Batch appended
    (None for a hole)."""
    lg = cluster.log(topic, p)
    k = op["k"]
    if k == "data":
        n = op["n"]
        base = lg.next_offset
        if op.get("kept") is None:
            lg.next_offset = base + n          # the cleaner removed the whole batch
            if op.get("txn") and op["pid"] not in lg.open_txn:
                lg.open_txn[op["pid"]] = base
            return None
        kept = op["kept"]

        def mk(base_offset):
            recs = [(d, 1000 + base_offset + d, rec_key(p, base_offset + d), rec_value(p, base_offset + d),
                     [("h", b"%d" % (base_offset + d))] if (base_offset + d) % 3 == 0 else [])
                    for d in kept]
            raw = refcodec.build_v2(base_offset, recs, pid=op.get("pid", -1),
                                    epoch=0 if op.get("pid", -1) >= 0 else -1,
                                    base_seq=0 if op.get("pid", -1) >= 0 else -1,
                                    transactional=bool(op.get("txn")), codec=1 if op.get("gzip") and recs else 0)
            # the last offset delta is kept by compaction: patch it to n - 1 (+ crc)
            return _set_last_delta(raw, n - 1)
        b = cluster.append_raw(topic, p, mk)
        if op.get("txn") and op["pid"] not in lg.open_txn:
            lg.open_txn[op["pid"]] = base
        return b
    if k == "marker":
        pid = op["pid"]
        b = cluster.append_raw(topic, p, lambda base_offset: refcodec.control_batch(
            base_offset, pid, 0, bool(op["commit"]), ts=1000 + base_offset))
        first = lg.open_txn.pop(pid, None)
        if first is not None and not op["commit"]:
            lg.aborted.append((pid, first, b.base_offset))
        return b
    if k == "legacy":
        magic, n = op["magic"], op["n"]
        base = lg.next_offset
        out = []
        if op.get("gzip"):
            inner = b""
            for i in range(n):
                off = base + i
                inner += _legacy_msg(i if magic == 1 else off, magic, 1000 + off, rec_key(p, off), rec_value(p, off))
            wrapper = _legacy_msg(base + n - 1, magic, 1000 + base + n - 1, None, _gzip.compress(inner), attrs=1)
            out.append((base, base + n - 1, wrapper, list(range(base, base + n))))
        else:
            for i in range(n):
                off = base + i
                out.append((off, off, _legacy_msg(off, magic, 1000 + off, rec_key(p, off), rec_value(p, off)), [off]))
        last_b = None
        for (bo, lo, raw, offs) in out:
            b = refcodec.Batch()
            b.magic = magic
            b.base_offset, b.last_offset = bo, lo
            b.pid, b.epoch, b.base_seq = -1, -1, -1
            b.transactional = b.control = False
            b.count = len(offs)
            b.codec = 1 if op.get("gzip") else 0
            b.ts_type = 0
            b.first_ts = b.max_ts = 0
            b.records = [{"offset": o, "ts": (1000 + o) if magic == 1 else None, "key": rec_key(p, o),
                          "value": rec_value(p, o), "headers": [], "ts_type": 0} for o in offs]
            b.raw = raw
            b.append_time = int(cluster.loop.time() * 1000)
            lg.batches.append(b)
            lg.next_offset = lo + 1
            last_b = b
        return last_b
    raise ValueError(k)


def _set_last_delta(raw, last_delta):
    (cur,) = struct.unpack(">i", raw[23:27])
    if cur == last_delta:
        return raw
    tail = raw[21:23] + struct.pack(">i", last_delta) + raw[27:]
    crc = refcodec.crc32c(tail)
    return raw[:17] + struct.pack(">I", crc) + tail


# ------------------------------------------------------------------------------------ ground truth
def ground_truth(lg, iso):
    """(batches, records, bound): batches = [[base, last, [visible offsets]]] of the simulated
    log below the bound (LSO for read_committed, high watermark otherwise); records =
    {offset: [key, value]} of the visible records.  iso: 0 read_uncommitted, 1 read_committed."""
    bound = lg.lso if iso == 1 else lg.high_watermark
    batches = []
    recs = {}
    for b in lg.batches:
        if b.last_offset >= bound:
            continue
        vis = []
        if not b.control:
            aborted = False
            if iso == 1 and b.transactional:
                for (pid, first, last) in lg.aborted:
                    if pid == b.pid and first <= b.base_offset < last:
                        aborted = True
            if not aborted:
                for r in b.records:
                    vis.append(r["offset"])
                    recs[r["offset"]] = [(r["key"] or b"").decode("latin1"), (r["value"] or b"").decode("latin1")]
        batches.append([b.base_offset, b.last_offset, vis])
    return batches, recs, bound
